"""R-WRAPPER-ORDER (C20), R-METAKEY (C11, C20)."""
import re

from .prog import (AnalysisBroken, key, strip, walk, const_value, enum_name, edpe_blocks, block_nodes, tok_dkey, resolve_key, single_assignment_locals)

CONTROL_KEYS = {"baseheaderlevel", "epubheaderlevel", "htmlheaderlevel", "xhtmlheaderlevel", "latexheaderlevel",
                "odfheaderlevel", "language", "latexmode", "quoteslanguage"}


def _guard_conds(f, n):
    out = []
    cur = n
    for a in f.ancestors(n):
        if a["k"] == "IfStmt":
            then, els = a["c"][1], a["c"][2]
            if then is not None and any(x is cur for x in walk(then)):
                out.append(key(a["c"][0]))
            elif els is not None and any(x is cur for x in walk(els)):
                out.append("!" + key(a["c"][0]))
        cur = a
    return out


def _reach_blocks(cfg, start, allowed):
    seen = set()
    st = [start]
    while st:
        b = st.pop()
        if b in seen or b not in allowed:
            continue
        seen.add(b)
        st.extend(cfg.blocks[b].rsucc)
    return seen


def r_wrapper_order(P, chk):
    rid = "R-WRAPPER-ORDER"
    chk.rule(rid, "per format: the document header call precedes and the footer call follows the body and note-list exports, both "
                  "under the same condition; EXT_COMPLETE is only ever set under !EXT_SNIPPET; the set of metadata keys that do not "
                  "force a complete document is the documented rendering-control set; body exporters read metadata only for variables")
    f = P.func("mmd_engine_export_token_tree", "writer.c")
    fmts = P.enumerators("output_format")
    pos = f.cfg.positions()
    n_fmt = 0
    for name, v in fmts:
        blocks = edpe_blocks(f, "scratch->output_format", v)
        calls = [n for n in block_nodes(f, blocks) if n["k"] == "CallExpr" and n.get("callee")]
        S = [c for c in calls if c["callee"].startswith("mmd_start_complete_")]
        E = [c for c in calls if c["callee"].startswith("mmd_end_complete_")]
        B = [c for c in calls if c["callee"].startswith("mmd_export_token_tree_")]
        L = [c for c in calls if re.match(r"mmd_export_(footnote|glossary|citation)_list_", c["callee"])]
        if not B:
            continue
        n_fmt += 1
        if not S and not E:
            chk.obligation(rid, "%s: no wrapper calls (body only)" % name, True, nontrivial=False)
            continue
        ok = len(S) == 1 and len(E) == 1
        chk.obligation(rid, "%s: exactly one header call and one footer call (%s / %s)" % (
            name, [c["callee"] for c in S], [c["callee"] for c in E]), ok)
        if not ok:
            chk.violation(rid, "wrapper:pair:%s" % name, f.where(), "%s: header calls %s, footer calls %s" % (
                name, [c["callee"] for c in S], [c["callee"] for c in E]))
            continue
        s, e = S[0], E[0]
        # order: nothing of the body/lists can run before the header or after the footer
        sb = pos[s["i"]][0]
        eb = pos[e["i"]][0]
        after_e = _reach_blocks(f.cfg, eb, blocks)
        ok_order = True
        for c in B + L:
            cb = pos[c["i"]][0]
            from_c = _reach_blocks(f.cfg, cb, blocks)
            if sb in from_c and sb != cb:
                ok_order = False
            if cb in after_e and cb != eb:
                ok_order = False
            if cb == sb and pos[c["i"]][1] < pos[s["i"]][1]:
                ok_order = False
            if cb == eb and pos[c["i"]][1] > pos[e["i"]][1]:
                ok_order = False
        chk.obligation(rid, "%s: %s runs before and %s after the body export and the note lists" % (name, s["callee"], e["callee"]), ok_order)
        if not ok_order:
            chk.violation(rid, "wrapper:order:%s" % name, f.where(s), "%s: the document header/footer no longer bracket the body and "
                          "note lists (header %s, footer %s)" % (name, s["callee"], e["callee"]))
        cs, ce = _guard_conds(f, s), _guard_conds(f, e)

        def complete_bit(val):
            def d(t):
                t = strip(t)
                if t is not None and t["k"] == "BinaryOperator" and t["op"] == "&" and \
                        any(enum_name(a) == "EXT_COMPLETE" or const_value(a) == P.enum_consts.get("EXT_COMPLETE") for a in t["c"]):
                    return val
                return None
            return d
        # same condition, by path conditions: with the format decided, header and footer are reachable for the same values
        # of the EXT_COMPLETE bit (both with it, neither without it), and the body for both values
        on = edpe_blocks(f, "scratch->output_format", v, extra_decide=complete_bit(True))
        off = edpe_blocks(f, "scratch->output_format", v, extra_decide=complete_bit(False))
        okc = (sb in on) == (eb in on) and (sb in off) == (eb in off) and (sb in on) and not (sb in off) or cs == ce
        chk.obligation(rid, "%s: header and footer are emitted under the same condition %s" % (name, cs or "(always)"), okc)
        if not okc:
            chk.violation(rid, "wrapper:cond:%s" % name, f.where(s), "%s: header is emitted under %s but footer under %s" % (name, cs, ce))
        # body is unconditional
        for c in B:
            okb = not _guard_conds(f, c) or (pos[c["i"]][0] in on and pos[c["i"]][0] in off)
            chk.obligation(rid, "%s: the body export is unconditional" % name, okb)
            if not okb:
                chk.violation(rid, "wrapper:body:%s" % name, f.where(c), "%s: body export is conditional on %s" % (name, _guard_conds(f, c)))
        fam = lambda c: c["callee"].rsplit("_", 1)[-1]
        okp = (fam(s), fam(e)) in {("html", "html"), ("latex", "latex"), ("latex", "beamer"), ("latex", "memoir")}
        chk.obligation(rid, "%s: header family %s pairs with footer family %s" % (name, fam(s), fam(e)), okp)
        if not okp:
            chk.violation(rid, "wrapper:family:%s" % name, f.where(e), "%s: header %s closed by footer %s" % (name, s["callee"], e["callee"]))
    chk.floor(rid, n_fmt, 9, "formats with a body export")
    # snippet wins
    ext = P.enum_consts
    n_set = 0
    for g in P.all_funcs:
        if not P.first_party(g) or g.unit.base == "main.c":
            continue
        for x in g.walk():
            if x["k"] == "CompoundAssignOperator" and x["op"] == "|=" and key(x["c"][0]).endswith("->extensions"):
                v = const_value(x["c"][1])
                if v is not None and v & ext["EXT_COMPLETE"]:
                    n_set += 1
                    conds = _guard_conds(g, x)
                    # path condition: with the EXT_SNIPPET bit set the store is unreachable (whatever the branch shape)

                    def snippet_set(t):
                        t = strip(t)
                        if t is not None and t["k"] == "BinaryOperator" and t["op"] == "&" and \
                                any(enum_name(a) == "EXT_SNIPPET" or const_value(a) == ext["EXT_SNIPPET"] for a in t["c"]):
                            return True
                        return None
                    gpos = g.cfg.positions()
                    ok = x["i"] in gpos and gpos[x["i"]][0] not in edpe_blocks(g, "?none", 0, extra_decide=snippet_set)
                    chk.obligation(rid, "%s %s: EXT_COMPLETE is set only when EXT_SNIPPET is not requested" % (g.where(x), g.name), ok)
                    if not ok:
                        chk.violation(rid, "wrapper:snippet:%s" % g.name, g.where(x), "%s forces a complete document without checking "
                                      "that a snippet was not requested (conditions: %s)" % (g.name, conds))
    chk.floor(rid, n_set, 1, "stores that set EXT_COMPLETE")
    # control-key set, by path conditions: for every key literal K that process_metadata_stack (or a helper it hands the key
    # to) compares the key with, decide each comparison for "key == K" and ask whether a store that sets EXT_COMPLETE is
    # still reachable.  Helper results (`int r = helper(key, ..)`) are followed as sets of constant return values.
    pm = P.func("process_metadata_stack", "writer.c")

    def key_like(f, e, kparams):
        sk = strip(e)
        if sk is not None and sk["k"] == "DeclRefExpr" and sk["n"] in kparams:
            return True
        return resolve_key(f, e).endswith("->key")

    def strcmp_lit(f, t, kparams):
        """(literal) if t is strcmp(<key>, "literal") in either argument order, else None"""
        t = strip(t)
        if t is None or t["k"] != "CallExpr" or t.get("callee") != "strcmp" or len(t["c"]) < 3:
            return None
        a, b = t["c"][1], t["c"][2]
        for x, y in ((a, b), (b, a)):
            ly = strip(y)
            if ly is not None and ly["k"] == "StringLiteral" and key_like(f, x, kparams):
                return ly["s"]
        return None

    def helpers_of(f):
        out = []
        for c in f.calls():
            h = P.resolve(f, c.get("callee") or "")
            if h is None or not P.first_party(h) or h is f:
                continue
            idx = [i2 for i2, a in enumerate(c["c"][1:]) if key_like(f, a, ())]
            if idx and idx[0] < len(h.params):
                out.append((c, h, h.params[idx[0]][0]))
                continue
            # the whole metadata record is handed over and the helper compares its ->key
            idx = [i2 for i2, a in enumerate(c["c"][1:]) if "meta" in ((strip(a) or {}).get("t") or "")]
            if idx and idx[0] < len(h.params) and any(strcmp_lit(h, x, ()) is not None for x in h.walk()):
                out.append((c, h, "\x00record"))
        return out
    lits = set()
    for x in pm.walk():
        l = strcmp_lit(pm, x, ())
        if l is not None:
            lits.add(l)
    hs = helpers_of(pm)
    for c, h, pn in hs:
        for x in h.walk():
            l = strcmp_lit(h, x, (pn,))
            if l is not None:
                lits.add(l)
    chk.floor(rid, len(lits), 9, "metadata keys compared in process_metadata_stack")

    def decider(f, K, kparams, valsets):
        def d(t):
            t = strip(t)
            if t is None:
                return None
            l = strcmp_lit(f, t, kparams)
            if l is not None:
                return l != K            # strcmp() is non-zero (true) when the strings differ
            if t["k"] == "CallExpr" and f is pm:
                # `if (helper(m, ..)) continue;` - the helper's result used directly as a condition
                for c2, h2, pn2 in hs:
                    if c2 is t:
                        rv = ret_vals(h2, pn2, K)
                        if rv is not None and rv and len({bool(v2) for v2 in rv}) == 1:
                            return bool(next(iter(rv)))
            if t["k"] == "BinaryOperator" and t["op"] in ("==", "!="):
                for x, y in ((t["c"][0], t["c"][1]), (t["c"][1], t["c"][0])):
                    cv = const_value(y)
                    if cv is None:
                        continue
                    l2 = strcmp_lit(f, x, kparams)
                    if l2 is not None and cv == 0:
                        eq = (l2 == K)
                        return eq if t["op"] == "==" else not eq
                    sx = strip(x)
                    if sx is not None and sx["k"] == "DeclRefExpr" and sx["n"] in valsets and valsets[sx["n"]] is not None:
                        res = {(vv == cv) if t["op"] == "==" else (vv != cv) for vv in valsets[sx["n"]]}
                        if len(res) == 1:
                            return res.pop()
            return None
        return d

    def ret_vals(h, pn, K):
        blocks = edpe_blocks(h, "?none", 0, extra_decide=decider(h, K, (pn,), {}))
        hpos = h.cfg.positions()
        vals = set()
        for r in h.walk():
            if r["k"] != "ReturnStmt" or not r.get("c") or r["c"][0] is None:
                continue
            z = r if r.get("i") in hpos else next((y for y in walk(r) if y.get("i") in hpos), None)
            if z is None or hpos[z["i"]][0] not in blocks:
                continue
            e = strip(r["c"][0])
            cv = const_value(e)
            if cv is not None:
                vals.add(cv)
            elif e is not None and e["k"] == "ConditionalOperator" and const_value(e["c"][1]) is not None and const_value(e["c"][2]) is not None:
                vals |= {const_value(e["c"][1]), const_value(e["c"][2])}
            else:
                return None
        return vals
    stores = [x for x in pm.walk() if x["k"] == "CompoundAssignOperator" and x["op"] == "|=" and (const_value(x["c"][1]) or 0) & ext["EXT_COMPLETE"]]
    # ... or a call of a same-unit helper that does nothing but set the bit (under the snippet test checked above)
    for c in pm.calls():
        h = pm.unit.funcs.get(c.get("callee") or "")
        if h is not None and h is not pm and any(x["k"] == "CompoundAssignOperator" and x["op"] == "|=" and
                                                 (const_value(x["c"][1]) or 0) & ext["EXT_COMPLETE"] for x in h.walk()):
            stores.append(c)
    ppos = pm.cfg.positions()
    keys = {}
    for K in sorted(lits) + ["\x00some-other-key"]:
        valsets = {}
        for c, h, pn in hs:
            par = pm.parent(c)
            while par is not None and par["k"] in ("ImplicitCastExpr", "ParenExpr", "CStyleCastExpr"):
                par = pm.parent(par)
            tgt = None
            if par is not None and par["k"] == "BinaryOperator" and par["op"] == "=":
                tgt = key(par["c"][0])
            elif par is not None and par["k"] == "VarDecl":
                tgt = par["n"]
            if tgt:
                rv = ret_vals(h, pn, K)
                valsets[tgt] = rv if tgt not in valsets else (None if (rv is None or valsets[tgt] is None) else valsets[tgt] | rv)
        blocks = edpe_blocks(pm, "?none", 0, extra_decide=decider(pm, K, (), valsets))
        keys[K] = any(x["i"] in ppos and ppos[x["i"]][0] in blocks for x in stores)
    other_forces = keys.pop("\x00some-other-key")
    quiet = {k for k, forces in keys.items() if not forces}
    ok = quiet == CONTROL_KEYS and other_forces
    chk.obligation(rid, "keys that do not force a complete document = rendering-control keys %s; any other key forces it" % sorted(quiet), ok)
    if not ok:
        chk.violation(rid, "wrapper:control-keys", pm.where(), "metadata keys that do not force a complete document are %s; the "
                      "documented rendering-control set is %s (extra: %s, missing: %s)%s" % (
                          sorted(quiet), sorted(CONTROL_KEYS), sorted(quiet - CONTROL_KEYS), sorted(CONTROL_KEYS - quiet),
                          "" if other_forces else "; an arbitrary other key does not force a complete document"))
    # the final else (any other key) forces complete
    elses = stores
    chk.obligation(rid, "every other key forces a complete document (%d forcing branches)" % len(elses), len(elses) >= 1)
    # who may read metadata in the body exporters
    roots = []
    for nme in ("mmd_export_token_tree_html", "mmd_export_token_tree_latex", "mmd_export_token_tree_beamer", "mmd_export_token_tree_memoir"):
        roots.append(P.fid(P.func(nme)))
    pred = P.reach(roots)
    tt = dict(P.enumerators("token_types"))
    n_reads = 0
    for fid in sorted(pred):
        g = P.by_fid(fid)
        if not P.first_party(g):
            continue
        for x in g.walk():
            is_read = (x["k"] == "MemberExpr" and x["n"] in ("meta_hash", "metadata_stack")) or \
                      (x["k"] == "CallExpr" and x.get("callee") in ("extract_metadata", "extract_meta"))
            if not is_read:
                continue
            n_reads += 1
            ok = False
            why = ""
            if g.name in ("extract_metadata", "extract_meta_from_stack"):
                ok, why = True, "the lookup helper itself (only reached through extract_metadata)"
                callers = [h for h in P.all_funcs if P.fid(h) in pred and any(True for _ in h.calls(g.name))]
                ok = all(h.name in ("extract_metadata",) or g.name == "extract_metadata" for h in callers)
            elif x["k"] == "CallExpr":
                # allowed only in the variable-substitution branch
                dk = [p[0] for p in g.params if "token" in p[1]]
                if dk:
                    b = g.cfg.positions().get(x["i"], (None,))[0]
                    types = {nm for nm, v in tt.items() if b in edpe_blocks(g, dk[0] + "->type", v)}
                    ok = types == {"PAIR_BRACKET_VARIABLE"}
                    why = "reachable only for %s" % sorted(types)[:4]
            chain = " -> ".join(y[1] for y in P.chain(pred, fid))
            chk.obligation(rid, "%s %s reads metadata in the body export cone (%s)" % (g.where(x), g.name, why), ok)
            if not ok:
                chk.violation(rid, "wrapper:metaread:%s" % g.name, g.where(x), "%s reads document metadata while rendering the body "
                              "(via %s): the body now depends on metadata beyond the documented keys" % (g.name, chain))
    chk.floor(rid, n_reads, 3, "metadata reads in the body export cone")
    # BLOCK_META emits nothing and does not descend
    for w, unit, fn in (("html", "html.c", "mmd_export_token_html"), ("latex", "latex.c", "mmd_export_token_latex")):
        g = P.func(fn, unit)
        blocks = edpe_blocks(g, tok_dkey(g), tt["BLOCK_META"])
        from .rules_critic import _switch_block
        sw = g.nodes.get(g.cfg.blocks[_switch_block(g)].term)
        inside = {g.cfg.positions()[y["i"]][0] for y in walk(sw["c"][1]) if y.get("i") in g.cfg.positions()}
        calls = [n for n in block_nodes(g, [b for b in blocks if b in inside]) if n["k"] == "CallExpr"]
        ok = not calls
        chk.obligation(rid, "%s writer: BLOCK_META branch emits nothing" % w, ok)
        if not ok:
            chk.violation(rid, "wrapper:blockmeta:%s" % w, g.where(calls[0]), "%s writer emits output for the metadata block (%s)" % (
                w, calls[0].get("callee")))


# ---------------------------------------------------------------------------
# R-METAKEY (C11)

KEY_NORMALISERS = {"label_from_string"}
FIXED_POINT = re.compile(r"^[a-z0-9._:-]*$")


def _normalised_var(f, name, depth=0):
    """Is local `name` only ever assigned from the key normaliser (or from another normalised value)?"""
    srcs = []
    for x in f.walk():
        if x["k"] == "VarDecl" and x["n"] == name and x.get("c") and x["c"][0] is not None:
            srcs.append(x["c"][0])
        elif x["k"] == "BinaryOperator" and x["op"] == "=" and key(x["c"][0]) == name:
            srcs.append(x["c"][1])
    if not srcs:
        return False
    for s in srcs:
        r = strip(s)
        if r is None:
            return False
        if r["k"] == "CallExpr" and r.get("callee") in KEY_NORMALISERS:
            continue
        if r["k"] == "CallExpr" and r.get("callee") == "clean_string" and len(r["c"]) > 2 and const_value(r["c"][2]) == 1:
            # clean_string(x, lowercase = true, ..) of an already normalised value
            inner = strip(r["c"][1])
            if inner is not None and inner["k"] == "DeclRefExpr":
                continue
        if r["k"] == "StringLiteral" and FIXED_POINT.match(r.get("s", "")):
            continue
        return False
    return True


def _key_arg_ok(P, f, a, callers_checked=None):
    s = strip(a)
    if s is None:
        return False, "?"
    if s["k"] == "StringLiteral":
        ok = bool(FIXED_POINT.match(s.get("s", "")))
        return ok, "literal %r %s" % (s.get("s"), "is a fixed point of the key normal form" if ok else "is NOT in normal form [a-z0-9._:-]*")
    if s["k"] == "DeclRefExpr" and s.get("dk") == "Var":
        ok = _normalised_var(f, s["n"])
        return ok, "`%s` %s" % (s["n"], "comes from label_from_string" if ok else "is not produced by label_from_string")
    if s["k"] == "DeclRefExpr" and s.get("dk") == "Parm":
        # every caller must pass a normalised value
        idx = [i for i, p in enumerate(f.params) if p[0] == s["n"]][0]
        sites = [(g, c) for g in P.all_funcs for c in g.calls(f.name) if P.resolve(g, f.name) is f]
        if not sites:
            return False, "parameter `%s` of an uncalled function" % s["n"]
        for g, c in sites:
            ok, why = _key_arg_ok(P, g, c["c"][1 + idx])
            if not ok:
                return False, "caller %s passes %s" % (g.name, why)
        return True, "every caller of %s passes a normalised key" % f.name
    if s["k"] == "MemberExpr" and s["n"] == "key":
        return True, "another stored key"
    if s["k"] == "CallExpr" and s.get("callee") in KEY_NORMALISERS:
        return True, "label_from_string(...)"
    return False, key(s)[:40]


def r_metakey(P, chk):
    rid = "R-METAKEY"
    chk.rule(rid, "metadata keys are stored through label_from_string and every comparison / hash lookup against a stored key "
                  "uses a value in the same normal form (normaliser result or a literal that is its fixed point)")
    mn = P.func("meta_new", "writer.c")
    st = [x for x in mn.walk() if x["k"] == "BinaryOperator" and x["op"] == "=" and key(x["c"][0]).endswith("->key")]
    ok = bool(st) and all((strip(x["c"][1]) or {}).get("callee") in KEY_NORMALISERS for x in st)
    chk.obligation(rid, "meta_new stores label_from_string(key)", ok)
    if not ok:
        chk.violation(rid, "metakey:store", mn.where(), "meta_new no longer stores the key through label_from_string")
    n = 0
    for f in P.all_funcs:
        if not P.first_party(f):
            continue
        for c in f.calls("strcmp"):
            a, b = c["c"][1], c["c"][2]
            ka, kb = strip(a), strip(b)
            other = None
            if ka is not None and ka["k"] == "MemberExpr" and ka["n"] == "key" and ka.get("rec") == "meta":
                other = b
            elif kb is not None and kb["k"] == "MemberExpr" and kb["n"] == "key" and kb.get("rec") == "meta":
                other = a
            if other is None:
                continue
            n += 1
            ok, why = _key_arg_ok(P, f, other)
            chk.obligation(rid, "%s %s: stored key compared with %s" % (f.where(c), f.name, why), ok, sample=(n % 9 == 0))
            if not ok:
                chk.violation(rid, "metakey:cmp:%s:%s" % (f.name, key(other)[:30]), f.where(c),
                              "%s compares a stored (normalised) metadata key with %s: the key can never match" % (f.name, why))
        # hash lookups (macro invocations: read from the source text)
        txt = f.src(f.body)
        for m in re.finditer(r"HASH_FIND_STR\(\s*([\w>\-\.]+meta_hash)\s*,\s*([^,]+?)\s*,", txt):
            n += 1
            arg = m.group(2).strip()
            if arg.startswith('"'):
                lit = arg.strip('"')
                ok = bool(FIXED_POINT.match(lit))
                why = "literal %r" % lit
            elif re.match(r"^\w+$", arg):
                if any(p[0] == arg for p in f.params):
                    fake = {"k": "DeclRefExpr", "dk": "Parm", "n": arg}
                    ok, why = _key_arg_ok(P, f, fake)
                else:
                    ok = _normalised_var(f, arg)
                    if not ok:
                        # a local that only ever holds a stored key (`char * key = m->key;`)
                        srcs = [x["c"][0] for x in f.walk() if x["k"] == "VarDecl" and x["n"] == arg and x.get("c") and x["c"][0] is not None] + \
                               [x["c"][1] for x in f.walk() if x["k"] == "BinaryOperator" and x["op"] == "=" and key(x["c"][0]) == arg]
                        if srcs and all((strip(y) or {}).get("k") == "MemberExpr" and strip(y)["n"] == "key" and strip(y).get("rec") == "meta" for y in srcs):
                            ok = True
                    why = "`%s` %s" % (arg, "normalised" if ok else "not normalised")
            elif arg.endswith("->key"):
                ok, why = True, "another stored key"
            else:
                ok, why = False, arg
            chk.obligation(rid, "%s: meta_hash lookup with %s" % (f.name, why), ok)
            if not ok:
                chk.violation(rid, "metakey:hash:%s:%s" % (f.name, arg[:30]), f.where(), "%s looks up the metadata hash with %s, which is "
                              "not in the stored key's normal form" % (f.name, why))
    chk.floor(rid, n, 40, "comparisons / lookups against stored metadata keys")
    # API functions make sure metadata was detected before reading the stack: with "the stack is empty" decided true, no read of
    # the stack is reachable except through a call that loads the metadata (mmd_engine_has_metadata, or a same-unit helper that
    # cannot return without it when the stack is empty)
    def empty(t_):
        t2 = strip(t_)
        if t2 is None:
            return None
        k2 = resolve_key(f_cur[0], t2).replace("(", "").replace(")", "").replace(" ", "")
        if t2["k"] == "MemberExpr" and k2.endswith("metadata_stack->size"):
            return False
        if t2["k"] == "BinaryOperator" and t2["op"] in ("==", "!=", ">", "<=") and resolve_key(f_cur[0], t2["c"][0]).replace("(", "").replace(")", "").endswith("metadata_stack->size") \
                and const_value(t2["c"][1]) == 0:
            return t2["op"] in ("==", "<=")
        return None
    f_cur = [None]
    mu = P.units["mmd.c"]
    loaders = {"mmd_engine_has_metadata"}
    for _ in range(2):
        for h in mu.funcs.values():
            if h.name in loaders:
                continue
            lc = [c for c in h.calls() if c.get("callee") in loaders and c.get("i") in h.cfg.positions()]
            if not lc:
                continue
            f_cur[0] = h
            blocked = {h.cfg.positions()[c["i"]][0] for c in lc}
            if h.cfg.exit not in edpe_blocks(h, "?none", 0, extra_decide=empty, blocked=blocked):
                loaders.add(h.name)
    readers = {h.name for h in mu.funcs.values() if any(resolve_key(h, c["c"][1]).endswith("->metadata_stack") for c in h.calls("stack_peek_index"))}
    for fn in ("mmd_engine_metadata_keys", "mmd_engine_metavalue_for_key"):
        f = P.func(fn, "mmd.c")
        f_cur[0] = f
        pos = f.cfg.positions()
        reads = [c for c in f.calls() if c.get("i") in pos and (
            (c.get("callee") == "stack_peek_index" and resolve_key(f, c["c"][1]).endswith("->metadata_stack")) or
            (c.get("callee") in readers and c.get("callee") != fn and c.get("callee") not in loaders))]
        lc = [c for c in f.calls() if c.get("callee") in loaders and c.get("i") in pos]
        blocked = {pos[c["i"]][0] for c in lc}
        reach = edpe_blocks(f, "?none", 0, extra_decide=empty, blocked=blocked)
        okh = bool(reads) and bool(lc) and all(pos[r["i"]][0] not in reach or pos[r["i"]][0] in blocked for r in reads)
        chk.obligation(rid, "%s checks for metadata (mmd_engine_has_metadata when the stack is empty) before reading the stack" % fn, okh)
        if not okh:
            chk.violation(rid, "metakey:order:%s" % fn, f.where(), "%s reads metadata_stack without first making sure the metadata "
                          "block was parsed" % fn)


# ---------------------------------------------------------------------------
# R-WRAPBIT (C20): who may read the complete/snippet switches

WRAP_BITS = ("EXT_COMPLETE", "EXT_SNIPPET")
# the wrapper layer: the decision (process_metadata_stack), the emission of header/footer around the body
# (mmd_engine_export_token_tree) and the command line that sets the bits
WRAP_LAYER = {"process_metadata_stack", "mmd_engine_export_token_tree", "main"}


def r_wrapbit(P, chk):
    rid = "R-WRAPBIT"
    chk.rule(rid, "the EXT_COMPLETE / EXT_SNIPPET bits are referenced only by the wrapper layer (decision, header/footer emission, CLI) "
                  "or by helpers called from nowhere else: lexer, parser and token exporters cannot see the switch")
    edges, _, _ = P.callgraph()
    callers = {}
    for a, bs in edges.items():
        for b in bs:
            callers.setdefault(b, set()).add(a)
    n = 0
    for f in P.all_funcs:
        if not P.first_party(f):
            continue
        refs = [x for x in f.walk() if x["k"] == "DeclRefExpr" and x.get("dk") == "Enum" and x["n"] in WRAP_BITS]
        if not refs:
            continue
        n += len(refs)
        ok = f.name in WRAP_LAYER
        if not ok:
            # a helper of the wrapper layer: every (transitive, depth <= 2) caller is in the layer
            def layer_only(fid, depth):
                cs = callers.get(fid, set()) - {fid}
                if not cs:
                    return False
                return all(c[1] in WRAP_LAYER or (depth < 2 and layer_only(c, depth + 1)) for c in cs)
            ok = layer_only(P.fid(f), 0)
        chk.obligation(rid, "%s:%s references %s" % (f.unit.base, f.name, "/".join(sorted({r["n"] for r in refs}))), ok=ok)
        if not ok:
            chk.violation(rid, "wrapbit:%s:%s" % (f.unit.base, f.name), f.where(refs[0]),
                          "%s reads %s outside the wrapper layer: the body rendering can now depend on -f / -s" % (f.name, refs[0]["n"]))
        if f.unit.base == "main.c":
            # the command line only *sets* the bits (`extensions |= EXT_SNIPPET`); a test of them there would make what is fed
            # to the library (transclusion, mmd header / footer text) depend on -f / -s
            for r in refs:
                setter = False
                for a in f.ancestors(r):
                    if a["k"] == "CompoundAssignOperator" and a["op"] in ("|=", "&=") or (a["k"] == "BinaryOperator" and a["op"] == "="):
                        setter = any(y is r for y in walk(a["c"][1]))
                        break
                    if a["k"] in ("IfStmt", "WhileStmt", "ForStmt", "ConditionalOperator", "CallExpr", "ReturnStmt"):
                        break
                chk.obligation(rid, "main.c:%s line %d: %s is only stored into the extensions word" % (f.name, r["l"], r["n"]), setter)
                if not setter:
                    chk.violation(rid, "wrapbit:main.c:%s:test" % f.name, f.where(r),
                                  "%s tests %s: the text handed to the library (transclusion, MMD header / footer) now depends on "
                                  "-f / -s, so the body of a snippet differs from the body of the complete document" % (f.name, r["n"]))
    chk.floor(rid, n, 6, "references to the complete/snippet bits")
    chk.analysed[rid] = {"references": n, "wrapper_layer": sorted(WRAP_LAYER)}


# ---------------------------------------------------------------------------
# R-WRAPPER-PURE (C20): emitting the document header / footer changes nothing the body exporter reads

WRAPPER_MAY_STORE = {"padded": "layout bookkeeping of pad(): how many newlines were just written"}


def r_wrapper_pure(P, chk):
    rid = "R-WRAPPER-PURE"
    chk.rule(rid, "the document header / footer functions (mmd_start_complete_*, mmd_end_complete_*) store into nothing but their "
                  "locals and the padding counter: no write through a pointer, no write to metadata, scratch-pad or engine fields "
                  "that the body exporter reads (the body would render differently with and without the wrapper)")
    n = 0
    for f in P.all_funcs:
        if not P.first_party(f) or not (f.name.startswith("mmd_start_complete") or f.name.startswith("mmd_end_complete")):
            continue
        n += 1
        bad = []
        for x in f.walk():
            if x.get("m"):
                continue
            if (x["k"] == "BinaryOperator" and x["op"] == "=") or x["k"] == "CompoundAssignOperator" or \
                    (x["k"] == "UnaryOperator" and x["op"] in ("post++", "pre++", "post--", "pre--")):
                l = strip(x["c"][0])
                if l is None or l["k"] == "DeclRefExpr":
                    continue
                if l["k"] == "MemberExpr" and l["n"] in WRAPPER_MAY_STORE:
                    continue
                bad.append(x)
        chk.obligation(rid, "%s:%s stores only into locals / the padding counter" % (f.unit.base, f.name), ok=not bad)
        for x in bad[:1]:
            chk.violation(rid, "wrapper-pure:%s:%s" % (f.name, key(x["c"][0])[:30]), f.where(x),
                          "%s writes `%s` while emitting the document wrapper: state read by the body exporter (metadata values, "
                          "scratch pad) now depends on whether the header was printed" % (f.name, f.src(x)[:50]))
    chk.floor(rid, n, 3, "document header / footer functions")
    for k2, why in WRAPPER_MAY_STORE.items():
        chk.notes.append("R-WRAPPER-PURE allows stores to `%s`: %s" % (k2, why))


# ---------------------------------------------------------------------------
# R-METAWINDOW (C11): a blank line ends the metadata block

def r_metawindow(P, chk):
    rid = "R-METAWINDOW"
    chk.rule(rid, "mmd_assign_line_type: every branch of the first-token dispatch that classifies a line as LINE_EMPTY also clears "
                  "e->allow_meta on the same path (a whitespace-only line ends the metadata block; otherwise `word: text` body lines "
                  "after it are read as further keys)")
    f = P.func("mmd_assign_line_type", "mmd.c")
    if f is None:
        raise AnalysisBroken("mmd_assign_line_type is gone")
    sws = [x for x in f.walk() if x["k"] == "SwitchStmt" and key(x["c"][0]).endswith("->type")]
    if not sws:
        raise AnalysisBroken("mmd_assign_line_type: no dispatch on the first token")
    sw = sws[0]
    from .lalr import Tables
    T = Tables(P)
    empty = [v for v in range(1, T.nterminal) if T.name(v) == "LINE_EMPTY"]
    if not empty:
        raise AnalysisBroken("parser terminal LINE_EMPTY not found")
    stores = [x for x in walk(sw) if x["k"] == "BinaryOperator" and x["op"] == "=" and key(x["c"][0]).endswith("->type")
              and const_value(x["c"][1]) == empty[0]]
    pos = f.cfg.positions()
    clears = [x for x in f.walk() if x["k"] == "BinaryOperator" and x["op"] == "=" and key(x["c"][0]).endswith("->allow_meta")
              and const_value(x["c"][1]) == 0 and x["i"] in pos]
    cpos = {}
    for c in clears:
        b, i = pos[c["i"]]
        cpos.setdefault(b, []).append(i)
    n = 0
    for s in stores:
        if s["i"] not in pos:
            continue
        n += 1
        b0, i0 = pos[s["i"]]
        # cleared before the store on every path from the switch?  or after it on every path to the exit?
        ok = any(f.cfg.dominates(c["i"], s["i"]) and any(x is c for x in walk(sw)) for c in clears)
        if not ok:
            if any(i > i0 for i in cpos.get(b0, ())):
                ok = True
            else:
                leak = False
                seen, st = set(), list(f.cfg.blocks[b0].rsucc)
                while st:
                    b = st.pop()
                    if b in seen:
                        continue
                    seen.add(b)
                    if b in cpos:
                        continue
                    if b == f.cfg.exit:
                        leak = True
                        break
                    st.extend(f.cfg.blocks[b].rsucc)
                ok = not leak
        chk.obligation(rid, "%s: LINE_EMPTY classification clears allow_meta" % f.where(s), ok=ok)
        if not ok:
            chk.violation(rid, "metawindow:%s" % f.name, f.where(s), "a line is classified LINE_EMPTY here without clearing e->allow_meta: the "
                          "metadata block does not end at this blank line")
    chk.floor(rid, n, 2, "LINE_EMPTY classifications in the first-token dispatch")


# ---------------------------------------------------------------------------
# R-METASCAN (C11): a line is recognised as metadata, and its key cut out, from the start of the line itself

def r_metascan(P, chk):
    """mmd_assign_line_type decides `LINE_META` with scan_meta_line, strip_line_tokens_from_metadata cuts the key with
    scan_meta_key and tests continuation lines with scan_meta_line.  All of them must look at the same place: the first byte
    of the line token (or of the document).  A scan anchored at a child of the line (after the indentation token) accepts an
    indented `word: text` continuation as a new key while the key extraction, anchored at the line, finds none."""
    from .lalr import Tables, rhs_constants
    rid = "R-METASCAN"
    chk.rule(rid, "every scan_meta_line / scan_meta_key call looks at the first byte of a line token (a token whose ->type is "
                  "dispatched on / assigned parser line kinds) or of the document, never at a child of the line")
    T = Tables(P)
    n = 0

    def _cmp_line_vars(f):
        out = set()
        for x in f.walk():
            if x["k"] == "BinaryOperator" and x["op"] in ("==", "!="):
                for a, b in ((x["c"][0], x["c"][1]), (x["c"][1], x["c"][0])):
                    cv = const_value(b)
                    if key(a).endswith("->type") and cv is not None and 0 < cv < T.nterminal and T.name(cv).startswith("LINE_"):
                        out.add(key(a)[:-len("->type")])
        return out

    def line_vars(f, depth=0):
        linevars = _cmp_line_vars(f)
        linevars |= _line_vars_sw(f)
        # a token handed to a same-unit helper that dispatches on its line kind
        if depth < 2:
            for c in f.calls():
                h = f.unit.funcs.get(c.get("callee") or "")
                if h is None or h is f:
                    continue
                hv = _line_vars_sw(h) | {k2 for k2 in _cmp_line_vars(h)}
                for i, prm in enumerate(h.params):
                    if prm[0] in hv and 1 + i < len(c["c"]):
                        linevars.add(key(c["c"][1 + i]))
        # a token parameter that every caller binds to one of its own line tokens
        if depth < 2:
            for i, prm in enumerate(f.params):
                if prm[0] in linevars or "token" not in prm[1]:
                    continue
                sites = [(g, c) for g in f.unit.funcs.values() if g is not f for c in g.calls(f.name)]
                if sites and all(1 + i < len(c["c"]) and key(c["c"][1 + i]) in line_vars(g, depth + 1) for g, c in sites):
                    linevars.add(prm[0])
        return linevars

    def _line_vars_sw(f):
        linevars = set()
        for x in f.walk():
            if x["k"] == "SwitchStmt" and key(x["c"][0]).endswith("->type"):
                labs = []
                for y in walk(x["c"][1]):
                    if y["k"] == "CaseStmt":
                        own = next((a for a in f.ancestors(y) if a["k"] == "SwitchStmt"), None)
                        if own is x:
                            labs.append(y.get("v"))
                if any(v is not None and 0 < v < T.nterminal and T.name(v).startswith("LINE_") for v in labs):
                    linevars.add(key(x["c"][0])[:-len("->type")])
            elif x["k"] == "BinaryOperator" and x["op"] == "=" and key(x["c"][0]).endswith("->type"):
                if any(0 < v < T.nterminal and T.name(v).startswith("LINE_") for v in rhs_constants(x["c"][1])):
                    linevars.add(key(x["c"][0])[:-len("->type")])
        return linevars

    for f in P.all_funcs:
        if not P.first_party(f) or f.unit.base in ("scanners.c",):
            continue
        calls = [c for c in f.calls() if c.get("callee") in ("scan_meta_line", "scan_meta_key")]
        if not calls:
            continue
        linevars = line_vars(f)
        for c in calls:
            n += 1
            a = strip(c["c"][1])
            if a is not None and a["k"] == "DeclRefExpr" and a.get("dk") == "Var":
                # `const char * line_text = &source[line->start];` hoisted once
                init = single_assignment_locals(f).get(a["n"])
                if init is not None:
                    a = strip(init)
            anchor = None
            if a is not None and a["k"] == "UnaryOperator" and a["op"] == "&":
                sub = strip(a["c"][0])
                if sub is not None and sub["k"] == "ArraySubscriptExpr":
                    ik = resolve_key(f, sub["c"][1]).replace("(", "").replace(")", "")
                    if const_value(sub["c"][1]) == 0:
                        anchor = "document start"
                    elif ik.endswith("->start") and ik[:-len("->start")] in linevars:
                        anchor = "start of line token `%s`" % ik[:-len("->start")]
                    else:
                        anchor = None
            ok = anchor is not None
            chk.obligation(rid, "%s %s: %s(%s) looks at the %s" % (f.where(c), f.name, c["callee"], key(c["c"][1])[:40], anchor or "?"), ok)
            if not ok:
                chk.violation(rid, "metascan:%s:%s" % (f.name, c["callee"]), f.where(c),
                              "%s calls %s on `%s`, which is not the first byte of a line token (line tokens here: %s): metadata "
                              "recognition and key extraction no longer look at the same place, so an indented continuation line "
                              "is taken for a key (or a key for a continuation)" % (f.name, c["callee"], f.src(c["c"][1])[:60], sorted(linevars)))
    chk.floor(rid, n, 4, "scan_meta_line / scan_meta_key call sites")
