"""R-LEVEL (C04 nesting, C14 outline nesting): the outline writers compute the level of the heading being added and
the level of the headings on the outline stack by the same function of the heading kind.

The writers that keep `outline_stack` (OPML, ITMZ, Beamer) close an open outline item / frame when
level(stacked heading) >= level(new heading).  Both levels are computed in line, from `X->type`, with special cases
for the Setext kinds and the `base header level` offset.  If the two computations differ for some heading kind the
comparison is between different scales and items are closed too early or never (unbalanced </outline>, \\end{frame}).

The rule evaluates, for every heading kind v (the case labels of raw_level_for_header) and each side of such a
comparison, the value of the compared local as a linear form  c + k * base_header_level  by a forward constant
propagation over the blocks that are reachable when `X->type == v` (EDPE), following first-party helper calls that
receive X.  No reference function is assumed: the two sides only have to agree with each other.
"""
from .prog import key, strip, walk, const_value, enum_name, edpe_blocks, is_assign, single_assignment_locals

TOP = "T"


def _add(a, b, sign=1):
    if a is TOP or b is TOP or a is None or b is None:
        return TOP
    return (a[0] + sign * b[0], a[1] + sign * b[1])


class Eval:
    def __init__(self, P, f, dkey, v, depth=0):
        self.P, self.f, self.dkey, self.v, self.depth = P, f, dkey, v, depth
        self.root = dkey.split("->")[0]
        self.aliases = {dkey}
        for nm, init in single_assignment_locals(f).items():
            if key(init) == dkey:
                self.aliases.add(nm)
        root = self.root

        def nonnull(t):
            # under the hypothesis `root->type == v` the pointer itself is not NULL
            t = strip(t)
            if t is None:
                return None
            if t["k"] == "DeclRefExpr" and t["n"] == root:
                return True
            if t["k"] == "UnaryOperator" and t["op"] == "!":
                r = nonnull(t["c"][0])
                return None if r is None else not r
            if t["k"] == "BinaryOperator" and t["op"] in ("==", "!="):
                x, y = strip(t["c"][0]), strip(t["c"][1])
                for p, q in ((x, y), (y, x)):
                    if p is not None and p["k"] == "DeclRefExpr" and p["n"] == root and const_value(q) == 0:
                        return t["op"] == "!="
            return None
        self.edges = set()
        self.blocks = edpe_blocks(f, dkey, v, extra_decide=nonnull, edges_out=self.edges)

    def expr(self, e, st):
        e = strip(e)
        if e is None:
            return TOP
        k = e["k"]
        cv = const_value(e)
        if cv is not None:
            return (cv, 0)
        if key(e) in self.aliases:
            return (self.v, 0)
        if k == "DeclRefExpr":
            if e.get("dk") == "Enum":
                return TOP
            return st.get(e["n"], TOP)
        if k == "MemberExpr" and e["n"] == "base_header_level":
            return (0, 1)
        if k == "BinaryOperator" and e["op"] in ("+", "-"):
            return _add(self.expr(e["c"][0], st), self.expr(e["c"][1], st), 1 if e["op"] == "+" else -1)
        if k == "UnaryOperator" and e["op"] == "-":
            return _add((0, 0), self.expr(e["c"][0], st), -1)
        if k == "CallExpr" and e.get("callee") and self.depth < 2:
            g = self.P.resolve(self.f, e["callee"])
            if g is not None and self.P.first_party(g):
                args = e["c"][1:]
                idx = [i for i, a in enumerate(args) if key(a) == self.root]
                if len(idx) == 1 and idx[0] < len(g.params):
                    sub = Eval(self.P, g, g.params[idx[0]][0] + "->type", self.v, self.depth + 1)
                    return sub.returns()
        return TOP

    def transfer(self, node, st):
        k = node["k"]
        if k == "DeclStmt":
            for d in node.get("c") or ():
                if d is not None and d["k"] == "VarDecl":
                    st[d["n"]] = self.expr(d["c"][0], st) if d.get("c") and d["c"][0] is not None else None
        elif k == "BinaryOperator" and node["op"] == "=":
            l = strip(node["c"][0])
            if l is not None and l["k"] == "DeclRefExpr":
                st[l["n"]] = self.expr(node["c"][1], st)
        elif k == "CompoundAssignOperator":
            l = strip(node["c"][0])
            if l is not None and l["k"] == "DeclRefExpr":
                if node["op"] in ("+=", "-="):
                    st[l["n"]] = _add(st.get(l["n"], TOP), self.expr(node["c"][1], st), 1 if node["op"] == "+=" else -1)
                else:
                    st[l["n"]] = TOP
        elif k == "UnaryOperator" and node["op"] in ("post++", "pre++", "post--", "pre--"):
            l = strip(node["c"][0])
            if l is not None and l["k"] == "DeclRefExpr":
                st[l["n"]] = _add(st.get(l["n"], TOP), (1, 0), 1 if "++" in node["op"] else -1)
        elif k == "UnaryOperator" and node["op"] == "&":
            l = strip(node["c"][0])
            if l is not None and l["k"] == "DeclRefExpr":
                st[l["n"]] = TOP

    @staticmethod
    def join(a, b):
        if a is None:
            return dict(b)
        out = dict(a)
        for k2, v2 in b.items():
            if k2 not in out or out[k2] is None:
                out[k2] = v2
            elif v2 is not None and out[k2] != v2:
                out[k2] = TOP
        return out

    def solve(self):
        cfg, nodes = self.f.cfg, self.f.nodes
        inn = {cfg.entry: {}}
        work = [cfg.entry]
        out_of = {}
        rounds = 0
        while work and rounds < 5000:
            rounds += 1
            b = work.pop()
            if b not in self.blocks:
                continue
            st = dict(inn.get(b, {}))
            for e in cfg.blocks[b].el:
                n = nodes.get(e) if e >= 0 else None
                if n is not None:
                    self.transfer(n, st)
            if out_of.get(b) == st:
                continue
            out_of[b] = st
            for s in cfg.blocks[b].rsucc:
                if s not in self.blocks or (b, s) not in self.edges:
                    continue        # an edge the dispatch value rules out
                new = self.join(inn.get(s), st)
                if new != inn.get(s):
                    inn[s] = new
                    work.append(s)
        self.inn = inn
        return inn

    def state_before(self, node):
        """State just before the CFG element `node` (None if the node is not reachable for this value)."""
        if not hasattr(self, "inn"):
            self.solve()
        pos = self.f.cfg.positions()
        if node["i"] not in pos:
            return None
        b, i = pos[node["i"]]
        if b not in self.blocks or b not in self.inn:
            return None
        st = dict(self.inn[b])
        for e in self.f.cfg.blocks[b].el[:i]:
            n = self.f.nodes.get(e) if e >= 0 else None
            if n is not None:
                self.transfer(n, st)
        return st

    def returns(self):
        vals = set()
        for r in self.f.walk():
            if r["k"] != "ReturnStmt" or not r.get("c") or r["c"][0] is None:
                continue
            st = self.state_before(r)
            if st is None:
                # the ReturnStmt itself may not be an element; use its value expression
                st = self.state_before(strip(r["c"][0])) if strip(r["c"][0]) is not None else None
            if st is None:
                continue
            vals.add(self.expr(r["c"][0], st))
        if len(vals) == 1:
            return vals.pop()
        return TOP


def heading_kinds(P):
    g = P.func("raw_level_for_header")
    kinds = {}
    if g is not None:
        for x in g.walk():
            if x["k"] == "CaseStmt" and x.get("en"):
                kinds[x["en"]] = x["v"]
    return kinds


def _token_dkeys(f):
    out = set()
    for w in f.walk():
        if w["k"] == "SwitchStmt":
            k = key(w["c"][0])
            if k.endswith("->type"):
                out.add(k)
        elif w["k"] == "BinaryOperator" and w["op"] in ("==", "!=") and key(w["c"][0]).endswith("->type") and enum_name(w["c"][1]):
            out.add(key(w["c"][0]))
    # any `X->type` read of a token variable (level arithmetic without a switch)
    for w in f.walk():
        if w["k"] == "MemberExpr" and w["n"] == "type" and w.get("arrow") and strip(w["c"][0]) is not None \
                and strip(w["c"][0])["k"] == "DeclRefExpr" and "token" in (strip(w["c"][0]).get("t") or ""):
            out.add(key(w))
    # through single-assignment aliases
    for nm, init in single_assignment_locals(f).items():
        if key(init).endswith("->type"):
            out.add(key(init))
    return out


def _helper_dispatch_args(P, f):
    """`X->type` keys for token variables X that f hands to a first-party helper which dispatches on that parameter."""
    out = set()
    for c in f.calls():
        h = P.resolve(f, c.get("callee") or "")
        if h is None or not P.first_party(h) or h is f:
            continue
        hk = _token_dkeys(h)
        for i2, a in enumerate(c["c"][1:]):
            sa = strip(a)
            if sa is None or sa["k"] != "DeclRefExpr" or "token" not in (sa.get("t") or "") or i2 >= len(h.params):
                continue
            if h.params[i2][0] + "->type" in hk:
                out.add(sa["n"] + "->type")
    return out


def r_level(P, chk):
    rid = "R-LEVEL"
    chk.rule(rid, "outline writers: for every heading kind, level(stacked heading) and level(new heading) are the same linear "
                  "function c + k*base_header_level of the kind (EDPE + constant propagation on both sides of the closing comparison, "
                  "level helpers followed)")
    kinds = heading_kinds(P)
    if len(kinds) < 8:
        chk.fail_broken("R-LEVEL: raw_level_for_header no longer enumerates the 8 heading kinds")
        return
    n_cmp = 0
    for f in P.all_funcs:
        if not P.first_party(f):
            continue
        if not any(x["k"] == "MemberExpr" and x["n"] == "outline_stack" for x in f.walk()):
            continue
        dkeys = sorted(_token_dkeys(f) | _helper_dispatch_args(P, f))
        if len(dkeys) < 2:
            continue
        evals = {}

        def ev_for(dk, v):
            if (dk, v) not in evals:
                evals[(dk, v)] = Eval(P, f, dk, v)
            return evals[(dk, v)]
        for cmp_ in f.walk():
            if cmp_["k"] != "BinaryOperator" or cmp_["op"] not in ("<", ">", "<=", ">="):
                continue
            a, b = strip(cmp_["c"][0]), strip(cmp_["c"][1])
            if a is None or b is None:
                continue
            if not all(s2["k"] in ("DeclRefExpr", "CallExpr") for s2 in (a, b)):
                continue
            if any(s2["k"] == "DeclRefExpr" and s2.get("dk") != "Var" for s2 in (a, b)):
                continue
            # which token does each side depend on?
            table = {}
            for si, side in enumerate((a, b)):
                for dk in dkeys:
                    forms = []
                    for en, v in sorted(kinds.items()):
                        ev = ev_for(dk, v)
                        st = ev.state_before(cmp_)
                        forms.append(None if st is None else ev.expr(side, st))
                    if all(x is not None and x is not TOP for x in forms) and len(set(forms)) > 1:
                        table[(si, dk)] = forms
            sa = [dk for (si, dk) in table if si == 0]
            sb = [dk for (si, dk) in table if si == 1]
            pairs = [(x, y) for x in sa for y in sb if x != y]
            if not pairs:
                continue
            n_cmp += 1
            da, db = pairs[0]
            fa, fb = table[(0, da)], table[(1, db)]
            bad = [en for (en, _), x, y in zip(sorted(kinds.items()), fa, fb) if x != y]
            na, nb = key(a)[:40], key(b)[:40]
            desc = "%s:%s: %s(%s) %s %s(%s)" % (f.unit.base, f.name, na, da, cmp_["op"], nb, db)
            chk.obligation(rid, desc, ok=not bad)
            if bad:
                i3 = [en for en, _ in sorted(kinds.items())].index(bad[0])

                def show(x):
                    return "%d%+d*base" % x if x[1] else "%d" % x[0]
                chk.violation(rid, "level:%s:%s:%s" % (f.unit.base, f.name, na.split("(")[0]), f.where(cmp_),
                              "for a %s heading %s evaluates to %s but %s to %s (base = base header level): the two sides of "
                              "the closing test are on different scales (%d of %d kinds disagree)" % (
                                  bad[0], na, show(fa[i3]), nb, show(fb[i3]), len(bad), len(kinds)))
    chk.floor(rid, n_cmp, 2, "closing comparisons between two heading levels in outline writers")
    chk.analysed[rid] = {"comparisons": n_cmp, "heading_kinds": sorted(kinds)}


def r_baselevel(P, chk):
    """The outline writers close the open items at the end of the document by comparing each stacked heading's level
    (>= 1 + base_header_level - 1) with level 0, and HTML/ODF print the level into the tag name.  All of that presumes a base
    header level of at least 1; the value comes from metadata (`atoi`), so the store must be range-checked."""
    from .ub1 import UB1
    rid = "R-LEVEL/base"
    chk.rule(rid, "every value stored into base_header_level is a constant >= 1 or has an interval with lower bound >= 1 at the store "
                  "(interval analysis with branch refinement): document metadata cannot push heading levels to 0 or below")
    n = 0
    for f in P.all_funcs:
        if not P.first_party(f):
            continue
        ub = None
        for x in f.walk():
            if x["k"] != "BinaryOperator" or x["op"] != "=":
                continue
            l = strip(x["c"][0])
            if l is None or l["k"] != "MemberExpr" or l["n"] != "base_header_level":
                continue
            n += 1
            ub = ub or UB1(f)

            def lower(e, depth=0):
                """lower bound of e at the store; `c ? a : b` arm-wise, an arm that is the variable tested by c refined by c"""
                cv = const_value(e)
                if cv is not None:
                    return cv
                se = strip(e)
                if se is not None and se["k"] == "ConditionalOperator" and depth < 3:
                    c, a, b = se["c"]
                    sc = strip(c)
                    los = []
                    for arm, truth in ((a, True), (b, False)):
                        la = lower(arm, depth + 1)
                        if sc is not None and sc["k"] == "BinaryOperator" and sc["op"] in ("<", "<=", ">", ">="):
                            l_, r_ = sc["c"]
                            kv, other, op = key(l_), const_value(r_), sc["op"]
                            if other is None:
                                kv, other, op = key(r_), const_value(l_), {"<": ">", "<=": ">=", ">": "<", ">=": "<="}[sc["op"]]
                            if other is not None and key(arm) == kv:
                                if not truth:
                                    op = {"<": ">=", "<=": ">", ">": "<=", ">=": "<"}[op]
                                ref = other if op == ">=" else (other + 1 if op == ">" else None)
                                if ref is not None:
                                    la = ref if la is None else max(la, ref)
                        los.append(la)
                    return None if None in los else min(los)
                iv = ub.interval_at(e, at=x)
                return iv[0] if iv is not None and iv[0] != float("-inf") else None
            lo = lower(x["c"][1])
            ok = lo is not None and lo >= 1
            chk.obligation(rid, "%s %s: `%s` stores a value with lower bound %s" % (f.where(x), f.name, f.src(x)[:60], lo), ok)
            if not ok:
                chk.violation(rid, "level:base:%s" % f.name, f.where(x),
                              "%s stores `%s` (lower bound %s) into base_header_level: with `Base Header Level: -3` every heading "
                              "level is negative, the OPML/ITMZ writers' end-of-document test `t_level >= 0` never closes the open "
                              "<outline> elements and the output is not well-formed" % (f.name, f.src(x["c"][1])[:40], lo))
    chk.floor(rid, n, 2, "stores into base_header_level")
