"""R-ENUMKIND (C06): `short format` and `short language` travel through the API as plain integers.  The rule infers,
for every integer variable, parameter and record field, which enumeration it carries (output_format / lc_languages)
from the enumerators it is assigned or compared with, propagates that through assignments and calls to a fixpoint,
and reports any place where a value of one kind flows into a slot of the other kind (swapped or mistaken arguments
compile silently because both are `short`)."""
from .prog import key, strip, walk, enum_name, const_value

KINDS = {"output_format": "format", "lc_languages": "language"}


def _slot(f, e):
    """Identity of an integer-valued storage location: ('v', fid, name) for locals/params, ('f', record, field)."""
    s = strip(e)
    if s is None:
        return None
    if s["k"] == "DeclRefExpr" and s.get("dk") in ("Var", "Parm"):
        return ("v", (f.unit.base, f.name), s["n"])
    if s["k"] == "MemberExpr" and s.get("rec"):
        return ("f", s["rec"].replace("struct ", ""), s["n"])
    return None


def r_enumkind(P, chk):
    rid = "R-ENUMKIND"
    chk.rule(rid, "no value that carries an output_format flows into a slot that carries an lc_languages value or vice versa "
                  "(kinds inferred from the enumerators each variable / parameter / field meets, propagated through assignments "
                  "and calls)")
    enum_kind = {}
    for en, kind in KINDS.items():
        try:
            for name, _ in P.enumerators(en):
                enum_kind[name] = kind
        except Exception:
            chk.fail_broken("R-ENUMKIND: enum %s is gone" % en)
            return
    kinds = {}        # slot -> {kind: evidence}
    flows = []        # (src slot, dst slot, where)

    def mark(slot, kind, why):
        if slot is None:
            return
        kinds.setdefault(slot, {}).setdefault(kind, why)

    funcs = [f for f in P.all_funcs if P.first_party(f) and f.unit.base not in ("argtable3.c", "miniz.c")]
    for f in funcs:
        fid = (f.unit.base, f.name)
        for x in f.walk():
            k = x["k"]
            if k == "BinaryOperator" and x["op"] in ("==", "!=", "="):
                a, b = x["c"]
                for p, q in ((a, b), (b, a)):
                    en = enum_name(q)
                    if en in enum_kind:
                        mark(_slot(f, p), enum_kind[en], "%s %s %s at %s" % (key(p), x["op"], en, f.where(x)))
                if x["op"] == "=":
                    sa, sb = _slot(f, a), _slot(f, b)
                    if sa and sb:
                        flows.append((sb, sa, f.where(x)))
            elif k == "VarDecl" and x.get("c") and x["c"][0] is not None:
                en = enum_name(x["c"][0])
                dst = ("v", fid, x["n"])
                if en in enum_kind:
                    mark(dst, enum_kind[en], "%s = %s at %s" % (x["n"], en, f.where(f.parent(x) or x)))
                sb = _slot(f, x["c"][0])
                if sb:
                    flows.append((sb, dst, f.where(f.parent(x) or x)))
            elif k == "SwitchStmt":
                sl = _slot(f, x["c"][0])
                if sl:
                    for y in walk(x):
                        if y["k"] == "CaseStmt" and y.get("en") in enum_kind:
                            mark(sl, enum_kind[y["en"]], "switch (%s) case %s at %s" % (key(x["c"][0]), y["en"], f.where(x)))
                            break
            elif k == "CallExpr" and x.get("callee"):
                h = P.resolve(f, x["callee"])
                if h is None or not P.first_party(h):
                    continue
                hid = (h.unit.base, h.name)
                for i, a in enumerate(x["c"][1:]):
                    if i >= len(h.params):
                        break
                    ptype = h.params[i][1]
                    if "*" in ptype or not any(t in ptype for t in ("short", "int", "long", "char")):
                        continue
                    dst = ("v", hid, h.params[i][0])
                    en = enum_name(a)
                    if en in enum_kind:
                        mark(dst, enum_kind[en], "%s(.. %s ..) at %s" % (h.name, en, f.where(x)))
                    sa = _slot(f, a)
                    if sa:
                        flows.append((sa, dst, "%s argument %d of %s" % (f.where(x), i + 1, h.name)))
            elif k == "ReturnStmt":
                pass
    # propagate kinds along flows in both directions (a slot's kind is the kind of everything that meets it), but
    # remember where each kind first arrived so that the report can name the offending flow
    changed = True
    rounds = 0
    while changed and rounds < 20:
        changed = False
        rounds += 1
        for src, dst, where in flows:
            for a, b in ((src, dst), (dst, src)):
                for kd, why in list(kinds.get(a, {}).items()):
                    if kd not in kinds.get(b, {}):
                        # do not propagate across a flow that already connects two differently-kinded slots
                        if kinds.get(b) and kd not in kinds[b]:
                            continue
                        kinds.setdefault(b, {})[kd] = why
                        changed = True
    n = 0
    for src, dst, where in flows:
        ks, kd = set(kinds.get(src, {})), set(kinds.get(dst, {}))
        if not ks or not kd:
            continue
        n += 1
        ok = bool(ks & kd)
        if ok:
            continue
        sname = src[2] if src[0] == "v" else "%s.%s" % (src[1], src[2])
        dname = "%s of %s" % (dst[2], dst[1][1]) if dst[0] == "v" else "%s.%s" % (dst[1], dst[2])
        chk.obligation(rid, "%s: %s -> %s" % (where, sname, dname), ok=False)
        chk.violation(rid, "enumkind:%s:%s->%s" % (src[1][1] if src[0] == "v" else src[1], sname, dst[2]), where.split(" ")[0],
                      "`%s` carries a %s (%s) but flows into `%s`, which carries a %s (%s)" % (
                          sname, "/".join(sorted(ks)), list(kinds[src].values())[0], dname, "/".join(sorted(kd)), list(kinds[dst].values())[0]))
    chk.obl.setdefault(rid, [0, 0])
    chk.obl[rid][0] += n
    chk.obl[rid][1] += n - len([v for v in chk.viol if v["rule"] == rid])
    chk.floor(rid, n, 30, "assignments / argument bindings between kinded integer slots")
    chk.analysed[rid] = {"kinded_slots": len(kinds), "checked_flows": n}
