"""R-WRAP (C06): all API variants are thin wrappers that delegate to the engine function.
R-PTRPTR (C06, C09): no pointer-to-pointer handed to a byte-buffer parameter."""
import re

from .prog import (AnalysisBroken, key, strip, strip_parens, walk, const_value, enum_name, edpe_blocks, block_nodes, resolve_key)


def passes_through(f, stmt_ids):
    """True iff every CFG path entry -> exit executes at least one of the statements."""
    cfg = f.cfg
    pos = cfg.positions()
    hit = {pos[i][0] for i in stmt_ids if i in pos}
    if not hit:
        return False
    seen = set()
    st = [cfg.entry]
    while st:
        b = st.pop()
        if b in seen or b in hit:
            continue
        seen.add(b)
        if b == cfg.exit:
            return False
        st.extend(cfg.blocks[b].rsucc)
    return True


def reaches_on_all_paths(P, f, target, depth=0):
    """Every path through f executes a call to `target`, directly or inside a helper that itself does so on all
    its paths (helpers extracted from the wrappers)."""
    ids = []
    for c in f.calls():
        cal = c.get("callee")
        if cal == target:
            ids.append(c["i"])
        elif cal and depth < 2:
            g = P.resolve(f, cal)
            if g is not None and P.first_party(g) and g is not f and g.unit is f.unit and \
                    any(True for _ in g.calls()) and reaches_on_all_paths(P, g, target, depth + 1)[0]:
                ids.append(c["i"])
    return passes_through(f, ids), ids


def returns_copy_of(P, g, engine_fn):
    """Helper g returns my_strdup(...) of the engine function's result (or NULL) on every path."""
    if not any(True for _ in g.calls(engine_fn)):
        return False
    rets = [n for n in g.walk() if n["k"] == "ReturnStmt" and n["c"] and n["c"][0] is not None]
    if not rets:
        return False
    def is_copy(sx, need_dup=False):
        sx = strip(sx)
        if sx is None:
            return False
        if const_value(sx) == 0:
            return not need_dup
        if sx["k"] == "CallExpr" and sx.get("callee") in ("my_strdup", "strdup"):
            return True
        if sx["k"] == "ConditionalOperator":      # value ? my_strdup(value) : NULL
            return is_copy(sx["c"][1]) and is_copy(sx["c"][2]) and (is_copy(sx["c"][1], True) or is_copy(sx["c"][2], True))
        return False
    for r in rets:
        e = strip(r["c"][0])
        if e is None:
            return False
        if is_copy(e):
            continue
        if e["k"] == "DeclRefExpr":
            # variable last assigned from my_strdup
            srcs = [strip(x["c"][1]) for x in g.walk() if x["k"] == "BinaryOperator" and x["op"] == "=" and key(x["c"][0]) == e["n"]]
            srcs += [strip(x["c"][0]) for x in g.walk() if x["k"] == "VarDecl" and x["n"] == e["n"] and x.get("c") and x["c"][0] is not None]
            if srcs and all(is_copy(sx) for sx in srcs) and any(is_copy(sx, True) for sx in srcs):
                continue
        return False
    return True


def engine_var(f):
    """(variable name, creator callee, decl/assign node) for the engine a wrapper creates."""
    for n in f.walk():
        if n["k"] == "VarDecl" and n.get("c"):
            r = strip(n["c"][0])
            if r is not None and r["k"] == "CallExpr" and (r.get("callee") or "").startswith("mmd_engine_create"):
                return n["n"], r.get("callee"), r
        if n["k"] == "BinaryOperator" and n["op"] == "=":
            r = strip(n["c"][1])
            if r is not None and r["k"] == "CallExpr" and (r.get("callee") or "").startswith("mmd_engine_create"):
                return key(n["c"][0]), r.get("callee"), r
    return None, None, None


def families(P):
    """X -> {'string': f, 'd_string': f, 'engine': f} from the public header declarations."""
    fam = {}
    for name in P.api_roots(("libMultiMarkdown.h",)):
        m = re.match(r"mmd_(string|d_string|engine)_(.+)$", name)
        if not m:
            continue
        fam.setdefault(m.group(2), {})[m.group(1)] = P.funcs[name]
    return {x: v for x, v in fam.items() if "engine" in v and len(v) > 1}


PACKAGE_CREATORS = ["epub_create", "textbundle_create", "opendocument_text_create", "opendocument_flat_text_create",
                    "itmz_create"]
FILE_WRITERS = {"fwrite", "fputs"}


def cone_effects(P, f, callee_names):
    """Creators / file writes reachable (call graph) from the given callees of f."""
    creators, writes = set(), False
    edges, ext, _ = P.callgraph()
    roots = []
    for c in callee_names:
        if c in PACKAGE_CREATORS:
            creators.add(c)
        if c in FILE_WRITERS:
            writes = True
        g = P.resolve(f, c)
        if g is not None:
            roots.append(P.fid(g))
    pred = P.reach(roots, stop=("mmd_engine_export_token_tree", "mmd_engine_parse_string"))
    for fid in pred:
        if fid[1] in PACKAGE_CREATORS:
            creators.add(fid[1])
        if fid[0] in ("miniz.c",):
            continue
        if ext.get(fid, set()) & FILE_WRITERS:
            writes = True
    return creators, writes


def r_wrap(P, chk):
    rid = "R-WRAP"
    chk.rule(rid, "W1 every string/DString variant reaches its engine function on all paths; W2 sets the language; "
                  "W3 frees the engine with the right ownership flag; W4 convert_to_data/_to_file agree per format; W5 CLI")
    fam = families(P)
    chk.floor(rid, len(fam), 9, "API families with string/DString/engine variants")
    n_w1 = 0
    for x in sorted(fam):
        eng = fam[x]["engine"]
        for kind in ("string", "d_string"):
            f = fam[x].get(kind)
            if f is None:
                chk.obligation(rid, "W1 family %s has a %s variant" % (x, kind), False)
                chk.violation(rid, "W1:missing:mmd_%s_%s" % (kind, x), eng.where(),
                              "API family `%s` has an engine function but no mmd_%s_%s variant" % (x, kind, x))
                continue
            n_w1 += 1
            calls = [c for c in f.calls(eng.name)]
            ok, reach_ids = reaches_on_all_paths(P, f, eng.name)
            via_helper = [c for c in f.calls() if c["i"] in reach_ids and c.get("callee") != eng.name]
            chk.obligation(rid, "W1 %s reaches %s on every path%s" % (f.name, eng.name, " (through %s)" % via_helper[0]["callee"] if via_helper else ""), ok)
            if not ok:
                chk.violation(rid, "W1:%s" % f.name, f.where(),
                              "%s does not call %s on every path (the variant %s its result)" % (
                                  f.name, eng.name, "never produces" if not (calls or via_helper) else "can skip"))
            if not calls:
                calls = via_helper
            # W3 ownership
            var, creator, cnode = engine_var(f)
            if var is None:
                chk.obligation(rid, "W3 %s creates an engine" % f.name, False)
                chk.violation(rid, "W3:noengine:%s" % f.name, f.where(), "%s does not create an engine" % f.name)
                continue
            want_creator = "mmd_engine_create_with_string" if kind == "string" else "mmd_engine_create_with_dstring"
            okc = creator == want_creator
            chk.obligation(rid, "W3 %s builds its engine with %s" % (f.name, want_creator), okc)
            if not okc:
                chk.violation(rid, "W3:creator:%s" % f.name, f.where(cnode), "%s builds its engine with %s, expected %s" % (
                    f.name, creator, want_creator))
            frees = [c for c in f.calls("mmd_engine_free") if key(c["c"][1]) == var]
            flag_of = {id(c): const_value(c["c"][2]) for c in frees}
            # a helper that takes the engine and frees it on every path (flag: a constant, or one of its parameters)
            for c in f.calls():
                g = P.resolve(f, c.get("callee") or "")
                if g is None or g is f or not P.first_party(g) or c.get("callee") == "mmd_engine_free":
                    continue
                pi = [i for i, a in enumerate(c["c"][1:]) if key(a) == var]
                if not pi or pi[0] >= len(g.params):
                    continue
                gfrees = [y for y in g.calls("mmd_engine_free") if key(y["c"][1]) == g.params[pi[0]][0]]
                if gfrees and passes_through(g, [y["i"] for y in gfrees]):
                    fl = None
                    fk = key(gfrees[0]["c"][2])
                    if const_value(gfrees[0]["c"][2]) is not None:
                        fl = const_value(gfrees[0]["c"][2])
                    else:
                        qi = [i for i, q in enumerate(g.params) if q[0] == fk]
                        if qi and 1 + qi[0] < len(c["c"]):
                            fl = const_value(c["c"][1 + qi[0]])
                    frees.append(c)
                    flag_of[id(c)] = fl
            okf = passes_through(f, [c["i"] for c in frees])
            chk.obligation(rid, "W3 %s releases the engine on every path" % f.name, okf)
            if not okf:
                chk.violation(rid, "W3:leak:%s" % f.name, f.where(), "%s does not call mmd_engine_free(%s, ..) on every path" % (f.name, var))
            for fr in frees:
                flag = flag_of.get(id(fr))
                if kind == "d_string":
                    okfl = flag == 0
                    why = "the caller owns the DString: freeing it is a double free / use after free for the caller"
                else:
                    captured = any(key(n) == var + "->dstr" for n in f.walk() if n["k"] == "MemberExpr"
                                   and f.cfg.dominates(n["i"], fr["i"]))
                    okfl = flag == 1 or (flag == 0 and captured)
                    why = "the engine's private copy of the source leaks"
                chk.obligation(rid, "W3 %s frees with freeDString=%s" % (f.name, flag), okfl)
                if not okfl:
                    chk.violation(rid, "W3:flag:%s" % f.name, f.where(fr),
                                  "%s calls mmd_engine_free(%s, %s): %s" % (f.name, var, "true" if flag else "false", why))
            # engine call happens before the free (no use after free)
            for c in calls:
                for fr in frees:
                    if fr is not c and f.cfg.dominates(fr["i"], c["i"]):
                        chk.violation(rid, "W3:order:%s" % f.name, f.where(c), "%s uses the engine after freeing it" % f.name)
            # W2 language
            if any(p[0] == "language" for p in f.params):
                sl = [c for c in f.calls("mmd_engine_set_language")
                      if key(c["c"][1]) == var and key(c["c"][2]) == "language"]
                ok2 = bool(sl) and all(any(f.cfg.dominates(s["i"], c["i"]) for s in sl) for c in calls)
                if not calls:
                    ok2 = True   # reported by W1 already
                chk.obligation(rid, "W2 %s sets the requested language before converting" % f.name, ok2)
                if not ok2:
                    chk.violation(rid, "W2:%s" % f.name, f.where(),
                                  "%s does not call mmd_engine_set_language(%s, language) before %s" % (f.name, var, eng.name))
            # parameters handed through unchanged
            for c in [c for c in calls if c.get("callee") == eng.name]:
                eargs = [key(a) for a in c["c"][2:]]
                eparams = [p[0] for p in eng.params[1:]]
                okp = eargs == eparams
                chk.obligation(rid, "W1 %s forwards (%s) unchanged" % (f.name, ",".join(eparams)), okp)
                if not okp:
                    chk.violation(rid, "W1:args:%s" % f.name, f.where(c), "%s calls %s(%s) but should forward (%s)" % (
                        f.name, eng.name, ",".join(eargs), ",".join(eparams)))
            # extensions forwarded to the engine constructor
            if any(p[0] == "extensions" for p in f.params) and cnode is not None:
                okx = key(cnode["c"][2]) == "extensions"
                chk.obligation(rid, "W1 %s builds the engine with the caller's extensions" % f.name, okx)
                if not okx:
                    chk.violation(rid, "W1:ext:%s" % f.name, f.where(cnode), "%s ignores its `extensions` parameter" % f.name)
            # metavalue: copy before free
            if x == "metavalue_for_key":
                dup = [c for c in f.calls() if c.get("callee") in ("my_strdup", "strdup")]
                okd = bool(dup) and all(not any(f.cfg.dominates(fr["i"], d["i"]) for fr in frees) for d in dup) and \
                    any(f.cfg.dominates(c["i"], d["i"]) for c in calls for d in dup)
                if not okd:
                    # the copy may live in a helper that wraps the engine call
                    for c in calls:
                        g = P.resolve(f, c.get("callee") or "")
                        if g is not None and g is not eng and returns_copy_of(P, g, eng.name) and \
                                not any(fr is not c and f.cfg.dominates(fr["i"], c["i"]) for fr in frees):
                            okd = True
                chk.obligation(rid, "W3 %s copies the engine-owned value before freeing the engine" % f.name, okd)
                if not okd:
                    chk.violation(rid, "W3:copy:%s" % f.name, f.where(), "%s returns the engine-owned metadata value without "
                                  "copying it before mmd_engine_free" % f.name)
    chk.floor(rid, n_w1, 18, "wrapper functions")
    # W4
    fmts = P.enumerators("output_format")
    to_data = P.func("mmd_engine_convert_to_data", "mmd.c")
    to_file = P.func("mmd_engine_convert_to_file", "mmd.c")
    def effects(f, v, depth=0):
        blocks = edpe_blocks(f, "format", v)
        calls = [n for n in block_nodes(f, blocks) if n["k"] == "CallExpr" and n.get("callee")]
        callees = [n["callee"] for n in calls]
        creators = {c for c in callees if c in PACKAGE_CREATORS}
        direct_write = bool({"fwrite", "fputs"} & set(callees))
        exports = "mmd_engine_export_token_tree" in callees
        for n in calls:
            c = n["callee"]
            g = P.resolve(f, c)
            if g is None or depth > 2:
                continue
            argkeys = [key(a) for a in n["c"][1:]]
            if c == "mmd_engine_convert_to_data" and "format" in argkeys:
                # delegation with the same format
                cr2, wr2, ex2 = effects(g, v, depth + 1)
                creators |= cr2
                exports = exports or ex2
            elif "filepath" in argkeys:
                # file-writing helper (epub_write_wrapper style): creators and writes in its cone
                cr2, wr2 = cone_effects(P, f, [c])
                creators |= cr2
                direct_write = direct_write or wr2
        return creators, direct_write, exports

    for name, v in fmts:
        d = effects(to_data, v)
        fl = effects(to_file, v)
        ok = d[0] == fl[0] and d[2] == fl[2]
        chk.obligation(rid, "W4 %s: to_data builds %s, to_file builds %s" % (name, sorted(d[0]) or "plain text",
                                                                          sorted(fl[0]) or "plain text"), ok)
        if not ok:
            chk.violation(rid, "W4:agree:%s" % name, to_file.where(),
                          "for %s mmd_engine_convert_to_data builds %s (renders: %s) but mmd_engine_convert_to_file builds %s (renders: %s)" % (
                              name, sorted(d[0]) or "no package", d[2], sorted(fl[0]) or "no package", fl[2]))
        okw = fl[1]
        chk.obligation(rid, "W4 %s: convert_to_file reaches a file-writing call" % name, okw)
        if not okw:
            chk.violation(rid, "W4:nowrite:%s" % name, to_file.where(),
                          "mmd_engine_convert_to_file writes nothing for %s" % name)
    # W6: exporting mutates the token tree (types retyped, notes marked used), so every export is preceded by a
    # fresh parse in the same function: otherwise a second conversion on one engine differs from the first
    n_exp = 0
    for g in P.all_funcs:
        if not P.first_party(g) or g.name == "mmd_engine_export_token_tree":
            continue
        for c in g.calls("mmd_engine_export_token_tree"):
            n_exp += 1
            parses = [q for q in g.calls() if q.get("callee") in ("mmd_engine_parse_string", "mmd_engine_parse_substring")
                      and key(q["c"][1]) == key(c["c"][2])]
            ok = any(g.cfg.dominates(q["i"], c["i"]) for q in parses)
            chk.obligation(rid, "W6 %s %s: the export is dominated by an unconditional (re)parse of the same engine" % (g.where(c), g.name), ok)
            if not ok:
                chk.violation(rid, "W6:%s" % g.name, g.where(c), "%s can export an engine's token tree without parsing it again first "
                              "(parse missing or conditional): the tree was mutated by the previous export, so repeated conversions on "
                              "one engine and the other entry points no longer agree" % g.name)
    chk.floor(rid, n_exp, 2, "callers of mmd_engine_export_token_tree")
    # ... and the parse entry points really parse: with a non-NULL engine no path skips the reset, the tokenizer or the
    # block parser (an "already parsed" shortcut re-exports the tree the previous export mutated)
    from .prog import edpe_blocks as _edpe
    must = {"mmd_engine_parse_string": ["mmd_engine_parse_substring"],
            "mmd_engine_parse_substring": ["mmd_engine_reset", "mmd_tokenize_string", "mmd_parse_token_chain"]}
    for fn, callees in must.items():
        g = P.func(fn, "mmd.c")
        if g is None:
            raise AnalysisBroken("%s is gone" % fn)
        ep = g.params[0][0]

        def nonnull(t, ep=ep):
            t = strip(t)
            if t is None:
                return None
            if t["k"] == "DeclRefExpr" and t["n"] == ep:
                return True
            if t["k"] == "UnaryOperator" and t["op"] == "!":
                r = nonnull(t["c"][0])
                return None if r is None else not r
            if t["k"] == "BinaryOperator" and t["op"] in ("==", "!="):
                for p_, q_ in ((t["c"][0], t["c"][1]), (t["c"][1], t["c"][0])):
                    sp = strip(p_)
                    if sp is not None and sp["k"] == "DeclRefExpr" and sp["n"] == ep and const_value(q_) == 0:
                        return t["op"] == "!="
            return None
        pos = g.cfg.positions()
        for cal in callees:
            cs = [c for c in g.calls(cal) if c["i"] in pos]
            blocked = {pos[c["i"]][0] for c in cs}
            reach = _edpe(g, "?none", 0, extra_decide=nonnull, blocked=blocked)
            ok = bool(cs) and g.cfg.exit not in (reach - blocked)
            chk.obligation(rid, "W6 %s: every path with a non-NULL engine passes through %s" % (fn, cal), ok)
            if not ok:
                chk.violation(rid, "W6:skip:%s:%s" % (fn, cal), g.where(), "%s can return without calling %s although the engine is not "
                              "NULL: a conversion may then export a tree that an earlier export already modified" % (fn, cal))
    # W5 CLI
    main = P.func("main", "main.c")
    # POSIX dirname() may truncate its argument in place: the output file name must be derived before it
    for d in main.calls("dirname"):
        k = key(d["c"][1])
        pos = main.cfg.positions()
        if d["i"] not in pos:
            continue
        # forward reachability within the same loop iteration
        loop_heads = set()
        for a in main.ancestors(d):
            if a["k"] in ("ForStmt", "WhileStmt", "DoStmt"):
                cond = a["c"][1] if a["k"] in ("ForStmt", "DoStmt") else a["c"][0]
                if cond is not None and cond.get("i") in pos:
                    loop_heads.add(pos[cond["i"]][0])
                break
        seen = set()
        st = list(main.cfg.blocks[pos[d["i"]][0]].rsucc)
        later = []
        for e in main.cfg.blocks[pos[d["i"]][0]].el[pos[d["i"]][1] + 1:]:
            n = main.nodes.get(e)
            if n is not None and n["k"] == "CallExpr":
                later.append(n)
        while st:
            b = st.pop()
            if b in seen or b in loop_heads:
                continue
            seen.add(b)
            for e in main.cfg.blocks[b].el:
                n = main.nodes.get(e) if e >= 0 else None
                if n is not None and n["k"] == "CallExpr":
                    later.append(n)
            st.extend(main.cfg.blocks[b].rsucc)
        bad = [n for n in later if n.get("callee") in ("filename_with_extension", "scan_file", "realpath", "fopen")
               and any(key(a) == k for a in n["c"][1:])]
        chk.obligation(rid, "W5 %s: dirname(%s) runs after the file name was used to read the input / name the output" % (main.where(d), k), not bad)
        for n in bad:
            chk.violation(rid, "W5:dirname:%s" % n.get("callee"), main.where(n), "main calls %s(%s) after dirname(%s): dirname may "
                          "truncate the path in place, so the batch output file name is derived from the directory" % (n.get("callee"), k, k))
    conv = [c for c in main.calls() if (c.get("callee") or "").startswith("mmd_") and "convert" in c.get("callee")
            and "opml_to_text" not in c.get("callee") and "itmz_to_text" not in c.get("callee")]
    okm = bool(conv) and all(c.get("callee") == "mmd_d_string_convert_to_data" for c in conv)
    chk.obligation(rid, "W5 main converts only through mmd_d_string_convert_to_data (%d sites)" % len(conv), okm)
    if not okm:
        chk.violation(rid, "W5:entry", main.where(), "main converts through %s" % sorted({c.get("callee") for c in conv}))
    for c in conv:
        args = [key(a) for a in c["c"][1:]]
        ok = args[1:4] == ["extensions", "format", "language"]
        chk.obligation(rid, "W5 %s passes (extensions, format, language)" % main.where(c), ok)
        if not ok:
            chk.violation(rid, "W5:args", main.where(c), "main calls mmd_d_string_convert_to_data(%s)" % ",".join(args))
    # -t table: strcmp(a_format->sval[0], "x") == 0  => format = FORMAT_X
    table = {}
    fmt_names = {v: k for k, v in P.enumerators("output_format")}
    for g in main.unit.funcs.values():
        # the chain may live in main or in a helper that receives the name and hands the format back
        for n in g.walk():
            if n["k"] != "IfStmt":
                continue
            cond = strip(n["c"][0])
            if cond is None or cond["k"] != "BinaryOperator" or cond["op"] != "==":
                continue
            call = strip(cond["c"][0])
            if call is None or call["k"] != "CallExpr" or call.get("callee") != "strcmp":
                continue
            if g is main and "a_format" not in resolve_key(main, call["c"][1]):
                continue
            lit = strip(call["c"][2])
            if lit is None or lit["k"] != "StringLiteral":
                continue
            then = n["c"][1]
            vals = [enum_name(a["c"][1]) for a in walk(then) if a["k"] == "BinaryOperator" and a["op"] == "=" and
                    key(a["c"][0]).replace("(", "").replace(")", "") in ("format", "*format")]
            vals += [enum_name(a["c"][0]) for a in walk(then) if a["k"] == "ReturnStmt" and a.get("c") and a["c"][0] is not None
                     and (enum_name(a["c"][0]) or "").startswith("FORMAT_")]
            if g is not main and not any((v or "").startswith("FORMAT_") for v in vals):
                continue
            table[lit["s"]] = vals
    if not table:
        # table-driven form at file scope: { "name", FORMAT_X, ... } rows
        for v in main.unit.vars:
            init = v.get("init")
            if not isinstance(init, list):
                continue
            for row in init:
                if isinstance(row, list) and len(row) >= 2 and isinstance(row[0], str):
                    ints = [c for c in row[1:] if isinstance(c, int)]
                    if ints and ints[0] in fmt_names and "format" in (v.get("type") or "").lower() + (v.get("name") or "").lower():
                        table.setdefault(row[0], []).append(fmt_names[ints[0]])
    if not table:
        # table-driven form: a static array of { "name", FORMAT_X } pairs in main.c
        for g in main.unit.funcs.values():
            for x in g.walk():
                if x["k"] != "VarDecl" or not x.get("c") or x["c"][0] is None or x["c"][0]["k"] != "InitListExpr":
                    continue
                for row in x["c"][0].get("c") or ():
                    if row is None or row["k"] != "InitListExpr" or len(row.get("c") or ()) < 2:
                        continue
                    a, b = strip(row["c"][0]), row["c"][1]
                    if a is not None and a["k"] == "StringLiteral" and (enum_name(b) or "").startswith("FORMAT_"):
                        table.setdefault(a["s"], []).append(enum_name(b))
    chk.floor(rid, len(table), 12, "-t format strings")
    seen = {}
    for s, vals in sorted(table.items()):
        ok = len(vals) == 1 and vals[0] is not None and vals[0] not in seen
        chk.obligation(rid, "W5 -t %s -> %s" % (s, vals), ok)
        if not ok:
            chk.violation(rid, "W5:-t:%s" % s, main.where(), "-t %s maps to %s (%s)" % (
                s, vals, "also selected by -t %s" % seen.get(vals[0]) if vals and vals[0] in seen else "not exactly one format"))
        if vals:
            seen[vals[0]] = s
    expected = {"html": "FORMAT_HTML", "latex": "FORMAT_LATEX", "beamer": "FORMAT_BEAMER", "memoir": "FORMAT_MEMOIR",
                "opml": "FORMAT_OPML", "odt": "FORMAT_ODT", "fodt": "FORMAT_FODT", "epub": "FORMAT_EPUB", "itmz": "FORMAT_ITMZ",
                "mmd": "FORMAT_MMD"}
    for s, e in expected.items():
        if s in table:
            ok = table[s] == [e]
            chk.obligation(rid, "W5 -t %s selects %s" % (s, e), ok)
            if not ok:
                chk.violation(rid, "W5:-t:%s" % s, main.where(), "-t %s selects %s, the format of that name is %s" % (s, table[s], e))
    chk.analysed[rid] = {"families": sorted(fam), "formats": [n for n, _ in fmts], "cli_format_strings": sorted(table)}


BYTE_SINKS = {"fwrite": [0], "fread": [0], "memcpy": [0, 1], "memmove": [0, 1], "memcmp": [0, 1],
              "mz_zip_writer_add_mem": [2], "mz_zip_reader_init_mem": [1], "d_string_append_c_array": [1],
              "d_string_insert_c_array": [2], "write": [1], "mz_zip_writer_add_mem_ex": [2]}


def r_ptrptr(P, chk):
    rid = "R-PTRPTR"
    chk.rule(rid, "no `T **` (address of a pointer) is passed where a byte buffer is expected")
    n = 0
    for f in P.all_funcs:
        if not P.first_party(f):
            continue
        for c in f.calls():
            idxs = BYTE_SINKS.get(c.get("callee"))
            if not idxs:
                continue
            args = c["c"][1:]
            for i in idxs:
                if i >= len(args):
                    continue
                n += 1
                a = strip(args[i])
                t = (a.get("t") or "") if a is not None else ""
                bad = t.replace(" ", "").endswith("**")
                chk.obligation(rid, "%s %s(arg %d: %s)" % (f.where(c), c.get("callee"), i, t), not bad, sample=False)
                if bad:
                    chk.violation(rid, "%s:%s:%s(%s)" % (f.base, f.name, c.get("callee"), key(a)), f.where(c),
                                  "%s passes `%s` of type `%s` as the byte buffer of %s(): the bytes of the pointer "
                                  "variable (and what follows it) are used, not the data it points to" % (
                                      f.name, f.src(a), t, c.get("callee")))
    chk.floor(rid, n, 25, "byte-buffer arguments")
    chk.analysed[rid] = {"byte_buffer_arguments": n}


def r_dirname_once(P, chk):
    """POSIX dirname() may cut its argument in place ("dir/file.md" becomes "dir"), so a second dirname() of the same
    string yields the parent of the directory.  In main, no dirname(x) may be followed, in the same pass, by another
    dirname of the same x - decided on the CFG with tests of the variable that received the first result decided
    non-null (`if (folder == NULL) folder = dirname(..)` is fine)."""
    from .prog import edpe_blocks, single_assignment_locals
    rid = "R-DIRNAME"
    chk.rule(rid, "main never applies dirname() a second time to a string it has already applied it to (the first call may have "
                  "truncated it in place; the asset folder handed to the library would be the parent directory)")
    unit = P.units["main.c"]

    def events(g, depth=0):
        """(call node in g, key of the string dirname is applied to): direct calls, and calls of a same-unit helper that applies
        dirname to the parameter the string is bound to"""
        out = []
        for c in g.calls():
            if c.get("callee") == "dirname":
                out.append((c, key(c["c"][1])))
            elif depth < 2:
                h = unit.funcs.get(c.get("callee") or "")
                if h is not None and h is not g:
                    names = {q[0]: i for i, q in enumerate(h.params)}
                    for _, hk in events(h, depth + 1):
                        root = re.match(r"[\(\*&]*([A-Za-z_]\w*)", hk)
                        if root and root.group(1) in names and 1 + names[root.group(1)] < len(c["c"]):
                            out.append((c, hk.replace(root.group(1), key(c["c"][1 + names[root.group(1)]]), 1)))
        return out
    total = sum(1 for g in unit.funcs.values() for c in g.calls("dirname"))
    chk.floor(rid, total, 2, "dirname calls in main.c")
    for main in unit.funcs.values():
      pos = main.cfg.positions()
      evs = [(c, k_) for c, k_ in events(main) if c.get("i") in pos]
      calls = [c for c, _ in evs]
      kof = {id(c): k_ for c, k_ in evs}
      for d in calls:
        k = kof[id(d)]
        # the variable that receives the result
        recv = None
        p = main.parent(d)
        while p is not None and p["k"] in ("ImplicitCastExpr", "CStyleCastExpr", "ParenExpr"):
            p = main.parent(p)
        if p is not None and p["k"] == "BinaryOperator" and p["op"] == "=":
            recv = key(p["c"][0])
        elif p is not None and p["k"] == "VarDecl":
            recv = p.get("n")

        def decide(t_, recv=recv):
            t2 = strip(t_)
            if t2 is None or recv is None:
                return None
            if t2["k"] == "DeclRefExpr" and t2["n"] == recv:
                return True
            if t2["k"] == "BinaryOperator" and t2["op"] in ("==", "!=") and key(t2["c"][0]) == recv and const_value(t2["c"][1]) == 0:
                return t2["op"] == "!="
            return None
        # stay inside the current pass of an enclosing loop
        loop_heads = set()
        for a in main.ancestors(d):
            if a["k"] in ("ForStmt", "WhileStmt", "DoStmt"):
                cond = a["c"][1] if a["k"] in ("ForStmt", "DoStmt") else a["c"][0]
                if cond is not None and cond.get("i") in pos:
                    loop_heads.add(pos[cond["i"]][0])
                break
        b0, i0 = pos[d["i"]]
        reach = set()
        for s_ in main.cfg.blocks[b0].rsucc:
            reach |= edpe_blocks(main, "?none", 0, extra_decide=decide, start=s_, blocked=loop_heads)
        bad = [c for c in calls if c is not d and kof[id(c)] == k and
               ((pos[c["i"]][0] in reach and pos[c["i"]][0] not in loop_heads) or (pos[c["i"]][0] == b0 and pos[c["i"]][1] > i0))]
        chk.obligation(rid, "%s: dirname(%s) is not followed by another dirname of the same string" % (main.where(d), k), not bad)
        for c in bad[:1]:
            chk.violation(rid, "dirname:twice:%s" % k, main.where(c), "main calls dirname(%s) at line %d although line %d already did: on "
                          "glibc the first call truncated the string, so this one returns the parent of the input's directory and "
                          "assets next to the input file are not found" % (k, c["l"], d["l"]))


def r_optorder(P, chk):
    """main builds the extensions word from the options: a default, then `extensions |= BIT` per option.  A plain assignment
    (`extensions = EXT_COMPATIBILITY | ..` for -c) throws away whatever was or-ed in before, so no `|=` / `&=` update may be
    able to run before a plain assignment on any path."""
    from .rules_mem import _reaches
    rid = "R-OPTORDER"
    chk.rule(rid, "in main, no plain assignment to the extensions word can run after an `|=` / `&=` update of it (the assignment "
                  "would discard the option that update recorded)")
    n = 0
    for main in P.units["main.c"].funcs.values():
      pos = main.cfg.positions()
      # the option word: whatever variable of this function receives `|= EXT_...` updates
      vars_ = sorted({key(x["c"][0]) for x in main.walk() if x["k"] == "CompoundAssignOperator" and x["op"] == "|=" and
                      any(y["k"] == "DeclRefExpr" and y.get("dk") == "Enum" and y["n"].startswith("EXT_") for y in walk(x["c"][1]))})
      for var in vars_:
        plain = [x for x in main.walk() if x["k"] == "BinaryOperator" and x["op"] == "=" and key(x["c"][0]) == var and x.get("i") in pos]
        upd = [x for x in main.walk() if x["k"] == "CompoundAssignOperator" and key(x["c"][0]) == var and x.get("i") in pos]
        n += len(plain)
        for a in plain:
            # an assignment that itself reads the old value (`extensions = extensions | X`) keeps it
            if any(y["k"] == "DeclRefExpr" and y["n"] == var for y in walk(a["c"][1])):
                continue
            bad = [u for u in upd if _reaches(main, pos, u, a, [])]
            chk.obligation(rid, "%s: `%s = ..` is not preceded by an update of %s on any path" % (main.where(a), var, var), not bad)
            if bad:
                chk.violation(rid, "optorder:%s:%d" % (var, a["l"]), main.where(a),
                              "main assigns `%s` at line %d after line %d has already recorded an option in it with `%s`: that "
                              "option (e.g. -a / -r before -c) is silently dropped" % (var, a["l"], bad[0]["l"], main.src(bad[0])[:50]))
    chk.floor(rid, n, 1, "plain assignments to the extensions word in main")
