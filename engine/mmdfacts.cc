// mmdfacts: clang-14 frontend plugin that dumps, for one translation unit, a
// compact type-resolved AST and clang's CFG for every first-party function,
// plus enums, records, globals (with constant initialisers) and function
// declarations.  One JSON object per line.  All rules live in Python
// (engine/*.py); this file only exposes the resolved program.
//
//   clang -fsyntax-only -fplugin=mmdfacts.so -Xclang -plugin -Xclang mmdfacts \
//         -Xclang -plugin-arg-mmdfacts -Xclang out=<file> \
//         [-Xclang -plugin-arg-mmdfacts -Xclang light] unit.c
//
// "light" skips function bodies' CFG and emits only calls/returns/stores of
// constants (used for the 67k-line re2c scanners).

#include "clang/AST/ASTConsumer.h"
#include "clang/AST/ASTContext.h"
#include "clang/AST/RecursiveASTVisitor.h"
#include "clang/AST/ParentMapContext.h"
#include "clang/Analysis/CFG.h"
#include "clang/Frontend/CompilerInstance.h"
#include "clang/Frontend/FrontendPluginRegistry.h"
#include "clang/Lex/Lexer.h"
#include "llvm/Support/raw_ostream.h"
#include <map>
#include <string>
#include <vector>
#include <memory>

using namespace clang;

namespace {

static std::string jesc(llvm::StringRef s) {
	std::string o;
	o.reserve(s.size() + 2);
	o.push_back('"');
	for (unsigned char c : s) {
		switch (c) {
			case '"': o += "\\\""; break;
			case '\\': o += "\\\\"; break;
			case '\n': o += "\\n"; break;
			case '\r': o += "\\r"; break;
			case '\t': o += "\\t"; break;
			default:
				if (c < 0x20 || c >= 0x7f) {
					char buf[8];
					snprintf(buf, sizeof buf, "\\u%04x", c);
					o += buf;
				} else {
					o.push_back((char)c);
				}
		}
	}
	o.push_back('"');
	return o;
}

struct Dumper {
	ASTContext &Ctx;
	SourceManager &SM;
	llvm::raw_ostream &OS;
	bool Light;
	std::map<const Stmt *, int> Ids;
	std::map<const Decl *, int> DeclIds;
	int NextId = 0;
	int NextDecl = 0;

	Dumper(ASTContext &C, llvm::raw_ostream &O, bool L)
		: Ctx(C), SM(C.getSourceManager()), OS(O), Light(L) {}

	bool firstParty(SourceLocation L) {
		if (L.isInvalid()) return false;
		SourceLocation E = SM.getExpansionLoc(L);
		if (SM.isInSystemHeader(E)) return false;
		return SM.getFileEntryForID(SM.getFileID(E)) != nullptr;
	}

	std::string fileOf(SourceLocation L) {
		SourceLocation E = SM.getExpansionLoc(L);
		auto *FE = SM.getFileEntryForID(SM.getFileID(E));
		if (!FE) return "";
		return FE->getName().str();
	}
	unsigned lineOf(SourceLocation L) {
		return SM.getExpansionLineNumber(L);
	}
	int declId(const Decl *D) {
		D = D->getCanonicalDecl();
		auto it = DeclIds.find(D);
		if (it != DeclIds.end()) return it->second;
		int id = NextDecl++;
		DeclIds[D] = id;
		return id;
	}
	std::string typeStr(QualType T) {
		return T.getAsString(Ctx.getPrintingPolicy());
	}

	void emitCommonExpr(const Expr *E) {
		OS << ",\"t\":" << jesc(typeStr(E->getType()));
		if (!E->isValueDependent() && E->getType()->isIntegralOrEnumerationType() && !isa<IntegerLiteral>(E)
				&& !isa<CharacterLiteral>(E)) {
			Expr::EvalResult R;
			if (E->EvaluateAsInt(R, Ctx, Expr::SE_NoSideEffects)) {
				OS << ",\"cv\":" << R.Val.getInt().getExtValue();
			}
		}
		if (auto *CAT = Ctx.getAsConstantArrayType(E->getType())) {
			OS << ",\"asz\":" << CAT->getSize().getZExtValue();
			if (!E->getType()->isIncompleteType())
				OS << ",\"asb\":" << Ctx.getTypeSizeInChars(E->getType()).getQuantity();
		}
		else if (Ctx.getAsVariableArrayType(E->getType())) OS << ",\"vla\":1";
		SourceLocation B = E->getBeginLoc();
		if (B.isMacroID()) {
			llvm::StringRef M = Lexer::getImmediateMacroName(B, SM, Ctx.getLangOpts());
			if (!M.empty()) OS << ",\"m\":" << jesc(M);
		}
	}

	void emitRange(const Stmt *S) {
		SourceLocation B = SM.getExpansionLoc(S->getBeginLoc());
		SourceLocation E = SM.getExpansionRange(S->getEndLoc()).getEnd();
		if (B.isValid() && E.isValid()) {
			E = Lexer::getLocForEndOfToken(E, 0, SM, Ctx.getLangOpts());
			if (E.isValid() && SM.getFileID(B) == SM.getFileID(E)) {
				OS << ",\"b\":" << SM.getFileOffset(B) << ",\"e\":" << SM.getFileOffset(E);
			}
		}
	}

	void emitVarDecl(const VarDecl *V) {
		OS << "{\"k\":\"VarDecl\",\"l\":" << lineOf(V->getLocation())
		   << ",\"n\":" << jesc(V->getName()) << ",\"did\":" << declId(V)
		   << ",\"t\":" << jesc(typeStr(V->getType()));
		if (V->isStaticLocal()) OS << ",\"static\":1";
		if (auto *CAT = Ctx.getAsConstantArrayType(V->getType()))
			OS << ",\"asz\":" << CAT->getSize().getZExtValue();
		if (Ctx.getAsVariableArrayType(V->getType())) OS << ",\"vla\":1";
		OS << ",\"c\":[";
		if (V->hasInit()) emitStmt(V->getInit());
		OS << "]}";
	}

	void emitChildren(std::vector<const Stmt *> Ch) {
		OS << ",\"c\":[";
		bool first = true;
		for (auto *C : Ch) {
			if (!first) OS << ",";
			first = false;
			if (C) emitStmt(C);
			else OS << "null";
		}
		OS << "]";
	}

	void emitStmt(const Stmt *S) {
		int id = NextId++;
		Ids[S] = id;
		OS << "{\"k\":" << jesc(S->getStmtClassName()) << ",\"i\":" << id
		   << ",\"l\":" << lineOf(S->getBeginLoc());
		emitRange(S);

		if (auto *E = dyn_cast<Expr>(S)) emitCommonExpr(E);

		if (auto *DS = dyn_cast<DeclStmt>(S)) {
			OS << ",\"c\":[";
			bool first = true;
			for (auto *D : DS->decls()) {
				if (auto *V = dyn_cast<VarDecl>(D)) {
					if (!first) OS << ",";
					first = false;
					emitVarDecl(V);
				}
			}
			OS << "]}";
			return;
		}
		if (auto *I = dyn_cast<IfStmt>(S)) {
			emitChildren({I->getCond(), I->getThen(), I->getElse()});
			OS << "}";
			return;
		}
		if (auto *W = dyn_cast<WhileStmt>(S)) {
			emitChildren({W->getCond(), W->getBody()});
			OS << "}";
			return;
		}
		if (auto *D = dyn_cast<DoStmt>(S)) {
			emitChildren({D->getBody(), D->getCond()});
			OS << "}";
			return;
		}
		if (auto *F = dyn_cast<ForStmt>(S)) {
			emitChildren({F->getInit(), F->getCond(), F->getInc(), F->getBody()});
			OS << "}";
			return;
		}
		if (auto *SW = dyn_cast<SwitchStmt>(S)) {
			emitChildren({SW->getCond(), SW->getBody()});
			OS << "}";
			return;
		}
		if (auto *C = dyn_cast<CaseStmt>(S)) {
			const Expr *L = C->getLHS();
			Expr::EvalResult R;
			if (L && L->EvaluateAsInt(R, Ctx)) OS << ",\"v\":" << R.Val.getInt().getExtValue();
			if (L) {
				const Expr *LL = L->IgnoreParenCasts();
				if (auto *CE = dyn_cast<ConstantExpr>(LL)) LL = CE->getSubExpr()->IgnoreParenCasts();
				if (auto *DR = dyn_cast<DeclRefExpr>(LL))
					if (auto *EC = dyn_cast<EnumConstantDecl>(DR->getDecl()))
						OS << ",\"en\":" << jesc(EC->getName());
			}
			if (C->getRHS()) OS << ",\"range\":1";
			emitChildren({C->getSubStmt()});
			OS << "}";
			return;
		}
		if (auto *D = dyn_cast<DefaultStmt>(S)) {
			emitChildren({D->getSubStmt()});
			OS << "}";
			return;
		}
		if (auto *R = dyn_cast<ReturnStmt>(S)) {
			emitChildren({R->getRetValue()});
			OS << "}";
			return;
		}
		if (auto *L = dyn_cast<LabelStmt>(S)) {
			OS << ",\"n\":" << jesc(L->getName());
			emitChildren({L->getSubStmt()});
			OS << "}";
			return;
		}
		if (auto *G = dyn_cast<GotoStmt>(S)) {
			OS << ",\"n\":" << jesc(G->getLabel()->getName()) << ",\"c\":[]}";
			return;
		}

		if (auto *DR = dyn_cast<DeclRefExpr>(S)) {
			const ValueDecl *D = DR->getDecl();
			OS << ",\"n\":" << jesc(D->getName()) << ",\"did\":" << declId(D);
			if (auto *V = dyn_cast<VarDecl>(D)) {
				OS << ",\"dk\":" << (isa<ParmVarDecl>(V) ? "\"Parm\"" : "\"Var\"");
				if (V->hasGlobalStorage()) OS << ",\"g\":1";
			} else if (isa<FunctionDecl>(D)) {
				OS << ",\"dk\":\"Func\"";
			} else if (auto *EC = dyn_cast<EnumConstantDecl>(D)) {
				OS << ",\"dk\":\"Enum\",\"ev\":" << EC->getInitVal().getExtValue();
			} else {
				OS << ",\"dk\":\"Other\"";
			}
		} else if (auto *ME = dyn_cast<MemberExpr>(S)) {
			OS << ",\"n\":" << jesc(ME->getMemberDecl()->getName());
			if (auto *FD = dyn_cast<FieldDecl>(ME->getMemberDecl())) {
				const RecordDecl *RD = FD->getParent();
				std::string rn = RD->getName().str();
				if (rn.empty())
					if (auto *TD = RD->getTypedefNameForAnonDecl()) rn = TD->getName().str();
				OS << ",\"rec\":" << jesc(rn);
			}
			if (ME->isArrow()) OS << ",\"arrow\":1";
		} else if (auto *BO = dyn_cast<BinaryOperator>(S)) {
			OS << ",\"op\":" << jesc(BO->getOpcodeStr());
		} else if (auto *UO = dyn_cast<UnaryOperator>(S)) {
			std::string op = UnaryOperator::getOpcodeStr(UO->getOpcode()).str();
			if (UO->isPostfix()) op = "post" + op;
			else if (UO->isIncrementDecrementOp()) op = "pre" + op;
			OS << ",\"op\":" << jesc(op);
		} else if (auto *IL = dyn_cast<IntegerLiteral>(S)) {
			OS << ",\"v\":" << IL->getValue().getLimitedValue();
		} else if (auto *CL = dyn_cast<CharacterLiteral>(S)) {
			OS << ",\"v\":" << CL->getValue();
		} else if (auto *SL = dyn_cast<StringLiteral>(S)) {
			if (SL->getCharByteWidth() == 1) OS << ",\"s\":" << jesc(SL->getBytes());
		} else if (auto *CE = dyn_cast<CallExpr>(S)) {
			if (const FunctionDecl *FD = CE->getDirectCallee()) {
				OS << ",\"callee\":" << jesc(FD->getName());
			}
		} else if (auto *CA = dyn_cast<CastExpr>(S)) {
			OS << ",\"ck\":" << jesc(CA->getCastKindName());
		} else if (auto *UE = dyn_cast<UnaryExprOrTypeTraitExpr>(S)) {
			OS << ",\"op\":" << jesc(getTraitSpelling(UE->getKind()));
			if (UE->isArgumentType()) OS << ",\"argt\":" << jesc(typeStr(UE->getArgumentType()));
		}

		OS << ",\"c\":[";
		bool first = true;
		for (const Stmt *C : S->children()) {
			if (!first) OS << ",";
			first = false;
			if (C) emitStmt(C);
			else OS << "null";
		}
		OS << "]}";
	}

	int idOf(const Stmt *S, CFG *G) {
		auto it = Ids.find(S);
		if (it != Ids.end()) return it->second;
		if (auto *DS = dyn_cast<DeclStmt>(S)) {
			for (auto I = G->synthetic_stmt_begin(); I != G->synthetic_stmt_end(); ++I) {
				if (I->first == DS) {
					auto it2 = Ids.find(I->second);
					if (it2 != Ids.end()) return it2->second;
				}
			}
		}
		return -1;
	}

	void emitCFG(const FunctionDecl *FD) {
		CFG::BuildOptions BO;
		BO.setAllAlwaysAdd();
		BO.PruneTriviallyFalseEdges = true;
		BO.AddEHEdges = false;
		BO.AddInitializers = false;
		BO.AddImplicitDtors = false;
		std::unique_ptr<CFG> G = CFG::buildCFG(FD, FD->getBody(), &Ctx, BO);
		if (!G) {
			OS << ",\"cfg\":null";
			return;
		}
		OS << ",\"cfg\":{\"entry\":" << G->getEntry().getBlockID() << ",\"exit\":" << G->getExit().getBlockID()
		   << ",\"blocks\":[";
		bool firstB = true;
		for (const CFGBlock *B : *G) {
			if (!firstB) OS << ",";
			firstB = false;
			OS << "{\"id\":" << B->getBlockID() << ",\"el\":[";
			bool first = true;
			for (const CFGElement &E : *B) {
				if (auto CS = E.getAs<CFGStmt>()) {
					int id = idOf(CS->getStmt(), G.get());
					if (!first) OS << ",";
					first = false;
					OS << id;
					// synthetic single-decl DeclStmts: also say which VarDecl
				}
			}
			OS << "],\"succ\":[";
			first = true;
			for (auto I = B->succ_begin(); I != B->succ_end(); ++I) {
				if (!first) OS << ",";
				first = false;
				const CFGBlock *R = I->getReachableBlock();
				const CFGBlock *P = I->getPossiblyUnreachableBlock();
				if (R) OS << "[" << R->getBlockID() << ",1]";
				else if (P) OS << "[" << P->getBlockID() << ",0]";
				else OS << "null";
			}
			OS << "]";
			if (const Stmt *T = B->getTerminatorStmt()) {
				OS << ",\"term\":" << idOf(T, G.get()) << ",\"tk\":" << jesc(T->getStmtClassName());
			}
			if (const Stmt *L = B->getLabel()) {
				OS << ",\"label\":" << idOf(L, G.get());
			}
			if (B->hasNoReturnElement()) OS << ",\"noret\":1";
			OS << "}";
		}
		OS << "]}";
	}

	void emitFunction(const FunctionDecl *FD) {
		Ids.clear();
		NextId = 0;
		OS << "{\"T\":\"func\",\"name\":" << jesc(FD->getName()) << ",\"file\":" << jesc(fileOf(FD->getLocation()))
		   << ",\"line\":" << lineOf(FD->getBeginLoc()) << ",\"endline\":" << lineOf(FD->getEndLoc())
		   << ",\"static\":" << (FD->getStorageClass() == SC_Static ? 1 : 0)
		   << ",\"inline\":" << (FD->isInlineSpecified() ? 1 : 0)
		   << ",\"ret\":" << jesc(typeStr(FD->getReturnType())) << ",\"params\":[";
		bool first = true;
		for (auto *P : FD->parameters()) {
			if (!first) OS << ",";
			first = false;
			OS << "[" << jesc(P->getName()) << "," << jesc(typeStr(P->getType())) << "," << declId(P) << "]";
		}
		OS << "]";
		if (Light) OS << ",\"light\":1";
		OS << ",\"body\":";
		emitStmt(FD->getBody());
		if (!Light) emitCFG(FD);
		OS << "}\n";
	}

	// constant initialiser: flat list of integers / strings where possible
	void emitInit(const Expr *I) {
		if (!I) {
			OS << "null";
			return;
		}
		if (I->getType()->isPointerType() && !I->isValueDependent() &&
		    I->isNullPointerConstant(Ctx, Expr::NPC_ValueDependentIsNotNull) != Expr::NPCK_NotNull) {
			OS << "{\"null\":1}";
			return;
		}
		I = I->IgnoreParenImpCasts();
		if (auto *IL = dyn_cast<InitListExpr>(I)) {
			OS << "[";
			bool first = true;
			for (unsigned k = 0; k < IL->getNumInits(); ++k) {
				if (!first) OS << ",";
				first = false;
				emitInit(IL->getInit(k));
			}
			if (IL->hasArrayFiller()) {
				// remaining elements are zero/filler; record how many in total via type
			}
			OS << "]";
			return;
		}
		if (auto *SL = dyn_cast<StringLiteral>(I)) {
			if (SL->getCharByteWidth() == 1) {
				OS << jesc(SL->getBytes());
				return;
			}
		}
		if (isa<ImplicitValueInitExpr>(I)) {
			OS << "0";
			return;
		}
		Expr::EvalResult R;
		if (!I->isValueDependent() && I->getType()->isIntegralOrEnumerationType() && I->EvaluateAsInt(R, Ctx)) {
			OS << R.Val.getInt().getExtValue();
			return;
		}
		if (auto *DR = dyn_cast<DeclRefExpr>(I)) {
			OS << "{\"ref\":" << jesc(DR->getDecl()->getName()) << "}";
			return;
		}
		if (auto *UO = dyn_cast<UnaryOperator>(I)) {
			if (UO->getOpcode() == UO_AddrOf) {
				if (auto *DR = dyn_cast<DeclRefExpr>(UO->getSubExpr()->IgnoreParenImpCasts())) {
					OS << "{\"ref\":" << jesc(DR->getDecl()->getName()) << "}";
					return;
				}
			}
		}
		OS << "{\"expr\":1}";
	}

	void emitGlobalVar(const VarDecl *V, const FunctionDecl *InFn) {
		OS << "{\"T\":\"var\",\"name\":" << jesc(V->getName()) << ",\"did\":" << declId(V)
		   << ",\"file\":" << jesc(fileOf(V->getLocation())) << ",\"line\":" << lineOf(V->getLocation())
		   << ",\"type\":" << jesc(typeStr(V->getType()));
		QualType T = V->getType();
		bool isConst = T.isConstQualified();
		if (auto *AT = Ctx.getAsArrayType(T)) {
			QualType ET = Ctx.getBaseElementType(AT);
			isConst = ET.isConstQualified();
		}
		OS << ",\"const\":" << (isConst ? 1 : 0);
		const char *sc = "none";
		if (V->getStorageClass() == SC_Static) sc = "static";
		else if (V->getStorageClass() == SC_Extern) sc = "extern";
		OS << ",\"storage\":\"" << sc << "\"";
		OS << ",\"def\":" << (V->isThisDeclarationADefinition() != VarDecl::DeclarationOnly ? 1 : 0);
		if (InFn) OS << ",\"fn\":" << jesc(InFn->getName());
		if (auto *CAT = Ctx.getAsConstantArrayType(T)) OS << ",\"asz\":" << CAT->getSize().getZExtValue();
		OS << ",\"init\":";
		if (V->hasInit()) emitInit(V->getInit());
		else OS << "null";
		OS << "}\n";
	}

	void emitEnum(const EnumDecl *E) {
		std::string n = E->getName().str();
		if (n.empty())
			if (auto *TD = E->getTypedefNameForAnonDecl()) n = TD->getName().str();
		OS << "{\"T\":\"enum\",\"name\":" << jesc(n) << ",\"file\":" << jesc(fileOf(E->getLocation()))
		   << ",\"line\":" << lineOf(E->getLocation()) << ",\"consts\":[";
		bool first = true;
		for (auto *C : E->enumerators()) {
			if (!first) OS << ",";
			first = false;
			OS << "[" << jesc(C->getName()) << "," << C->getInitVal().getExtValue() << "," << lineOf(C->getLocation())
			   << "]";
		}
		OS << "]}\n";
	}

	void emitRecord(const RecordDecl *R) {
		std::string n = R->getName().str();
		if (n.empty())
			if (auto *TD = R->getTypedefNameForAnonDecl()) n = TD->getName().str();
		OS << "{\"T\":\"record\",\"name\":" << jesc(n) << ",\"file\":" << jesc(fileOf(R->getLocation()))
		   << ",\"line\":" << lineOf(R->getLocation());
		if (R->isCompleteDefinition() && !R->isInvalidDecl() && !R->isDependentType()) {
			OS << ",\"size\":" << Ctx.getTypeSizeInChars(Ctx.getRecordType(R)).getQuantity();
		}
		OS << ",\"fields\":[";
		bool first = true;
		for (auto *F : R->fields()) {
			if (!first) OS << ",";
			first = false;
			OS << "[" << jesc(F->getName()) << "," << jesc(typeStr(F->getType())) << ",";
			if (auto *CAT = Ctx.getAsConstantArrayType(F->getType())) OS << CAT->getSize().getZExtValue();
			else OS << "null";
			OS << "]";
		}
		OS << "]}\n";
	}

	void emitFDecl(const FunctionDecl *FD) {
		OS << "{\"T\":\"fdecl\",\"name\":" << jesc(FD->getName()) << ",\"file\":" << jesc(fileOf(FD->getLocation()))
		   << ",\"line\":" << lineOf(FD->getLocation()) << ",\"def\":" << (FD->doesThisDeclarationHaveABody() ? 1 : 0)
		   << ",\"static\":" << (FD->getStorageClass() == SC_Static ? 1 : 0) << ",\"ret\":"
		   << jesc(typeStr(FD->getReturnType())) << ",\"params\":[";
		bool first = true;
		for (auto *P : FD->parameters()) {
			if (!first) OS << ",";
			first = false;
			OS << "[" << jesc(P->getName()) << "," << jesc(typeStr(P->getType())) << "]";
		}
		OS << "]}\n";
	}
};

class StaticLocalFinder : public RecursiveASTVisitor<StaticLocalFinder> {
public:
	std::vector<const VarDecl *> Found;
	bool VisitVarDecl(VarDecl *V) {
		if (V->isStaticLocal()) Found.push_back(V);
		return true;
	}
};

class Consumer : public ASTConsumer {
	std::string Out;
	bool Light;
public:
	Consumer(std::string O, bool L) : Out(O), Light(L) {}

	void HandleTranslationUnit(ASTContext &Ctx) override {
		std::error_code EC;
		llvm::raw_fd_ostream OS(Out, EC);
		if (EC) {
			llvm::errs() << "mmdfacts: cannot open " << Out << "\n";
			return;
		}
		if (Ctx.getDiagnostics().hasErrorOccurred()) {
			OS << "{\"T\":\"error\",\"msg\":\"compile errors\"}\n";
			return;
		}
		Dumper D(Ctx, OS, Light);
		SourceManager &SM = Ctx.getSourceManager();
		auto *MainFE = SM.getFileEntryForID(SM.getMainFileID());
		OS << "{\"T\":\"unit\",\"file\":" << jesc(MainFE ? MainFE->getName() : "") << ",\"light\":" << (Light ? 1 : 0)
		   << "}\n";
		for (Decl *De : Ctx.getTranslationUnitDecl()->decls()) {
			if (!D.firstParty(De->getLocation())) continue;
			if (auto *FD = dyn_cast<FunctionDecl>(De)) {
				D.emitFDecl(FD);
				if (FD->doesThisDeclarationHaveABody()) {
					D.emitFunction(FD);
					StaticLocalFinder F;
					F.TraverseStmt(FD->getBody());
					for (auto *V : F.Found) D.emitGlobalVar(V, FD);
				}
			} else if (auto *V = dyn_cast<VarDecl>(De)) {
				D.emitGlobalVar(V, nullptr);
			} else if (auto *E = dyn_cast<EnumDecl>(De)) {
				if (E->isCompleteDefinition()) D.emitEnum(E);
			} else if (auto *R = dyn_cast<RecordDecl>(De)) {
				if (R->isCompleteDefinition()) D.emitRecord(R);
			} else if (auto *TD = dyn_cast<TypedefDecl>(De)) {
				(void)TD;
			}
		}
		OS << "{\"T\":\"end\"}\n";
	}
};

class Action : public PluginASTAction {
	std::string Out = "facts.jsonl";
	bool Light = false;
protected:
	std::unique_ptr<ASTConsumer> CreateASTConsumer(CompilerInstance &, llvm::StringRef) override {
		return std::make_unique<Consumer>(Out, Light);
	}
	bool ParseArgs(const CompilerInstance &, const std::vector<std::string> &args) override {
		for (auto &a : args) {
			if (a.rfind("out=", 0) == 0) Out = a.substr(4);
			else if (a == "light") Light = true;
		}
		return true;
	}
	PluginASTAction::ActionType getActionType() override {
		return ReplaceAction;
	}
};

} // namespace

static FrontendPluginRegistry::Add<Action> X("mmdfacts", "dump resolved AST + CFG facts as JSON lines");
