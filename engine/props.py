"""Property -> rules."""
from .prog import Program
from . import rules_cg, lalr

_progs = {}


def P(config="default"):
    if config not in _progs:
        _progs[config] = Program(config)
    return _progs[config]


def c02(chk, tier):
    chk.explanation = ("Static: (1) R-NOEXIT call-graph reachability of process terminators from the public API.")
    rules_cg.r_noexit(P(), chk)
    lalr.r_lalr(P(), chk)


def c05(chk, tier):
    chk.explanation = "Static: R-GLOBAL inventory of process-global mutable state and stateful libc calls in the conversion cone."
    rules_cg.r_global(P(), chk, "C05")


def c17(chk, tier):
    chk.explanation = "Static: R-GLOBAL on the -DDISABLE_OBJECT_POOL configuration with an empty allow list."
    rules_cg.r_global(P("nopool"), chk, "C17")


PROPS = {
    "C02": ("other", c02),
    "C05": ("other", c05),
    "C17": ("other", c17),
}
