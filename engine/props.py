"""Property -> rules."""
from .prog import Program
from . import rules_cg, lalr, rules_dispatch, rules_wrap, rules_mem, rules_state, rules_dstr, rules_recurse, rules_misc, rules_critic, rules_esc, rules_wrapper, rules_anchor, rules_sink, rules_zip, rules_format, rules_level, rules_balance, rules_kind

_progs = {}


def P(config="default"):
    if config not in _progs:
        _progs[config] = Program(config)
    return _progs[config]


def c02(chk, tier):
    chk.explanation = ("Static: (1) R-NOEXIT call-graph reachability of process terminators from the public API.")
    rules_cg.r_noexit(P(), chk)
    lalr.r_lalr(P(), chk)
    lalr.r_reduce(P(), chk)
    rules_dispatch.r_dispatch(P(), chk, "C02")
    rules_dispatch.r_linestrip(P(), chk)
    rules_wrapper.r_metawindow(P(), chk)      # a body paragraph must not be swallowed as metadata after a blank line
    rules_dispatch.r_sibling_outline(P(), chk)
    rules_state.r_incdec(P(), chk)            # a leaked depth counter ends with the parser refusing to descend: text reaches the writers unparsed
    rules_mem.r_array(P(), chk)               # "never takes the host process down": no write past a fixed-size buffer


def c05(chk, tier):
    chk.explanation = "Static: R-GLOBAL inventory of process-global mutable state and stateful libc calls in the conversion cone."
    rules_cg.r_global(P(), chk, "C05")
    rules_state.r_reset(P(), chk)
    rules_state.r_engconf(P(), chk)
    rules_mem.r_init(P(), chk)
    rules_mem.r_memsize(P(), chk)             # a clear that covers a fraction of the objects leaves allocator history in the rest
    rules_state.r_srcconst(P(), chk)
    rules_state.r_incdec(P(), chk)


def c17(chk, tier):
    chk.explanation = "Static: R-GLOBAL on the -DDISABLE_OBJECT_POOL configuration with an empty allow list."
    rules_cg.r_global(P("nopool"), chk, "C17")


def c04(chk, tier):
    chk.explanation = "Static: R-DISPATCH/text sibling agreement of the writers' per-type branches (EDPE)."
    disp = rules_dispatch.r_dispatch(P(), chk, "C04")
    rules_dispatch.r_dispatch_text(P(), chk, disp)
    rules_sink.r_sink(P(), chk, prop="C04")
    rules_sink.r_sink_provenance(P(), chk)
    rules_sink.r_rawtoken(P(), chk)
    rules_esc.r_escaper_complete(P(), chk, formats=("html", "odf", "latex"))
    rules_level.r_level(P(), chk)
    rules_level.r_baselevel(P(), chk)
    rules_sink.r_sink_latex(P(), chk)
    rules_balance.r_balance(P(), chk)
    rules_anchor.r_listbound(P(), chk, "R-NOTELIST")      # no note text is lost from the relocated lists


def c06(chk, tier):
    chk.explanation = "Static: R-WRAP W1-W5 (delegation, language, ownership, per-format agreement, CLI) and R-PTRPTR."
    rules_wrap.r_wrap(P(), chk)
    rules_wrap.r_ptrptr(P(), chk)
    rules_kind.r_enumkind(P(), chk)
    rules_state.r_reset(P(), chk)       # a (re)parse starts from a clean engine: containers emptied, per-parse flags re-assigned
    rules_wrap.r_optorder(P(), chk)


def c01(chk, tier):
    chk.explanation = "Static: R-ARRAY (interval analysis of every fixed-array index/copy), R-TYPEWRITE, R-LOOKBEHIND, R-INIT, R-STALE, R-SCANIDX, R-SCANSTOP, R-OWN (nopool configuration), R-HEAPIDX, R-UAF, R-HASHKEY, R-GOTOINIT."
    # thorough: the same rules once more on the -DDISABLE_OBJECT_POOL configuration (token.c differs, frees are real)
    for cfg in (["default", "nopool"] if tier == "thorough" else ["default"]):
        rules_mem.r_array(P(cfg), chk)
        rules_mem.r_lookbehind(P(cfg), chk)
        rules_mem.r_init(P(cfg), chk)
        rules_mem.r_stale(P(cfg), chk)
        rules_mem.r_scanidx(P(cfg), chk)
        rules_mem.r_scanstop(P(cfg), chk)
        rules_mem.r_heapidx(P(cfg), chk)
        rules_mem.r_uaf(P(cfg), chk)
        rules_mem.r_hashkey(P(cfg), chk)
        rules_mem.r_gotoinit(P(cfg), chk)
        rules_mem.r_memsize(P(cfg), chk)
    rules_mem.r_own(P("nopool"), chk)
    rules_misc.r_pushpop(P(), chk)            # the guard stack holds file_path->str, freed right after: an unbalanced push is a dangling pointer


def c19(chk, tier):
    chk.explanation = "Static: R-DSTR ensure-before-write, re-termination, clamping, -1 forms, who-may-write."
    rules_dstr.r_dstr(P(), chk)
    rules_dstr.r_editloop(P(), chk)
    rules_mem.r_heapidx(P(), chk)
    rules_mem.r_stale(P(), chk)          # a pointer into str kept across an operation that may move it
    rules_dstr.r_valist(P(), chk)
    rules_dstr.r_fmtbound(P(), chk)


def c07(chk, tier):
    chk.explanation = "Static: R-RECURSE (SCC classification, depth guards, stack budget from -fstack-usage), R-CONSTTIME."
    rules_recurse.r_recurse(P(), chk, tier)
    rules_recurse.r_consttime(P(), chk)
    rules_recurse.r_counter(P(), chk)
    rules_state.r_incdec(P(), chk)       # a leaked increment defeats the depth guard on the next call
    if tier == "thorough":
        rules_recurse.r_recurse(P("nopool"), chk, tier)


def c13(chk, tier):
    chk.explanation = "Static: R-PUSHPOP (visited-stack guard brackets the recursive call) + R-ARRAY on transclude.c."
    rules_misc.r_pushpop(P(), chk)
    rules_misc.r_canonkey(P(), chk)
    rules_state.r_outval(P(), chk)           # the metadata offset of an included file must not be the one left by an earlier call
    rules_mem.r_array(P(), chk, only_units={"transclude.c"})
    # the manifest query must not expand the engine's own text (a later transclusion for another format would find no markers)
    from .report import Check
    sub = Check("C13", tier)
    rules_state.r_srcconst(P(), sub)
    rid = "R-SRCCONST/transclude"
    chk.rule(rid, "library functions hand mmd_transclude_source (which edits its argument in place) a private copy, never the engine's source")
    callers = [f for f in P().all_funcs if P().first_party(f) and f.unit.base != "transclude.c" and list(f.calls("mmd_transclude_source"))]
    bad = [v for v in sub.viol if v["key"].endswith(":mmd_transclude_source")]
    for f in callers:
        hit = [v for v in bad if v["key"].split(":")[1] == f.name]
        chk.obligation(rid, "%s:%s" % (f.unit.base, f.name), ok=not hit)
    for v in bad:
        chk.violation(rid, v["key"], v["where"], v["msg"])
    chk.floor(rid, len(callers), 2, "callers of mmd_transclude_source outside transclude.c")
    rules_misc.r_once(P(), chk)


def c18(chk, tier):
    chk.explanation = "Static: R-POOL structure of object_pool.c / token.c and counter abstraction over main's CFG."
    rules_misc.r_pool(P(), chk)


def c15(chk, tier):
    chk.explanation = "Static: R-ENUM compile-fail witnesses, R-LINK chain discipline, R-TYPEWRITE value origins."
    rules_misc.r_enum(P(), chk)
    rules_misc.r_link(P(), chk)
    rules_misc.r_mate_guard(P(), chk)
    rules_misc.r_span_split(P(), chk)
    rules_mem.r_stalelen(P(), chk)         # token spans are cut from the text the length was read from
    rules_mem.r_tokrange(P(), chk)         # ... and the tokenizer is given a length assigned after the last edit of the text
    rules_mem.r_scanstop(P(), chk)         # character scans that size a token stop at the terminating NUL
    rules_mem.type_field_invariant(P(), chk)


def c12(chk, tier):
    chk.explanation = "Static: R-DUAL mirror-image check of accept/reject tables (EDPE), iteration direction, writer agreement."
    rules_critic.r_dual(P(), chk)
    rules_misc.r_link(P(), chk)     # accept/reject start their back-to-front walk at child->tail
    rules_misc.r_rangebase(P(), chk)    # the range entry points look at (text + start, len), not at the head of the string
    rules_wrap.r_optorder(P(), chk)     # -a / -r reach the library whatever other options are given
    rules_recurse.r_counter(P(), chk)   # the pair matcher (shared with the CriticMarkup tokenizer) keeps its opener counts exact


def c14(chk, tier):
    chk.explanation = "Static: R-ESCPAIR escaper (EDPE over all 256 byte values) vs. unescaper table inversion."
    rules_esc.r_escpair(P(), chk)
    rules_dispatch.r_sibling_outline(P(), chk)
    rules_level.r_level(P(), chk)
    rules_level.r_baselevel(P(), chk)
    rules_mem.r_stalelen(P(), chk)      # the import path hands back text and length that belong together
    lalr.r_opml_stack(P(), chk)         # the import parser's stack holds every outline the exporter can nest


def c16(chk, tier):
    chk.explanation = "Static: R-BYTECLASS (classifier table neutral on >= 0x80, ctype only in the C locale / on ASCII)."
    rules_misc.r_byteclass(P(), chk)
    rules_misc.r_highbyte(P(), chk)
    rules_mem.r_trimidx(P(), chk)      # a byte-wise trim one element off cuts a multi-byte character


def c20(chk, tier):
    chk.explanation = "Static: R-WRAPPER-ORDER (header/footer bracket the body under one condition; snippet wins; control-key set; who reads metadata)."
    rules_wrapper.r_wrapper_order(P(), chk)
    rules_wrapper.r_metakey(P(), chk)
    rules_wrapper.r_wrapbit(P(), chk)
    rules_wrapper.r_wrapper_pure(P(), chk)
    rules_wrapper.r_metawindow(P(), chk)     # a body paragraph swallowed as metadata changes the body and the complete/snippet decision


def c11(chk, tier):
    chk.explanation = "Static: R-METAKEY one key normal form at store and at every comparison / lookup (necessary condition only)."
    rules_wrapper.r_metakey(P(), chk)
    rules_mem.r_scanstop(P(), chk)     # value/key scans stop at the end of input ("EOF without newline" clause)
    rules_mem.r_trimidx(P(), chk)      # no character lost at the end of a value
    rules_esc.r_wsflag(P(), chk)       # whitespace normalisation neither swallows nor doubles a blank
    rules_wrapper.r_metawindow(P(), chk)
    rules_misc.r_byteclass(P(), chk)   # value trimming classifies bytes: a byte >= 0x80 classed as whitespace cuts a character in two
    rules_wrapper.r_metascan(P(), chk)
    rules_state.r_reset(P(), chk)      # metadata entries of an earlier query / parse are gone before the next parse


def c10(chk, tier):
    chk.explanation = "Static: R-ANCHOR anchor-family derivation agreement (reaching definitions), one label function, numbering stacks."
    rules_anchor.r_anchor(P(), chk)
    rules_anchor.r_anchor_seed(P(), chk)
    rules_anchor.r_anchor_tocseed(P(), chk)
    rules_misc.r_highbyte(P(), chk)    # link urls (clean_string) and ids (label_from_*) must both leave multi-byte characters alone
    rules_anchor.r_anchor_nolabels(P(), chk)


def c08(chk, tier):
    chk.explanation = "Static: R-SINK escaping discipline at output sinks of the XML writers; escaper completeness."
    rules_sink.r_sink(P(), chk)
    rules_sink.r_sink_provenance(P(), chk)
    rules_sink.r_rawtoken(P(), chk)
    rules_esc.r_escaper_complete(P(), chk)
    rules_esc.r_escpair(P(), chk)
    rules_balance.r_balance(P(), chk, units={"html.c", "opendocument-content.c"})
    rules_sink.r_attrbreak(P(), chk)
    rules_sink.r_eraseguard(P(), chk)
    rules_level.r_baselevel(P(), chk)         # heading levels below 1 leave <outline> elements open
    # every tag the writers print goes through d_string_append_printf -> vasprintf: a fragment cut short loses its `>`
    rules_dstr.r_fmtbound(P(), chk)
    rules_dstr.r_valist(P(), chk)


def c09(chk, tier):
    chk.explanation = "Static: R-ZIPTABLE member tables / cross-literal agreement / finalisation; R-PTRPTR."
    rules_zip.r_ziptable(P(), chk)
    rules_wrap.r_dirname_once(P(), chk)      # the asset folder handed to the package builders is the input's own directory
    rules_wrap.r_ptrptr(P(), chk)
    rules_format.r_formatpair(P(), chk)
    rules_format.r_rawformat(P(), chk)
    rules_format.r_editdelta(P(), chk)
    rules_mem.r_stalelen(P(), chk)


PROPS = {
    "C09": ("other", c09),
    "C08": ("other", c08),
    "C10": ("other", c10),
    "C11": ("other", c11),
    "C20": ("other", c20),
    "C16": ("other", c16),
    "C14": ("other", c14),
    "C12": ("other", c12),
    "C15": ("other", c15),
    "C18": ("other", c18),
    "C07": ("other", c07),
    "C13": ("other", c13),
    "C19": ("other", c19),
    "C01": ("other", c01),
    "C06": ("other", c06),
    "C04": ("other", c04),
    "C02": ("other", c02),
    "C05": ("other", c05),
    "C17": ("other", c17),
}
