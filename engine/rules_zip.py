"""R-ZIPTABLE (C09): member tables of the package creators and agreement between the literals that must match."""
import re

from .prog import (AnalysisBroken, key, strip, walk, const_value, enum_name, resolve_key)
from .rules_wrap import r_ptrptr


def _adds(f, depth=0):
    """Members added to the archive in f: direct mz_zip_writer_add_mem calls, and calls of a same-unit store helper that
    hands its parameters on to one (summarised, three levels): name / data / length / flags are then the call's arguments."""
    from .prog import single_assignment_locals
    out = []
    for c in f.calls():
        callee = c.get("callee")
        if callee == "mz_zip_writer_add_mem":
            name = strip(c["c"][2])
            out.append({"call": c, "name": name["s"] if name is not None and name["k"] == "StringLiteral" else None,
                        "name_key": key(c["c"][2]), "data": key(c["c"][3]), "data_node": c["c"][3], "len": key(c["c"][4]),
                        "flags": const_value(c["c"][5]), "flags_key": key(c["c"][5]), "line": c["l"]})
            continue
        h = f.unit.funcs.get(callee) if callee else None
        if h is None or h is f or depth >= 3:
            continue
        inner = _adds(h, depth + 1)
        if not inner:
            continue
        pidx = {q[0]: i for i, q in enumerate(h.params)}
        args = c["c"][1:]
        sal = single_assignment_locals(h)

        def arg_of(k):
            k = k.strip("()")
            return args[pidx[k]] if k in pidx and pidx[k] < len(args) else None
        for a in inner:
            b = dict(a)
            b["call"] = c
            b["line"] = c["l"]
            n = arg_of(a["name_key"])
            if a["name"] is None and n is not None:
                sn = strip(n)
                b["name"] = sn["s"] if sn is not None and sn["k"] == "StringLiteral" else None
                b["name_key"] = key(n)
            d = arg_of(a["data"])
            if d is not None:
                b["data"] = key(d)
                b["data_node"] = d
            ln = arg_of(a["len"])
            if ln is not None:
                b["len"] = key(ln)
            else:
                lk = a["len"].strip("()")
                init = sal.get(lk)
                si = strip(init) if init is not None else None
                if si is not None and si["k"] == "CallExpr" and si.get("callee") == "strlen":
                    d2 = arg_of(key(si["c"][1]))
                    if d2 is not None:
                        b["len"] = "strlen(%s)" % key(d2)
            fl = arg_of(a.get("flags_key") or "")
            if fl is not None:
                b["flags"] = const_value(fl)
                b["flags_key"] = key(fl)
            out.append(b)
    return out


def _literals(P, unit):
    u = P.units.get(unit)
    out = []
    for f in u.funcs.values():
        for n in f.walk():
            if n["k"] == "StringLiteral" and n.get("s"):
                out.append((f, n["s"]))
    return out


def _data_origin(f, add):
    """What feeds the data argument of an add call: callee name of the latest assignment to the data variable
    before the call, or the argument key itself."""
    dn = strip(add.get("data_node")) if add.get("data_node") is not None else None
    if dn is not None and dn["k"] == "CallExpr" and dn.get("callee"):
        return dn["callee"]
    k = add["data"]
    best = None
    for x in f.walk():
        if x["k"] == "BinaryOperator" and x["op"] == "=" and key(x["c"][0]) == k and x["l"] <= add["line"]:
            if best is None or x["l"] > best["l"]:
                best = x
    if best is not None:
        r = strip(best["c"][1])
        if r is not None and r["k"] == "CallExpr":
            return r.get("callee")
    return k


def r_ziptable(P, chk):
    rid = "R-ZIPTABLE"
    chk.rule(rid, "package creators: required members present with the right names/order/compression flags, literals that must "
                  "agree do agree (container.xml -> OPF, OPF manifest -> members, ODF manifest -> members), the main member is the "
                  "rendered body, the archive is finalised into the result DString on every path")
    def ob(desc, ok, k, where, msg=None):
        chk.obligation(rid, desc, ok)
        if not ok:
            chk.violation(rid, k, where, msg or ("package layout: " + desc + " - does not hold"))
    # ---------------- EPUB
    ep = P.func("epub_create", "epub.c")
    adds = _adds(ep)
    names = [a["name"] for a in adds]
    chk.floor(rid, len(adds), 6, "members added by epub_create")
    first = min(adds, key=lambda a: a["line"])
    ob("EPUB: `mimetype` is the first member added", first["name"] == "mimetype" and all(
        ep.cfg.dominates(first["call"]["i"], a["call"]["i"]) for a in adds if a is not first), "zip:epub:mimetype-first", ep.where(first["call"]))
    mt = P.func("epub_mimetype", "epub.c")
    lits = [n["s"] for n in mt.walk() if n["k"] == "StringLiteral"]
    ob("EPUB: mimetype content is application/epub+zip and is what gets stored", lits == ["application/epub+zip"] and
       _data_origin(ep, first) == "epub_mimetype", "zip:epub:mimetype-data", mt.where())
    for req in ("META-INF/container.xml", "OEBPS/main.opf", "OEBPS/nav.xhtml", "OEBPS/main.xhtml"):
        ob("EPUB: member %s is added" % req, req in names, "zip:epub:member:%s" % req, ep.where())
    elits = [s for _, s in _literals(P, "epub.c")]
    fp = [m.group(1) for s in elits for m in re.finditer(r'full-path="([^"]+)"', s)]
    ob("EPUB: container.xml names the package document that is added (%s)" % fp, bool(fp) and all(p in names for p in fp),
       "zip:epub:container", ep.where(), "container.xml's full-path %s is not a member of the archive %s" % (fp, names))
    opf_dir = (fp[0].rsplit("/", 1)[0] + "/") if fp and "/" in fp[0] else ""
    hrefs = [m.group(1) for s in elits for m in re.finditer(r'<item [^>]*href="([^"%]+)"', s)]
    ob("EPUB: every OPF manifest href %s is a member relative to %s" % (hrefs, opf_dir), bool(hrefs) and all(opf_dir + h in names for h in hrefs),
       "zip:epub:manifest", ep.where(), "OPF manifest lists %s but the archive members are %s" % (hrefs, names))
    ob("EPUB: manifest lists nav.xhtml (properties=nav) and main.xhtml", any('properties="nav"' in s and 'href="nav.xhtml"' in s for s in elits)
       and any('href="main.xhtml"' in s for s in elits), "zip:epub:manifest-required", ep.where())
    navrefs = [m.group(1) for s in elits for m in re.finditer(r'<a href="([\w.]+)#', s)]
    ob("EPUB: navigation entries point into the main document member %s" % navrefs, bool(navrefs) and all(opf_dir + r in names for r in navrefs),
       "zip:epub:nav-target", ep.where())
    main = [a for a in adds if a["name"] == "OEBPS/main.xhtml"]
    ob("EPUB: the main member is the rendered body (body->str, body->currentStringLength)", bool(main) and main[0]["data"] == "body->str"
       and main[0]["len"] == "body->currentStringLength", "zip:epub:main-data", ep.where())
    for a in adds:
        if a["name"] in ("META-INF/container.xml", "OEBPS/main.opf", "OEBPS/nav.xhtml"):
            want = {"META-INF/container.xml": "epub_container_xml", "OEBPS/main.opf": "epub_package_document", "OEBPS/nav.xhtml": "epub_nav"}[a["name"]]
            ob("EPUB: %s is built by %s" % (a["name"], want), _data_origin(ep, a) == want, "zip:epub:data:%s" % a["name"], ep.where(a["call"]))
    # ---------------- ODT
    oc = P.func("opendocument_core_zip", "opendocument.c")
    of = P.func("opendocument_core_file_create", "opendocument.c")
    oadds = _adds(oc)
    fadds = _adds(of)
    onames = [a["name"] for a in oadds + fadds]
    chk.floor(rid, len(oadds), 6, "members added by opendocument_core_zip")
    ofirst = min(oadds, key=lambda a: a["line"])
    ob("ODT: `mimetype` is the first member and is stored uncompressed", ofirst["name"] == "mimetype" and ofirst["flags"] == 0 and all(
        oc.cfg.dominates(ofirst["call"]["i"], a["call"]["i"]) for a in oadds if a is not ofirst), "zip:odt:mimetype", oc.where(ofirst["call"]),
       "ODT mimetype must be the first member and stored (MZ_NO_COMPRESSION); found name=%s flags=%s" % (ofirst["name"], ofirst["flags"]))
    mimes = [strip(c["c"][2])["s"] for c in oc.calls("strcpy") if key(c["c"][1]) == ofirst["data"] and strip(c["c"][2])["k"] == "StringLiteral"]
    ob("ODT: mimetype content is application/vnd.oasis.opendocument.text", mimes == ["application/vnd.oasis.opendocument.text"],
       "zip:odt:mimetype-data", oc.where())
    olits = [s for _, s in _literals(P, "opendocument.c")]
    paths = [m.group(1) for s in olits for m in re.finditer(r'manifest:full-path="([^"%]+)"', s)]
    files = [p for p in paths if p != "/" and not p.endswith("/")]
    ob("ODT: every file in the manifest literal %s is added to the archive" % files, len(files) >= 4 and all(p in onames for p in files),
       "zip:odt:manifest", oc.where(), "ODT manifest lists %s but the archive members are %s" % (files, onames))
    for req in ("content.xml", "styles.xml", "meta.xml", "settings.xml", "META-INF/manifest.xml"):
        ob("ODT: member %s is added and listed" % req, req in onames and (req in files or req.startswith("META-INF")),
           "zip:odt:member:%s" % req, oc.where())
    cont = [a for a in fadds if a["name"] == "content.xml"]
    okc = False
    if cont:
        org = _data_origin(of, cont[0])
        okc = org == "opendocument_content_file"
        if okc:
            call = [c for c in of.calls("opendocument_content_file")]
            okc = bool(call) and key(call[0]["c"][1]) == "body->str"
    ob("ODT: content.xml is built from the rendered body", okc, "zip:odt:content-data", of.where())
    # ---------------- TextBundle / ITMZ
    tb = P.func("textbundle_create", "textbundle.c")
    tadds = _adds(tb)
    tnames = [a["name"] for a in tadds]
    for req in ("info.json", "text.markdown"):
        ob("TextBundle: member %s is added" % req, req in tnames, "zip:bundle:member:%s" % req, tb.where())
    th = [a for a in tadds if a["name"] == "text.html"]
    ob("TextBundle: text.html is the rendered body", bool(th) and th[0]["data"] == "body->str", "zip:bundle:html", tb.where())
    it = P.func("itmz_create", "itmz.c")
    iadds = _adds(it)
    ob("ITMZ: mapdata.xml is the rendered body", len(iadds) == 1 and iadds[0]["name"] == "mapdata.xml" and iadds[0]["data"] == "body->str"
       and iadds[0]["len"] == "body->currentStringLength", "zip:itmz:mapdata", it.where())
    # ---------------- finalisation
    for f in (ep, of, tb, it):
        fin = [c for c in f.calls("mz_zip_writer_finalize_heap_archive")]
        ok = len(fin) == 1
        if ok:
            a = [resolve_key(f, x).replace("(", "").replace(")", "").replace(" ", "") for x in fin[0]["c"][2:4]]
            if a != ["&result->str", "&result->currentStringLength"] and all(x.startswith("&") and "->" not in x for x in a):
                # through two locals that are then stored into the result on every path
                st1 = [y for y in f.walk() if y["k"] == "BinaryOperator" and y["op"] == "=" and key(y["c"][0]) == "result->str"
                       and key(y["c"][1]).strip("()") == a[0][1:] and f.cfg.postdominates(y["i"], fin[0]["i"])]
                st2 = [y for y in f.walk() if y["k"] == "BinaryOperator" and y["op"] == "=" and key(y["c"][0]) == "result->currentStringLength"
                       and key(y["c"][1]).strip("()") == a[1][1:] and f.cfg.postdominates(y["i"], fin[0]["i"])]
                if st1 and st2:
                    a = ["&result->str", "&result->currentStringLength"]
            ok = a == ["&result->str", "&result->currentStringLength"] and f.cfg.block_postdominates(f.block_of(fin[0]), f.cfg.entry)
            rets = [n for n in f.walk() if n["k"] == "ReturnStmt" and n["c"] and n["c"][0] is not None]
            ok = ok and all(key(r["c"][0]) == "result" for r in rets)
            for ad in _adds(f):
                ok = ok and f.cfg.dominates(ad["call"]["i"], fin[0]["i"])
        ob("%s: archive finalised after all members into result->str / result->currentStringLength on every path" % f.name, ok,
           "zip:finalize:%s" % f.name, f.where())
    # ---------------- compression argument: a level, never a miniz flag (the data handed over are raw bytes)
    def flag_values(g, e, depth=0):
        """constants that can reach the level_and_flags argument (None in the set = unknown)"""
        cv = const_value(e)
        if cv is not None:
            return {cv}
        x = strip(e)
        if x is None or depth > 4:
            return {None}
        if x["k"] == "ConditionalOperator":
            return flag_values(g, x["c"][1], depth + 1) | flag_values(g, x["c"][2], depth + 1)
        if x["k"] == "BinaryOperator" and x["op"] == "|":
            a, b = flag_values(g, x["c"][0], depth + 1), flag_values(g, x["c"][1], depth + 1)
            return {None if (p is None or q is None) else (p | q) for p in a for q in b}
        if x["k"] == "DeclRefExpr" and x.get("dk") == "Var":
            out = set()
            for y in g.walk():
                if y["k"] == "VarDecl" and y.get("n") == x["n"] and y.get("c") and y["c"][0] is not None:
                    out |= flag_values(g, y["c"][0], depth + 1)
                elif y["k"] == "BinaryOperator" and y["op"] == "=" and key(y["c"][0]) == x["n"]:
                    out |= flag_values(g, y["c"][1], depth + 1)
                elif y["k"] == "CompoundAssignOperator" and key(y["c"][0]) == x["n"]:
                    out.add(None)
            return out or {None}
        if x["k"] == "DeclRefExpr" and x.get("dk") == "Parm":
            pi = [i for i, q in enumerate(g.params) if q[0] == x["n"]]
            out = set()
            for h in P.all_funcs:
                if not P.first_party(h):
                    continue
                for c in h.calls(g.name):
                    if P.resolve(h, g.name) is g and pi and 1 + pi[0] < len(c["c"]):
                        out |= flag_values(h, c["c"][1 + pi[0]], depth + 1)
            return out or {None}
        return {None}
    n_lv = 0
    for g in P.all_funcs:
        if not P.first_party(g) or g.unit.base in ("miniz.c", "zip.c"):
            continue
        for c in g.calls("mz_zip_writer_add_mem"):
            n_lv += 1
            vals = flag_values(g, c["c"][5])
            bad = sorted(v for v in vals if v is not None and not 0 <= v <= 10)
            okf = None not in vals and not bad
            ob("%s: member added with a plain compression level %s" % (g.name, sorted(v for v in vals if v is not None)), okf,
               "zip:level:%s" % g.name, g.where(c),
               "%s can pass %s as the level_and_flags argument of mz_zip_writer_add_mem: with a miniz flag such as "
               "MZ_ZIP_FLAG_COMPRESSED_DATA (0x400) the raw bytes are written as if they were a deflate stream, with size 0 and CRC 0 - "
               "the member cannot be extracted" % (g.name, [hex(v) for v in bad] if bad else "a value that could not be resolved"))
    chk.floor(rid, n_lv, 4, "mz_zip_writer_add_mem call sites")
    # ---------------- the method recorded in the headers is derived from the store decision: that decision is final by then
    from .rules_mem import _reaches
    n_m = 0
    for g in P.all_funcs:
        if g.unit.base != "miniz.c":
            continue
        hdr = [c for c in g.calls("mz_zip_writer_create_local_dir_header") if len(c["c"]) > 8]
        if not hdr:
            continue
        gpos = g.cfg.positions()
        for M in sorted({key(c["c"][8]) for c in hdr}):
            defs = [x for x in g.walk() if x["k"] == "BinaryOperator" and x["op"] == "=" and key(x["c"][0]) == M and x.get("i") in gpos]
            for D in defs:
                conds = [a["c"][0] for a in g.ancestors(D) if a["k"] == "IfStmt"]
                V = {y["n"] for cnd in conds for y in walk(cnd) if y["k"] == "DeclRefExpr" and y.get("dk") == "Var"}
                if not V:
                    continue
                n_m += 1
                late = [x for x in g.walk() if (x["k"] == "BinaryOperator" and x["op"] == "=" or x["k"] == "CompoundAssignOperator")
                        and key(x["c"][0]) in V and x.get("i") in gpos and x is not D and _reaches(g, gpos, D, x, [])]
                ob("%s: `%s` is derived from %s, none of which is assigned again afterwards" % (g.name, M, sorted(V)), not late,
                   "zip:method:%s" % g.name, g.where(late[0]) if late else g.where(D),
                   "%s derives the header field `%s` from %s at line %d but assigns `%s` again at line %d: the headers then describe a "
                   "member differently from how its data were written (a stored member labelled deflated fails its CRC)" % (
                       g.name, M, sorted(V), D["l"], key(late[0]["c"][0]) if late else "?", late[0]["l"] if late else 0))
    chk.floor(rid, n_m, 1, "derivations of the zip method field in miniz")
    # ---------------- asset table
    an = P.func("asset_new", "writer.c")
    def from_uuid(g, e, depth=0):
        e2 = strip(e)
        if e2 is None:
            return False
        if e2["k"] == "CallExpr":
            if e2.get("callee") == "uuid_new":
                return True
            h = P.resolve(g, e2.get("callee") or "")
            if h is not None and P.first_party(h) and depth < 2:
                rets = [r for r in h.walk() if r["k"] == "ReturnStmt" and r.get("c") and r["c"][0] is not None]
                return bool(rets) and all(from_uuid(h, r["c"][0], depth + 1) for r in rets)
            return False
        if e2["k"] == "DeclRefExpr" and e2.get("dk") == "Var":
            srcs = [y["c"][1] for y in g.walk() if y["k"] == "BinaryOperator" and y["op"] == "=" and key(y["c"][0]) == e2["n"]]
            srcs += [y["c"][0] for y in g.walk() if y["k"] == "VarDecl" and y.get("n") == e2["n"] and y.get("c") and y["c"][0] is not None]
            return bool(srcs) and all(from_uuid(g, s2, depth + 1) for s2 in srcs)
        return False
    ob("assets: packaged file names come from uuid_new()", any(
        x["k"] == "BinaryOperator" and x["op"] == "=" and key(x["c"][0]).endswith("->asset_path") and from_uuid(an, x["c"][1])
        for x in an.walk()), "zip:asset:uuid", an.where())
    # uuid_new() draws from rand(), which label_from_header re-seeds: a name must be checked against the table before it is used
    def compares_paths(g, depth=0):
        for c in g.calls():
            if c.get("callee") == "strcmp" and any(key(a).endswith("->asset_path") for a in c["c"][1:]):
                return True
            h = P.resolve(g, c.get("callee") or "")
            if h is not None and P.first_party(h) and h is not g and depth < 1 and compares_paths(h, depth + 1):
                return True
        return False
    redraw = False
    producers = [an] + [h for h in (P.resolve(an, c.get("callee") or "") for c in an.calls()) if h is not None and P.first_party(h)
                        and any(True for _ in h.calls("uuid_new"))]
    for an2, w in [(g2, w2) for g2 in producers for w2 in g2.walk()]:
        if w["k"] in ("WhileStmt", "DoStmt"):
            cond = w["c"][0] if w["k"] == "WhileStmt" else w["c"][1]
            body = w["c"][1] if w["k"] == "WhileStmt" else w["c"][0]
            gen = {nm for nm in [y.get("n") for y in an2.walk() if y["k"] == "VarDecl"] +
                   [key(y["c"][0]) for y in an2.walk() if y["k"] == "BinaryOperator" and y["op"] == "="] if nm}
            tests = [y for y in walk(cond) if y["k"] == "CallExpr" and y.get("callee") and P.resolve(an2, y["callee"]) is not None
                     and compares_paths(P.resolve(an2, y["callee"])) and any(key(a).endswith("->asset_path") or key(a) in gen for a in y["c"][1:])]
            if tests and any(y["k"] == "CallExpr" and y.get("callee") == "uuid_new" for y in walk(body)):
                redraw = True
    ob("assets: a packaged name is drawn again while another asset in the table already uses it", redraw, "zip:asset:unique", an.where(),
       "asset_new hands out uuid_new() names without checking the asset table: rand() is re-seeded by label_from_header for every "
       "heading under --unique / --random, so two assets separated by a heading get the same name and the package two members "
       "with that name")
    ex = P.func("mmd_engine_export_token_tree", "writer.c")
    ob("assets: the engine keeps the scratch pad's asset table for the package builder (e->asset_hash = scratch->asset_hash)",
       any(x["k"] == "BinaryOperator" and x["op"] == "=" and key(x["c"][0]).endswith("->asset_hash") and key(x["c"][1]).endswith("->asset_hash")
           for x in ex.walk()), "zip:asset:handover", ex.where())
    chk.analysed[rid] = {"epub_members": names, "odt_members": onames, "textbundle_members": tnames, "itmz_members": [a["name"] for a in iadds]}
    if first["flags"] != 0:
        chk.notes.append("observation: EPUB `mimetype` is added with MZ_BEST_COMPRESSION (the statement requires 'stored' for ODT only)")
