"""Resolved-program model: runs the mmdfacts plugin over every unit of the
compilation database (content-hash cached), loads the facts and offers the
generic analyses the rules share: AST helpers, CFG + dominators, call graph,
enum-dispatch partial evaluation (EDPE).

Nothing here executes code from /repo; everything is derived from clang's
type-checked AST and CFG of the current working tree.
"""
import hashlib
import json
import os
import pickle
import re
import subprocess
import sys
from concurrent.futures import ThreadPoolExecutor

from . import compdb

PLUGIN = os.path.join(compdb.WORK, "mmdfacts.so")
CACHE = os.environ.get("MMD_CACHE") or os.path.join(compdb.WORK, "cache")


class AnalysisBroken(Exception):
    """The analysis cannot give a verdict (exit 2): never a pass, never a violation."""


def _sha(*parts):
    h = hashlib.sha256()
    for p in parts:
        if isinstance(p, str):
            p = p.encode()
        h.update(p)
        h.update(b"\0")
    return h.hexdigest()


def _headers_digest():
    h = hashlib.sha256()
    src = os.path.join(compdb.REPO, "src")
    for n in sorted(os.listdir(src)):
        if n.endswith(".h"):
            h.update(n.encode())
            h.update(open(os.path.join(src, n), "rb").read())
    vh = os.path.join(compdb.version_include_dir(), "version.h")
    h.update(open(vh, "rb").read())
    return h.hexdigest()


def prune_cache(limit=3 << 30):
    """Keep the facts cache bounded: drop the oldest files once it exceeds `limit` bytes."""
    try:
        ents = [(e.stat().st_mtime, e.stat().st_size, e.path) for e in os.scandir(CACHE) if e.is_file()]
    except OSError:
        return
    total = sum(e[1] for e in ents)
    if total <= limit:
        return
    for mt, sz, path in sorted(ents):
        try:
            os.unlink(path)
        except OSError:
            pass
        total -= sz
        if total <= limit // 2:
            break


def ensure_plugin():
    src = os.path.join(compdb.VERIF, "engine", "mmdfacts.cc")
    if not os.path.exists(PLUGIN) or os.path.getmtime(PLUGIN) < os.path.getmtime(src):
        r = subprocess.run([os.path.join(compdb.VERIF, "engine", "build.sh")], capture_output=True, text=True)
        if r.returncode != 0:
            raise AnalysisBroken("cannot build mmdfacts.so: " + r.stderr[-2000:])


def extract_unit(unit, config, hdig, plugdig):
    """Run the plugin on one unit; returns path of the facts file (cached by content)."""
    path = os.path.join(compdb.REPO, unit)
    flags = compdb.base_flags() + compdb.CONFIGS[config]
    key = _sha(open(path, "rb").read(), hdig, plugdig, " ".join(flags), unit)
    out = os.path.join(CACHE, key + ".jsonl")
    if os.path.exists(out):
        return out
    os.makedirs(CACHE, exist_ok=True)
    tmp = out + ".%d.tmp" % os.getpid()
    cmd = ["clang", "-fsyntax-only"] + flags + [
        "-fplugin=" + PLUGIN, "-Xclang", "-plugin", "-Xclang", "mmdfacts",
        "-Xclang", "-plugin-arg-mmdfacts", "-Xclang", "out=" + tmp, path]
    r = subprocess.run(cmd, capture_output=True, text=True)
    if r.returncode != 0 or not os.path.exists(tmp):
        if os.path.exists(tmp):
            os.unlink(tmp)
        raise AnalysisBroken("clang failed on %s: %s" % (unit, r.stderr[-3000:]))
    with open(tmp, "rb") as f:
        f.seek(max(0, os.path.getsize(tmp) - 20))
        tail = f.read()
    if b'"T":"end"' not in tail:
        os.unlink(tmp)
        raise AnalysisBroken("facts for %s incomplete (compile errors?)" % unit)
    os.replace(tmp, out)
    return out


# ---------------------------------------------------------------------------
# AST helpers (nodes are plain dicts as emitted by the plugin)

CAST_KINDS = ("ImplicitCastExpr", "CStyleCastExpr", "ParenExpr", "ConstantExpr")


def strip(n):
    """Skip parentheses and casts."""
    while n is not None and n.get("k") in CAST_KINDS and n.get("c"):
        n = n["c"][0]
    return n


def strip_parens(n):
    while n is not None and n.get("k") in ("ParenExpr", "ConstantExpr") and n.get("c"):
        n = n["c"][0]
    return n


def walk(n):
    """Pre-order walk over all nodes (including VarDecl pseudo nodes)."""
    stack = [n]
    while stack:
        x = stack.pop()
        if x is None:
            continue
        yield x
        c = x.get("c")
        if c:
            stack.extend(reversed(c))


def key(n):
    """Normalised spelling of an (l)value expression, casts and parens removed.
    `a->b`, `a.b`, `a[i]`, `*p`, `&x`, names, integer constants; other shapes get
    a structural rendering.  Two expressions with the same key denote the same
    syntactic access path."""
    n = strip(n)
    if n is None:
        return "?"
    k = n["k"]
    if k == "DeclRefExpr":
        return n["n"]
    if k == "MemberExpr":
        return key(n["c"][0]) + ("->" if n.get("arrow") else ".") + n["n"]
    if k == "ArraySubscriptExpr":
        return key(n["c"][0]) + "[" + key(n["c"][1]) + "]"
    if k == "UnaryOperator":
        op = n["op"]
        if op.startswith("post"):
            return key(n["c"][0]) + op[4:]
        if op.startswith("pre"):
            return op[3:] + key(n["c"][0])
        return op + key(n["c"][0])
    if k in ("BinaryOperator", "CompoundAssignOperator"):
        return "(" + key(n["c"][0]) + n["op"] + key(n["c"][1]) + ")"
    if k in ("IntegerLiteral", "CharacterLiteral"):
        return str(n["v"])
    if k == "StringLiteral":
        return json.dumps(n.get("s", ""))
    if k == "CallExpr":
        return (n.get("callee") or key(n["c"][0])) + "(" + ",".join(key(a) for a in n["c"][1:]) + ")"
    if k == "ConditionalOperator":
        return "(" + key(n["c"][0]) + "?" + key(n["c"][1]) + ":" + key(n["c"][2]) + ")"
    if k == "UnaryExprOrTypeTraitExpr":
        if "cv" in n:
            return str(n["cv"])
        return "sizeof"
    return k


def single_assignment_locals(f):
    """name -> init expression for locals that are initialised at their declaration and never assigned,
    incremented or address-taken afterwards (cached on the function)."""
    c = getattr(f, "_sal", None)
    if c is not None:
        return c
    inits, dirty = {}, set()
    for x in f.walk():
        k = x["k"]
        if k == "VarDecl":
            if x.get("c") and x["c"][0] is not None and not x.get("asz"):
                if x["n"] in inits:
                    dirty.add(x["n"])      # shadowing / redeclaration
                inits[x["n"]] = x["c"][0]
            else:
                dirty.add(x["n"])
        elif k == "BinaryOperator" and x["op"] == "=" or k == "CompoundAssignOperator" or \
                (k == "UnaryOperator" and x["op"] in ("post++", "pre++", "post--", "pre--", "&")):
            l = strip(x["c"][0])
            if l is not None and l["k"] == "DeclRefExpr":
                dirty.add(l["n"])
    out = {n: e for n, e in inits.items() if n not in dirty}
    # locals declared without an initialiser and assigned exactly once (`void * obj; ... obj = p->next;`), never
    # incremented or address-taken: they stand for that one value as well
    assigns = {}
    bad = set()
    for x in f.walk():
        k = x["k"]
        if k == "BinaryOperator" and x["op"] == "=":
            l = strip(x["c"][0])
            if l is not None and l["k"] == "DeclRefExpr" and l.get("dk") == "Var":
                assigns.setdefault(l["n"], []).append(x["c"][1])
        elif k == "CompoundAssignOperator" or (k == "UnaryOperator" and x["op"] in ("post++", "pre++", "post--", "pre--", "&")):
            l = strip(x["c"][0])
            if l is not None and l["k"] == "DeclRefExpr":
                bad.add(l["n"])
    decl_noinit = {x["n"] for x in f.walk() if x["k"] == "VarDecl" and not (x.get("c") and x["c"][0] is not None) and not x.get("asz")}
    params = {p[0] for p in f.params}
    for n, rhss in assigns.items():
        if len(rhss) == 1 and n in decl_noinit and n not in bad and n not in inits and n not in params:
            # not self-referential
            if not any(y["k"] == "DeclRefExpr" and y["n"] == n for y in walk(rhss[0])):
                out[n] = rhss[0]
    f._sal = out
    return out


def resolve_key(f, n, depth=0):
    """key() with single-assignment locals replaced by their (side-effect free) initialisers: robust against
    hoisting an expression into a local."""
    n0 = strip(n)
    if n0 is None:
        return "?"
    sal = single_assignment_locals(f)

    def sub(x, d):
        x = strip(x)
        if x is None:
            return "?"
        k = x["k"]
        if k == "DeclRefExpr" and x.get("dk") == "Var" and x["n"] in sal and d < 5:
            init = sal[x["n"]]
            if not any(y["k"] == "CallExpr" and y.get("callee") not in ("strlen",) for y in walk(init)):
                return sub(init, d + 1)
            return x["n"]
        if k == "DeclRefExpr":
            return x["n"]
        if k == "MemberExpr":
            return sub(x["c"][0], d) + ("->" if x.get("arrow") else ".") + x["n"]
        if k == "ArraySubscriptExpr":
            return sub(x["c"][0], d) + "[" + sub(x["c"][1], d) + "]"
        if k == "UnaryOperator":
            op = x["op"]
            if op.startswith("post"):
                return sub(x["c"][0], d) + op[4:]
            if op.startswith("pre"):
                return op[3:] + sub(x["c"][0], d)
            return op + sub(x["c"][0], d)
        if k in ("BinaryOperator", "CompoundAssignOperator"):
            return "(" + sub(x["c"][0], d) + x["op"] + sub(x["c"][1], d) + ")"
        if k == "CallExpr":
            return (x.get("callee") or sub(x["c"][0], d)) + "(" + ",".join(sub(a, d) for a in x["c"][1:]) + ")"
        if k == "ConditionalOperator":
            return "(" + sub(x["c"][0], d) + "?" + sub(x["c"][1], d) + ":" + sub(x["c"][2], d) + ")"
        return key(x)
    return sub(n0, depth)


def const_value(n):
    """Integer value of a compile-time constant expression, else None."""
    if n is None:
        return None
    if "cv" in n:
        return n["cv"]
    if n["k"] in ("IntegerLiteral", "CharacterLiteral"):
        return n["v"]
    s = strip(n)
    if s is not n:
        return const_value(s)
    return None


def enum_name(n):
    """Enumerator name if the expression is (a cast of) an enumerator reference."""
    s = strip(n)
    if s is not None and s["k"] == "DeclRefExpr" and s.get("dk") == "Enum":
        return s["n"]
    return None


def call_args(n):
    return n["c"][1:]


def is_assign(n):
    return n["k"] == "BinaryOperator" and n["op"] == "=" or n["k"] == "CompoundAssignOperator"


# ---------------------------------------------------------------------------

class Block:
    __slots__ = ("id", "el", "succ", "rsucc", "term", "tk", "label", "noret", "preds")

    def __init__(self, d):
        self.id = d["id"]
        self.el = d["el"]
        self.succ = [None if s is None else (s[0], bool(s[1])) for s in d["succ"]]
        # reachable successors only (clang pruned trivially false edges)
        self.rsucc = [s[0] for s in self.succ if s is not None and s[1]]
        self.term = d.get("term")
        self.tk = d.get("tk")
        self.label = d.get("label")
        self.noret = bool(d.get("noret"))
        self.preds = []


class CFG:
    def __init__(self, d):
        self.entry = d["entry"]
        self.exit = d["exit"]
        self.blocks = {b["id"]: Block(b) for b in d["blocks"]}
        for b in self.blocks.values():
            for s in b.rsucc:
                self.blocks[s].preds.append(b.id)
        self._dom = None
        self._pdom = None
        self._pos = None

    def reachable(self, start=None, blocked=()):
        start = self.entry if start is None else start
        seen = set()
        st = [start]
        while st:
            b = st.pop()
            if b in seen or b in blocked:
                continue
            seen.add(b)
            st.extend(self.blocks[b].rsucc)
        return seen

    def _domtree(self, root, succ_of, pred_of):
        order = []
        seen = set()

        def dfs(r):
            st = [(r, iter(succ_of(r)))]
            seen.add(r)
            while st:
                n, it = st[-1]
                for s in it:
                    if s not in seen:
                        seen.add(s)
                        st.append((s, iter(succ_of(s))))
                        break
                else:
                    order.append(n)
                    st.pop()
        dfs(root)
        rpo = list(reversed(order))
        idx = {b: i for i, b in enumerate(rpo)}
        idom = {root: root}
        changed = True
        while changed:
            changed = False
            for b in rpo[1:]:
                ps = [p for p in pred_of(b) if p in idom]
                if not ps:
                    continue
                new = ps[0]
                for p in ps[1:]:
                    a, c = p, new
                    while a != c:
                        while idx[a] > idx[c]:
                            a = idom[a]
                        while idx[c] > idx[a]:
                            c = idom[c]
                    new = a
                if idom.get(b) != new:
                    idom[b] = new
                    changed = True
        return idom

    def dominators(self):
        if self._dom is None:
            self._dom = self._domtree(self.entry, lambda b: self.blocks[b].rsucc, lambda b: self.blocks[b].preds)
        return self._dom

    def postdominators(self):
        if self._pdom is None:
            self._pdom = self._domtree(self.exit, lambda b: self.blocks[b].preds, lambda b: self.blocks[b].rsucc)
        return self._pdom

    def block_dominates(self, a, b):
        idom = self.dominators()
        if b not in idom or a not in idom:
            return False
        while True:
            if a == b:
                return True
            nb = idom[b]
            if nb == b:
                return False
            b = nb

    def block_postdominates(self, a, b):
        """a post-dominates b"""
        idom = self.postdominators()
        if b not in idom or a not in idom:
            return False
        while True:
            if a == b:
                return True
            nb = idom[b]
            if nb == b:
                return False
            b = nb

    def positions(self):
        """stmt id -> (block id, index in block)"""
        if self._pos is None:
            self._pos = {}
            for b in self.blocks.values():
                for i, e in enumerate(b.el):
                    if e >= 0 and e not in self._pos:
                        self._pos[e] = (b.id, i)
        return self._pos

    def dominates(self, a, b):
        """statement a (id) dominates statement b (id)"""
        pos = self.positions()
        if a not in pos or b not in pos:
            return False
        (ba, ia), (bb, ib) = pos[a], pos[b]
        if ba == bb:
            return ia < ib
        return self.block_dominates(ba, bb)

    def postdominates(self, a, b):
        pos = self.positions()
        if a not in pos or b not in pos:
            return False
        (ba, ia), (bb, ib) = pos[a], pos[b]
        if ba == bb:
            return ia > ib
        return self.block_postdominates(ba, bb)


class Func:
    def __init__(self, d, unit):
        self.name = d["name"]
        self.file = d["file"]
        self.base = os.path.basename(d["file"])
        self.line = d["line"]
        self.endline = d["endline"]
        self.static = bool(d["static"])
        self.ret = d["ret"]
        self.params = d["params"]
        self.body = d["body"]
        self.unit = unit
        self._cfgd = d.get("cfg")
        self._cfg = None
        self._nodes = None
        self._parent = None

    @property
    def cfg(self):
        if self._cfg is None:
            if not self._cfgd:
                raise AnalysisBroken("no CFG for %s" % self.name)
            self._cfg = CFG(self._cfgd)
        return self._cfg

    def _index(self):
        self._nodes = {}
        self._parent = {}
        st = [(self.body, None)]
        while st:
            n, p = st.pop()
            if n is None:
                continue
            i = n.get("i")
            if i is not None:
                self._nodes[i] = n
                self._parent[i] = p
                par = n
            else:
                # VarDecl pseudo node: children report the DeclStmt as parent
                n["_p"] = p
                par = n
            for c in n.get("c") or ():
                if c is not None:
                    st.append((c, par))

    @property
    def nodes(self):
        if self._nodes is None:
            self._index()
        return self._nodes

    def parent(self, n):
        if self._parent is None:
            self._index()
        if "i" in n:
            return self._parent.get(n["i"])
        return n.get("_p")

    def ancestors(self, n):
        p = self.parent(n)
        while p is not None:
            yield p
            p = self.parent(p)

    def walk(self):
        return walk(self.body)

    def calls(self, name=None):
        for n in self.walk():
            if n["k"] == "CallExpr" and (name is None or n.get("callee") == name):
                yield n

    def where(self, n=None):
        return "%s:%d" % (self.base, n["l"] if n is not None else self.line)

    def src(self, n):
        b, e = n.get("b"), n.get("e")
        if b is None:
            return key(n)
        return self.unit.prog.file_text(self.file)[b:e].decode("utf-8", "replace")

    def block_of(self, n):
        """CFG block id holding statement n (or its nearest ancestor/descendant in the CFG)."""
        pos = self.cfg.positions()
        x = n
        while x is not None:
            i = x.get("i")
            if i in pos:
                return pos[i][0]
            x = self.parent(x)
        return None


class Unit:
    def __init__(self, path, prog, relname):
        self.path = path
        self.rel = relname
        self.base = os.path.basename(relname)
        self.prog = prog
        self.funcs = {}
        self.fdecls = []
        self.vars = []
        self.enums = []
        self.records = []
        for line in open(path, "rb"):
            d = json.loads(line)
            t = d["T"]
            if t == "func":
                self.funcs[d["name"]] = Func(d, self)
            elif t == "fdecl":
                self.fdecls.append(d)
            elif t == "var":
                self.vars.append(d)
            elif t == "enum":
                self.enums.append(d)
            elif t == "record":
                self.records.append(d)
            elif t == "error":
                raise AnalysisBroken("unit %s: %s" % (relname, d.get("msg")))


class Program:
    """All units of one preprocessor configuration, linked by name."""

    def __init__(self, config="default", units=None):
        ensure_plugin()
        prune_cache()
        self.config = config
        rels = compdb.src_units()
        if units is not None:
            rels = [r for r in rels if os.path.basename(r) in units]
        hdig = _headers_digest()
        plugdig = _sha(open(PLUGIN, "rb").read())
        with ThreadPoolExecutor(max_workers=16) as ex:
            paths = list(ex.map(lambda u: extract_unit(u, config, hdig, plugdig), rels))
        self.units = {}
        pk = os.path.join(CACHE, _sha("prog", config, *paths) + ".pickle")
        loaded = None
        if os.path.exists(pk):
            try:
                with open(pk, "rb") as f:
                    loaded = pickle.load(f)
            except Exception:
                loaded = None
        if loaded is None:
            loaded = {}
            for rel, p in zip(rels, paths):
                loaded[rel] = Unit(p, None, rel)
            try:
                with open(pk + ".%d.tmp" % os.getpid(), "wb") as f:
                    pickle.dump(loaded, f, protocol=pickle.HIGHEST_PROTOCOL)
                os.replace(pk + ".%d.tmp" % os.getpid(), pk)
            except Exception:
                pass
        for rel, u in loaded.items():
            u.prog = self
            self.units[os.path.basename(rel)] = u
        self._texts = {}
        self.funcs = {}      # name -> Func (external linkage, or unique static)
        self.all_funcs = []  # every Func
        for u in self.units.values():
            for f in u.funcs.values():
                self.all_funcs.append(f)
                if f.name in self.funcs and not f.static and not self.funcs[f.name].static:
                    # header-defined function seen in several units: keep the first
                    continue
                if f.name not in self.funcs or self.funcs[f.name].static:
                    self.funcs[f.name] = f
        self.enums = {}
        self.enum_consts = {}
        self.records = {}
        for u in self.units.values():
            for e in u.enums:
                self.enums.setdefault(e["name"] or ("anon@%s:%d" % (e["file"], e["line"])), e)
                for c in e["consts"]:
                    self.enum_consts[c[0]] = c[1]
            for r in u.records:
                if r["name"]:
                    self.records.setdefault(r["name"], r)
        self._cg = None

    # -- lookup ------------------------------------------------------------
    def file_text(self, path):
        t = self._texts.get(path)
        if t is None:
            t = open(path, "rb").read()
            self._texts[path] = t
        return t

    def func(self, name, unit=None):
        """Resolve a function by name (preferring the given unit for statics); AnalysisBroken if gone."""
        if unit is not None:
            u = self.units.get(unit)
            if u is None:
                raise AnalysisBroken("anchor unit %s is gone" % unit)
            if name in u.funcs:
                return u.funcs[name]
        f = self.funcs.get(name)
        if f is None:
            raise AnalysisBroken("anchor function %s%s is gone" % (name, " in " + unit if unit else ""))
        return f

    def resolve(self, caller, callee_name):
        """Resolve a direct callee as the linker would: same-unit definition first."""
        f = caller.unit.funcs.get(callee_name)
        if f is not None:
            return f
        g = self.funcs.get(callee_name)
        if g is not None and not g.static:
            return g
        return None

    def first_party(self, f):
        return f.unit.base not in compdb.OPAQUE_UNITS

    def enumerators(self, enum):
        e = self.enums.get(enum)
        if e is None:
            raise AnalysisBroken("enum %s is gone" % enum)
        return [(c[0], c[1]) for c in e["consts"]]

    def api_roots(self, headers=("libMultiMarkdown.h", "token.h", "d_string.h")):
        names = set()
        for u in self.units.values():
            for d in u.fdecls:
                if os.path.basename(d["file"]) in headers and not d["static"]:
                    names.add(d["name"])
        return sorted(n for n in names if n in self.funcs)

    # -- call graph ----------------------------------------------------------
    INDIRECT = {
        # caller-visible indirect calls resolved by hand (function pointers passed as data)
    }

    def callgraph(self):
        """(fid -> set of callee fids, fid -> set of external names); fid = (unit base, name)."""
        if self._cg is not None:
            return self._cg
        edges = {}
        ext = {}
        sites = {}
        for f in self.all_funcs:
            fid = (f.unit.base, f.name)
            es = edges.setdefault(fid, set())
            xs = ext.setdefault(fid, set())
            for n in f.walk():
                k = n["k"]
                tgt = None
                if k == "CallExpr":
                    tgt = n.get("callee")
                    if tgt is None:
                        xs.add("<indirect:%s>" % key(n["c"][0]))
                        continue
                elif k == "DeclRefExpr" and n.get("dk") == "Func":
                    # function address taken or called: conservatively an edge
                    tgt = n["n"]
                if tgt is None:
                    continue
                g = self.resolve(f, tgt)
                if g is not None:
                    gid = (g.unit.base, g.name)
                    es.add(gid)
                    sites.setdefault((fid, gid), n["l"])
                else:
                    xs.add(tgt)
                    sites.setdefault((fid, tgt), n["l"])
        self._cg = (edges, ext, sites)
        return self._cg

    def fid(self, f):
        return (f.unit.base, f.name)

    def mods(self, caller, callee_name, _depth=0, _seen=None):
        """Struct field names the callee may store (transitively); None = unknown (treat as everything).
        External libc calls are assumed not to write fields of program structs, except block copies
        into a struct object."""
        if not hasattr(self, "_mods"):
            self._mods = {}
        g = self.resolve(caller, callee_name)
        if g is None:
            return set()
        fid = self.fid(g)
        if fid in self._mods:
            return self._mods[fid]
        _seen = _seen or set()
        if fid in _seen:
            return set()     # recursion: the cycle's other members contribute their own stores
        if _depth > 10:
            return None
        _seen = _seen | {fid}
        out = set()
        for x in g.walk():
            k = x["k"]
            if k == "BinaryOperator" and x["op"] == "=" or k == "CompoundAssignOperator" or \
                    (k == "UnaryOperator" and x["op"] in ("post++", "pre++", "post--", "pre--", "&")):
                l = strip(x["c"][0])
                sub = False
                while l is not None and l["k"] == "ArraySubscriptExpr":
                    l = strip(l["c"][0])
                    sub = True
                if l is not None and l["k"] == "MemberExpr":
                    if k == "UnaryOperator" and x["op"] == "&" and sub:
                        pass     # &X->F[i]: address of an element, the field itself is not stored
                    else:
                        out.add(l["n"])
                elif l is not None and l["k"] == "UnaryOperator" and l["op"] == "*" and k != "UnaryOperator":
                    t = (l.get("t") or "")
                    if "struct" in t or t in self.records:
                        out = None
                        break
            elif k == "CallExpr":
                c = x.get("callee")
                if c is None:
                    out = None
                    break
                if c in ("memset", "memcpy", "memmove"):
                    d = strip(x["c"][1])
                    t = (d.get("t") or "") if d is not None else ""
                    if not (t.replace("const ", "").startswith("char") or t.startswith("void") or t.startswith("unsigned char")
                            or t.startswith("short") or t.startswith("unsigned short")):
                        out = None
                        break
                    continue
                sub = self.mods(g, c, _depth + 1, _seen)
                if sub is None:
                    out = None
                    break
                out |= sub
        if _depth == 0 or out is not None:
            self._mods[fid] = out
        return out

    def by_fid(self, fid):
        return self.units[fid[0]].funcs[fid[1]]

    def reach(self, roots, stop=()):
        """BFS over the call graph from root fids; returns {fid: predecessor fid or None}."""
        edges, _, _ = self.callgraph()
        pred = {}
        q = []
        for r in roots:
            if r not in pred:
                pred[r] = None
                q.append(r)
        i = 0
        while i < len(q):
            x = q[i]
            i += 1
            for y in sorted(edges.get(x, ())):
                if y in pred or y in stop or y[1] in stop:
                    continue
                pred[y] = x
                q.append(y)
        return pred

    @staticmethod
    def chain(pred, fid):
        out = []
        while fid is not None:
            out.append(fid)
            fid = pred.get(fid)
        return list(reversed(out))

    def sccs(self):
        edges, _, _ = self.callgraph()
        index = {}
        low = {}
        onst = set()
        st = []
        out = []
        counter = [0]
        for root in sorted(edges):
            if root in index:
                continue
            work = [(root, iter(sorted(edges.get(root, ()))))]
            index[root] = low[root] = counter[0]
            counter[0] += 1
            st.append(root)
            onst.add(root)
            while work:
                v, it = work[-1]
                adv = False
                for w in it:
                    if w not in index:
                        index[w] = low[w] = counter[0]
                        counter[0] += 1
                        st.append(w)
                        onst.add(w)
                        work.append((w, iter(sorted(edges.get(w, ())))))
                        adv = True
                        break
                    elif w in onst:
                        low[v] = min(low[v], index[w])
                if adv:
                    continue
                work.pop()
                if work:
                    u = work[-1][0]
                    low[u] = min(low[u], low[v])
                if low[v] == index[v]:
                    comp = []
                    while True:
                        w = st.pop()
                        onst.discard(w)
                        comp.append(w)
                        if w == v:
                            break
                    if len(comp) > 1 or v in edges.get(v, ()):
                        out.append(sorted(comp))
        return out


# ---------------------------------------------------------------------------
# EDPE: enum-dispatch partial evaluation

def _eval_num(e, dk, v, depth=0):
    """Integer value of an expression whose only non-constant leaf is the dispatch expression (== v); else None.
    Casts are value-preserving except to unsigned char / unsigned int (reduced modulo the type)."""
    if e is None or depth > 12:
        return None
    cv = const_value(e)
    if cv is not None:
        return cv
    k = e["k"]
    if k in ("ParenExpr", "ConstantExpr"):
        return _eval_num(e["c"][0], dk, v, depth + 1) if e.get("c") else None
    if key(e) in dk:
        return v
    if k in ("ImplicitCastExpr", "CStyleCastExpr"):
        x = _eval_num(e["c"][0], dk, v, depth + 1) if e.get("c") else None
        if x is None:
            return None
        t = (e.get("t") or "").replace("const ", "").strip()
        if t == "unsigned char":
            return x & 0xff
        if t in ("unsigned int", "unsigned"):
            return x & 0xffffffff
        if t in ("unsigned long", "size_t", "unsigned long long"):
            return x & 0xffffffffffffffff
        return x
    if k == "BinaryOperator" and e["op"] in ("&", "|", "^", "+", "-", "*", "<<", ">>"):
        a, b = _eval_num(e["c"][0], dk, v, depth + 1), _eval_num(e["c"][1], dk, v, depth + 1)
        if a is None or b is None:
            return None
        try:
            return {"&": a & b, "|": a | b, "^": a ^ b, "+": a + b, "-": a - b, "*": a * b,
                    "<<": a << b if 0 <= b < 64 else None, ">>": a >> b if 0 <= b < 64 else None}[e["op"]]
        except (ValueError, TypeError):
            return None
    if k == "UnaryOperator" and e["op"] in ("-", "~", "+"):
        a = _eval_num(e["c"][0], dk, v, depth + 1)
        if a is None:
            return None
        return {"-": -a, "~": ~a, "+": a}[e["op"]]
    return None


def _cmp_decide(n, dkey, v, consts=None):
    """Decide a condition expression for dispatch key == v.  Returns True/False/None."""
    n = strip(n)
    if n is None:
        return None
    k = n["k"]
    if k == "BinaryOperator":
        op = n["op"]
        a, b = n["c"]
        if op in ("==", "!=", "<", ">", "<=", ">="):
            dk0 = dkey if isinstance(dkey, (set, frozenset)) else {dkey}
            if True:
                # sides that are expressions over the dispatch value, e.g. `(int) c == ((int) c & 127)`, `(c & 0xC0) == 0x80`
                mentions = any(key(x) in dk0 for x in walk(a)) or any(key(x) in dk0 for x in walk(b))
                if mentions:
                    ea, eb = _eval_num(a, dk0, v), _eval_num(b, dk0, v)
                    if ea is not None and eb is not None:
                        return {"==": ea == eb, "!=": ea != eb, "<": ea < eb, ">": ea > eb, "<=": ea <= eb, ">=": ea >= eb}[op]
            ka, kb = key(a), key(b)
            ca, cb = const_value(a), const_value(b)
            lhs = rhs = None
            dk = dkey if isinstance(dkey, (set, frozenset)) else {dkey}
            if ka in dk and cb is not None:
                lhs, rhs = v, cb
            elif kb in dk and ca is not None:
                lhs, rhs = ca, v
            if lhs is None:
                return None
            return {"==": lhs == rhs, "!=": lhs != rhs, "<": lhs < rhs, ">": lhs > rhs,
                    "<=": lhs <= rhs, ">=": lhs >= rhs}[op]
        if op == "&&":
            x, y = _cmp_decide(a, dkey, v), _cmp_decide(b, dkey, v)
            if x is False or y is False:
                return False
            if x is True and y is True:
                return True
            return None
        if op == "||":
            x, y = _cmp_decide(a, dkey, v), _cmp_decide(b, dkey, v)
            if x is True or y is True:
                return True
            if x is False and y is False:
                return False
            return None
    if k == "UnaryOperator" and n["op"] == "!":
        x = _cmp_decide(n["c"][0], dkey, v)
        return None if x is None else (not x)
    return None


_helper_truth_cache = {}
_helper_truth_busy = set()


def _helper_truth(h, pname, v):
    """Truth value returned by helper h when its parameter pname == v, if every return statement reachable for that value
    (EDPE inside h) yields the same decided truth value; else None.  h must not reassign the parameter."""
    k = (id(h), pname, v)
    if k in _helper_truth_cache:
        return _helper_truth_cache[k]
    if (id(h), pname) in _helper_truth_busy:
        return None
    if pname in assigned_keys(h):
        _helper_truth_cache[k] = None
        return None
    _helper_truth_busy.add((id(h), pname))
    try:
        captured = []
        blocks = edpe_blocks(h, pname, v, extra_decide=lambda t: None, decide_out=captured)
        dec = captured[0]
        vals = set()
        for n in block_nodes(h, blocks):
            if n["k"] == "ReturnStmt":
                if not n.get("c") or n["c"][0] is None:
                    vals.add(None)
                    continue
                cv = const_value(n["c"][0])
                if cv is not None:
                    vals.add(bool(cv))
                else:
                    vals.add(dec(n["c"][0]))
        res = None
        if vals and None not in vals and len(vals) == 1:
            res = vals.pop()
    finally:
        _helper_truth_busy.discard((id(h), pname))
    _helper_truth_cache[k] = res
    return res


def edpe_blocks(f, dkey, v, extra_decide=None, start=None, blocked=(), edges_out=None, decide_out=None):
    """Blocks of f reachable when every branch on `dkey` is decided for value v.
    Branches on anything else are explored both ways.  dkey is a key() string such
    as 't->type'.  Sound over-approximation provided dkey is not reassigned on the
    way (callers check that with assigned_keys())."""
    cfg = f.cfg
    nodes = f.nodes
    # locals that merely hold the dispatch value (`unsigned short type = t->type;`) dispatch like it
    aliases = {dkey}
    sal = single_assignment_locals(f)
    for nm, init in sal.items():
        if key(init) == dkey:
            aliases.add(nm)
    # boolean locals computed once from the dispatch value (`bool is_ascii = (code == (code & 127));`) decide like their
    # initialiser
    bool_alias = {}
    for nm, init in sal.items():
        si = strip(init)
        if si is not None and si["k"] == "BinaryOperator" and si["op"] in ("==", "!=", "<", ">", "<=", ">=", "&&", "||") and \
                any(key(x) in aliases for x in walk(si)):
            bool_alias[nm] = si
    user_extra = extra_decide

    def extra_decide(tested, _u=user_extra, depth=0):      # noqa: F811
        """Three-valued value of a (sub)condition: !, && and || are evaluated from their operands (operands are pure, so a
        merged `a && b` value in a join block can be recomputed), boolean locals computed once from the dispatch value
        decide like their initialiser, everything else goes to _cmp_decide and then to the caller's extra_decide."""
        t = strip(tested)
        if t is None or depth > 8:
            return None
        if t["k"] == "UnaryOperator" and t["op"] == "!":
            r = extra_decide(t["c"][0], _u, depth + 1)
            return None if r is None else not r
        if t["k"] == "BinaryOperator" and t["op"] in ("&&", "||"):
            x, y = extra_decide(t["c"][0], _u, depth + 1), extra_decide(t["c"][1], _u, depth + 1)
            if t["op"] == "&&":
                if x is False or y is False:
                    return False
                return True if (x is True and y is True) else None
            if x is True or y is True:
                return True
            return False if (x is False and y is False) else None
        if t["k"] == "DeclRefExpr" and t["n"] in bool_alias:
            d = extra_decide(bool_alias[t["n"]], _u, depth + 1)
            if d is not None:
                return d
        d = _cmp_decide(t, aliases, v)
        if d is not None:
            return d
        if t["k"] == "CallExpr" and t.get("callee") and depth < 6:
            # predicate helper of the same unit applied to the dispatch value: `is_header_type(t->type)`
            h = f.unit.funcs.get(t["callee"]) if getattr(f, "unit", None) is not None else None
            if h is not None and h is not f:
                hit = [i for i, a in enumerate(t["c"][1:]) if key(a) in aliases]
                if len(hit) == 1 and hit[0] < len(h.params):
                    d = _helper_truth(h, h.params[hit[0]][0], v)
                    if d is not None:
                        return d
        return _u(tested) if _u is not None else None
    if decide_out is not None:
        decide_out.append(extra_decide)
    seen = set()
    st = [cfg.entry if start is None else start]
    while st:
        bid = st.pop()
        if bid in seen:
            continue
        seen.add(bid)
        if bid in blocked:
            continue
        b = cfg.blocks[bid]
        if b.noret:
            # still record the block (it holds the terminating call); no successors
            continue
        succs = None
        if b.term is not None and b.term >= 0:
            t = nodes.get(b.term)
            tk = b.tk
            if tk == "SwitchStmt" and key(t["c"][0]) in aliases:
                target = None
                default = None
                fallout = None
                for s in b.succ:
                    if s is None:
                        continue
                    sb = cfg.blocks[s[0]]
                    lab = nodes.get(sb.label) if sb.label is not None and sb.label >= 0 else None
                    own = False
                    if lab is not None and lab["k"] in ("CaseStmt", "DefaultStmt"):
                        for a in f.ancestors(lab):
                            if a["k"] == "SwitchStmt":
                                own = a["i"] == t["i"]
                                break
                    if own and lab["k"] == "CaseStmt":
                        if lab.get("v") == v:
                            target = s[0]
                    elif own and lab["k"] == "DefaultStmt":
                        default = s[0]
                    else:
                        fallout = s[0]
                if target is None:
                    target = default if default is not None else fallout
                succs = [target] if target is not None else []
            elif tk in ("IfStmt", "ConditionalOperator", "BinaryOperator", "WhileStmt", "ForStmt", "DoStmt"):
                cond = None
                if tk == "BinaryOperator":
                    cond = t["c"][0]
                elif tk == "IfStmt" or tk == "WhileStmt" or tk == "ConditionalOperator":
                    cond = t["c"][0]
                elif tk == "ForStmt":
                    cond = t["c"][1]
                elif tk == "DoStmt":
                    cond = t["c"][1]
                d = None
                if cond is not None:
                    # the block's own last element is the (sub)condition actually tested here
                    last = nodes.get(b.el[-1]) if b.el else None
                    tested = last if last is not None else cond
                    d = _cmp_decide(tested, aliases, v)
                    if d is None and extra_decide is not None:
                        d = extra_decide(tested)
                if d is not None and len(b.succ) == 2:
                    s = b.succ[0 if d else 1]
                    succs = [s[0]] if s is not None and s[1] else []
        if succs is None:
            succs = b.rsucc
        if edges_out is not None:
            for s2 in succs:
                edges_out.add((bid, s2))
        st.extend(succs)
    return seen


def tok_param(f):
    """Name of the function's token parameter (the thing dispatchers switch on), by type not by spelling."""
    for p in f.params:
        if re.match(r"^(struct )?token \*$", p[1].strip()):
            return p[0]
    return "t"


def tok_dkey(f):
    return tok_param(f) + "->type"


def block_nodes(f, blocks):
    """All AST nodes that are CFG elements of the given blocks, in block order."""
    nodes = f.nodes
    for bid in sorted(blocks, reverse=True):
        for e in f.cfg.blocks[bid].el:
            if e >= 0:
                n = nodes.get(e)
                if n is not None:
                    yield n


def assigned_keys(f):
    """Set of key() strings that are assigned (=, op=, ++, --) or whose address is taken in f."""
    out = set()
    for n in f.walk():
        k = n["k"]
        if k == "BinaryOperator" and n["op"] == "=" or k == "CompoundAssignOperator":
            out.add(key(n["c"][0]))
        elif k == "UnaryOperator" and (n["op"] in ("post++", "post--", "pre++", "pre--")):
            out.add(key(n["c"][0]))
        elif k == "UnaryOperator" and n["op"] == "&":
            out.add(key(n["c"][0]))
    return out


def reaching_defs(f, name, at):
    """Right-hand sides of the plain assignments / initialisers of local `name` that can reach statement `at` with no other
    definition of it in between (CFG reachability).  None when the local is also changed in another way (op=, ++, its address
    taken) or when `at` has no CFG position."""
    pos = f.cfg.positions()

    def stmt_of(n):
        z = n
        while z is not None and z.get("i") not in pos:
            z = f.parent(z)
        return z
    defs = []
    for x in f.walk():
        k = x["k"]
        if k == "BinaryOperator" and x["op"] == "=" and key(x["c"][0]) == name:
            defs.append((x, x["c"][1]))
        elif k == "VarDecl" and x.get("n") == name and x.get("c") and x["c"][0] is not None:
            defs.append((x, x["c"][0]))
        elif k == "CompoundAssignOperator" and key(x["c"][0]) == name:
            return None
        elif k == "UnaryOperator" and x["op"] in ("post++", "post--", "pre++", "pre--", "&") and key(x["c"][0]) == name:
            return None
    sa = stmt_of(at)
    if sa is None:
        return None
    bb, bi = pos[sa["i"]]
    where = []
    for d, rhs in defs:
        sd = stmt_of(d)
        if sd is None:
            return None
        where.append((pos[sd["i"]], rhs))
    cut = {}
    for (b, i), _ in where:
        cut.setdefault(b, []).append(i)
    out = []
    for (ab, ai), rhs in where:
        ok = False
        if ab == bb and ai < bi and not any(ai < ci < bi for ci in cut[ab]):
            ok = True
        elif not any(ci > ai for ci in cut[ab]):
            seen, st = set(), list(f.cfg.blocks[ab].rsucc)
            while st and not ok:
                x = st.pop()
                if x in seen:
                    continue
                seen.add(x)
                cs = cut.get(x, ())
                if x == bb and not any(ci < bi for ci in cs):
                    ok = True
                    break
                if cs:
                    continue
                st.extend(f.cfg.blocks[x].rsucc)
        if ok:
            out.append(rhs)
    return out
