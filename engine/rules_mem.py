"""Memory rules for C01 (shared with C13, C15): R-TYPEWRITE, R-ARRAY, R-LOOKBEHIND."""
import re

from . import compdb
from .prog import AnalysisBroken, key, strip, strip_parens, walk, const_value, resolve_key
from .origins import Origins
from .ub1 import UB1, INF, type_range

# Units whose array indexing does not depend on any input (verbatim third-party numeric code).
ARRAY_SKIP_UNITS = {
    "rng.c": "Knuth's ran_array, verbatim: every loop bound and index is a compile-time constant expression of KK/LL; "
             "no value derived from input reaches an index",
}

# (function, array key) -> reason: reviewed sites whose bound is an API precondition, not an input property
ARRAY_REVIEWED = {
    ("Translate", "lc_lookup"): "index = string id * 7 + language; language is the API's `short language` parameter, which the "
                                "property's quantifier restricts to the 7 enumerated languages",
    ("TranslateTest", "lc_lookup"): "debug helper, same table",
}

# Reviewed facts handed to the interval analysis: function -> {expression key: (lo, hi)} + reason
ASSUME = {
    "mmd_transclude_source": ({"(stop-start)": (2, INF)},
                              "start points at \"{{\" and stop = strstr(start, \"}}\") is non-NULL here, so stop >= start + 2 "
                              "(the needle cannot match where the haystack has '{'); the upper bound is NOT assumed"),
}

_inv_cache = {}


def type_field_invariant(P, chk=None, rid="R-TYPEWRITE"):
    """R-TYPEWRITE: every value that can flow into token.type is a compile-time constant below
    kMaxTokenTypes (enumerator, parser terminal, family arithmetic on them), a copy of another
    token's type, or comes through parameters / table fields whose every source is one of those."""
    ck = id(P)
    if ck not in _inv_cache:
        O = Origins(P)
        vals = set()
        n = 0
        for f in P.all_funcs:
            if not P.first_party(f):
                continue
            for x in f.walk():
                if x["k"] == "BinaryOperator" and x["op"] == "=":
                    l = strip(x["c"][0])
                    if l["k"] == "MemberExpr" and l["n"] == "type" and l.get("rec") == "token":
                        n += 1
                        vals |= O.of(x["c"][1], f)
        # compound assignment / ++ on a token's type: bounded by the interval analysis at that point;
        # address-of: not covered
        bad = []
        for f in P.all_funcs:
            if not P.first_party(f):
                continue
            u = None
            for x in f.walk():
                if x["k"] in ("CompoundAssignOperator", "UnaryOperator"):
                    if x["k"] == "UnaryOperator" and x["op"] not in ("post++", "pre++", "post--", "pre--", "&"):
                        continue
                    l = strip(x["c"][0])
                    if l is None or l["k"] != "MemberExpr" or l["n"] != "type" or l.get("rec") != "token":
                        continue
                    n += 1
                    if x["k"] == "UnaryOperator" and x["op"] == "&":
                        bad.append((f.where(x), "address of token.type taken"))
                        continue
                    if u is None:
                        u = UB1(f)
                    cur = u.interval_at(l, at=x)
                    if x["k"] == "CompoundAssignOperator":
                        rhs = u.interval_at(x["c"][1], at=x)
                        res = UB1._arith(x["op"][:-1], cur, rhs) if cur and rhs else (-INF, INF)
                    else:
                        d = 1 if "++" in x["op"] else -1
                        res = (cur[0] + d, cur[1] + d) if cur else (-INF, INF)
                    if res[0] < 0 or res[1] > 4096:
                        bad.append((f.where(x), "token.type modified by %s with unbounded result" % x.get("op")))
                    else:
                        vals.update((int(res[0]), int(res[1])))
        _inv_cache[ck] = (vals, n, sorted(set(O.unknown)) + bad)
    vals, n, unknown = _inv_cache[ck]
    kmax = None
    tp = P.records.get("token_pair_engine")
    if tp:
        for fl in tp["fields"]:
            if fl[0] == "can_open_pair":
                kmax = fl[2]
    if kmax is None:
        raise AnalysisBroken("token_pair_engine.can_open_pair[kMaxTokenTypes] not found")
    if chk is not None:
        chk.rule(rid, "every value stored into token.type is a constant below kMaxTokenTypes or a copy (origin analysis)")
        chk.obl[rid][0] += n
        chk.obl[rid][1] += n
        chk.floor(rid, n, 150, "stores into token.type")
        for where, why in unknown:
            chk.obl[rid][1] -= 1
            chk.violation(rid, "typewrite:%s" % why, where, "a value of unknown origin can reach token.type (%s): the "
                          "type-indexed tables (size kMaxTokenTypes) and the writers' dispatch rely on it being a known type" % why)
        ok = bool(vals) and max(vals) < kmax and min(vals) >= 0
        chk.obligation(rid, "all %d constants that can reach token.type lie in [0, %d); kMaxTokenTypes = %d" % (
            len(vals), max(vals) + 1 if vals else 0, kmax), ok)
        if not ok:
            chk.violation(rid, "typewrite:range", "token_pairs.h", "token type value %s does not fit the type-indexed tables "
                          "of size kMaxTokenTypes = %d" % (max(vals) if vals else None, kmax))
    if unknown or not vals:
        return None, kmax
    return (min(vals), max(vals)), kmax


class FieldInv:
    """Lazily computed whole-program range of an integer struct field: the hull of every value stored
    into it (each evaluated by UB1 at the store).  None if the field is also modified arithmetically,
    has its address taken, or has no store.  Sound only together with R-INIT (no read of a never
    initialised field)."""

    def __init__(self, P, base=None):
        self.P = P
        self.memo = dict(base or {})
        self.busy = set()
        self._stores = None
        self.used = {}

    def _index(self):
        st, bad = {}, set()
        for f in self.P.all_funcs:
            if not self.P.first_party(f):
                continue
            for x in f.walk():
                k = x["k"]
                if k == "BinaryOperator" and x["op"] == "=":
                    l = strip(x["c"][0])
                    if l is not None and l["k"] == "MemberExpr" and l.get("rec"):
                        st.setdefault((l["rec"], l["n"]), []).append((f, x))
                elif k == "CompoundAssignOperator" or (k == "UnaryOperator" and x["op"] in ("post++", "pre++", "post--", "pre--", "&")):
                    l = strip(x["c"][0])
                    if l is not None and l["k"] == "MemberExpr" and l.get("rec"):
                        bad.add((l["rec"], l["n"]))
        self._stores, self._bad = st, bad

    def get(self, rf, default=None):
        if rf in self.memo:
            return self.memo[rf] if self.memo[rf] is not None else default
        if rf in self.busy:
            return default
        if self._stores is None:
            self._index()
        if rf in self._bad or rf not in self._stores or len(self._stores[rf]) > 12:
            self.memo[rf] = None
            return default
        self.busy.add(rf)
        lo, hi = INF, -INF
        for f, x in self._stores[rf]:
            u = shared_ub1(self.P, f, self)
            iv = u.interval_at(x["c"][1], at=x)
            if iv is None:
                continue
            lo, hi = min(lo, iv[0]), max(hi, iv[1])
        self.busy.discard(rf)
        res = (lo, hi) if lo <= hi else None
        self.memo[rf] = res
        if res is not None:
            self.used[rf] = (res, ["%s %s" % (f.where(x), f.name) for f, x in self._stores[rf]])
        return res if res is not None else default


def _array_of(n):
    """For an ArraySubscriptExpr: (array expr node, element count or None, is_vla)."""
    b = n["c"][0]
    x = b
    while x is not None and x["k"] in ("ParenExpr", "ImplicitCastExpr", "CStyleCastExpr"):
        if x["k"] == "ImplicitCastExpr" and x.get("ck") == "ArrayToPointerDecay":
            inner = x["c"][0]
            return inner, inner.get("asz"), bool(inner.get("vla"))
        x = x["c"][0]
    return None, None, False


def first_party_logic(P, f):
    return P.first_party(f) and f.unit.base not in compdb.GENERATED_UNITS


def r_array(P, chk, only_units=None):
    rid = "R-ARRAY"
    chk.rule(rid, "every index into a fixed-size array, and every length copied into one, is bounded on all CFG paths "
                  "(interval analysis UB1 with branch refinement and threshold widening)")
    inv, kmax = type_field_invariant(P, chk)
    field_inv = FieldInv(P, {("token", "type"): inv} if inv is not None else None)
    n_sites = 0
    n_trivial = 0
    ubs = {}

    def ub(f):
        if f not in ubs:
            a = ASSUME.get(f.name)
            if a:
                note = "R-ARRAY assumes in %s: %s (%s)" % (f.name, a[0], a[1])
                if note not in chk.notes:
                    chk.notes.append(note)
            ubs[f] = UB1(f, field_inv, assume=a[0]) if a else shared_ub1(P, f, field_inv)
        return ubs[f]

    O = Origins(P, copy_field=("token", "type"))

    def by_origin(f, idx):
        """Constants that can flow into a parameter / local used as index (whole-program origin analysis)."""
        s = strip(idx)
        if s is None or s["k"] != "DeclRefExpr" or s.get("dk") not in ("Var", "Parm"):
            return None
        before = len(O.unknown)
        vals = O.of(s, f)
        if len(O.unknown) != before:
            del O.unknown[before:]
            return None
        if inv is not None:
            vals = set(vals) | set(inv)      # copies of token types
        return (min(vals), max(vals)) if vals else None

    for note_unit, why in ARRAY_SKIP_UNITS.items():
        chk.notes.append("R-ARRAY skips %s: %s" % (note_unit, why))
    for f in P.all_funcs:
        if not first_party_logic(P, f) or f.unit.base in ARRAY_SKIP_UNITS:
            continue
        if f.file.endswith("uthash.h"):
            continue
        if only_units is not None and f.unit.base not in only_units:
            continue
        for n in f.walk():
            if n["k"] == "ArraySubscriptExpr":
                arr, size, vla = _array_of(n)
                if arr is None or (size is None and not vla):
                    continue
                idx = n["c"][1]
                cv = const_value(idx)
                akey = key(arr)
                if cv is not None and size is not None:
                    n_trivial += 1
                    ok = 0 <= cv < size
                    if not ok:
                        chk.violation(rid, "%s:%s:%s[%d]" % (f.base, f.name, akey, cv), f.where(n),
                                      "constant index %d outside %s[%d]" % (cv, akey, size))
                    continue
                n_sites += 1
                iv = ub(f).interval_at(idx, at=n)
                desc = "%s %s: %s[%s]" % (f.where(n), f.name, akey, key(idx))
                if iv is None:
                    chk.obligation(rid, desc + " unreachable", True, nontrivial=False)
                    continue
                if size is not None and iv[0] >= 0 and iv[1] <= size - 1:
                    chk.obligation(rid, desc + " in [%s,%s] < %d" % (iv[0], iv[1], size), True)
                    continue
                if vla and iv[0] >= 0:
                    # symbolic bound: index < declared size expression
                    szk = _vla_size_key(f, arr)
                    if szk and ub(f).rel_less(key(idx), szk, n):
                        chk.obligation(rid, desc + " < VLA size %s (relational guard)" % szk, True)
                        continue
                if size is not None:
                    ov = by_origin(f, idx)
                    if ov is not None and ov[0] >= 0 and ov[1] <= size - 1:
                        chk.obligation(rid, desc + ": every value reaching `%s` is a constant in [%d,%d] < %d (origin analysis "
                                       "over all call sites / table stores)" % (key(idx), ov[0], ov[1], size), True)
                        continue
                if size is not None:
                    sent = _sentinel_scan(P, f, n, arr, idx, size)
                    if sent:
                        chk.obligation(rid, desc + ": " + sent, True)
                        continue
                rev = ARRAY_REVIEWED.get((f.name, akey.split("->")[-1]))
                if rev:
                    chk.obligation(rid, desc + " reviewed: " + rev, True)
                    note = "R-ARRAY reviewed %s %s: %s" % (f.name, akey, rev)
                    if note not in chk.notes:
                        chk.notes.append(note)
                    continue
                chk.obligation(rid, desc, False)
                mode = "write" if _is_store_target(f, n) else "read"
                chk.violation(rid, "%s:%s:%s[%s]:%s" % (f.base, f.name, akey, key(idx), mode), f.where(n),
                              "index `%s` into %s[%s] is not bounded on every path: derived range [%s, %s] (%s)" % (
                                  f.src(idx), akey, size if size is not None else "VLA", _fmt(iv[0]), _fmt(iv[1]), mode),
                              {"interval": [_fmt(iv[0]), _fmt(iv[1])], "size": size})
            elif n["k"] == "CallExpr" and n.get("callee") in COPY_FUNCS:
                r = _check_copy(P, f, n, ub, chk, rid)
                if r:
                    n_sites += 1
            elif n["k"] == "CallExpr" and n.get("callee"):
                # a fixed-size array handed to a first-party function: what that function does with the pointer must stay inside
                h = P.resolve(f, n["callee"])
                if h is None or not first_party_logic(P, h) or h.unit.base in ARRAY_SKIP_UNITS:
                    continue
                for ai, a in enumerate(n["c"][1:]):
                    x = a
                    while x is not None and x["k"] in ("ParenExpr", "CStyleCastExpr"):
                        x = x["c"][0]
                    if x is None or x["k"] != "ImplicitCastExpr" or x.get("ck") != "ArrayToPointerDecay" or not x["c"][0].get("asz") \
                            or ai >= len(h.params):
                        continue
                    size = x["c"][0]["asz"]
                    pn = h.params[ai][0]
                    if "*" not in h.params[ai][1] or "va_list" in h.params[ai][1] or "__va" in h.params[ai][1]:
                        continue
                    hu = None
                    for y in h.walk():
                        if y["k"] != "ArraySubscriptExpr" or key(y["c"][0]) != pn:
                            continue
                        n_sites += 1
                        cv = const_value(y["c"][1])
                        if cv is not None:
                            okp = 0 <= cv < size
                            iv = (cv, cv)
                        else:
                            if hu is None:
                                pc = {}
                                hu = UB1(h, field_inv, assume=dict(param_ranges(P, h, field_inv, pc)))
                            iv = hu.interval_at(y["c"][1], at=y)
                            okp = iv is None or (iv[0] >= 0 and iv[1] <= size - 1)
                        chk.obligation(rid, "%s %s: %s[%s] on the %d-element array %s passes as `%s`" % (
                            h.where(y), h.name, pn, key(y["c"][1]), size, f.name, key(x["c"][0])), okp, sample=False)
                        if not okp:
                            chk.violation(rid, "%s:%s:%s[%s]:callee" % (h.base, h.name, pn, key(y["c"][1])), h.where(y),
                                          "%s indexes its parameter `%s` with `%s` (range [%s, %s]), but %s passes the %d-element array "
                                          "`%s` for it" % (h.name, pn, h.src(y["c"][1]), _fmt(iv[0]), _fmt(iv[1]), f.name, size, key(x["c"][0])))
    for rf, (res, where) in sorted(field_inv.used.items()):
        if res[1] < 2 ** 15:
            chk.notes.append("R-ARRAY field invariant %s.%s in [%s,%s] from its %d stores: %s" % (
                rf[0], rf[1], _fmt(res[0]), _fmt(res[1]), len(where), "; ".join(where)))
    chk.analysed[rid] = {"non_constant_index_sites_and_copies": n_sites, "constant_index_sites": n_trivial,
                         "token_type_range": list(inv) if inv else None, "kMaxTokenTypes": kmax}
    chk.floor(rid, n_sites, 50 if only_units is None else 2, "array index / copy sites with a non-constant index or length")


def _sentinel_scan(P, f, n, arr, idx, size):
    """`for (i = 0; tab[i] != NULL; ++i) .. tab[i] ..` over an immutable file-scope table whose initialiser contains a null /
    zero element: i starts at 0, advances by one only after tab[i] was seen non-null, so it never passes the first null."""
    from .prog import edpe_blocks
    a = strip(arr)
    i = strip(idx)
    if a is None or i is None or a["k"] != "DeclRefExpr" or i["k"] != "DeclRefExpr" or i.get("dk") != "Var":
        return None
    var = None
    for u in P.units.values():
        for v in u.vars:
            if v.get("name") == a["n"] and v.get("def") and isinstance(v.get("init"), list):
                var = v
    if var is None:
        return None
    t = var.get("type") or ""
    if not (re.search(r"const\s*\[", t) or (t.startswith("const ") and "*" not in t)):
        return None
    init = var["init"]
    has_null = len(init) < size or any(c == 0 or (isinstance(c, dict) and c.get("null")) for c in init)
    if not has_null:
        return None
    nm = i["n"]
    incs, others = [], []
    for x in f.walk():
        k = x["k"]
        if k == "UnaryOperator" and key(x["c"][0]) == nm:
            if x["op"] in ("post++", "pre++"):
                incs.append(x)
            elif x["op"] in ("post--", "pre--", "&"):
                others.append(x)
        elif k == "CompoundAssignOperator" and key(x["c"][0]) == nm:
            if x["op"] == "+=" and const_value(x["c"][1]) == 1:
                incs.append(x)
            else:
                others.append(x)
        elif k == "BinaryOperator" and x["op"] == "=" and key(x["c"][0]) == nm and const_value(x["c"][1]) != 0:
            others.append(x)
        elif k == "VarDecl" and x.get("n") == nm and (not x.get("c") or x["c"][0] is None or const_value(x["c"][0]) != 0):
            others.append(x)
    if others or len(incs) != 1:
        return None

    def is_elem(e):
        e = strip(e)
        return e is not None and e["k"] == "ArraySubscriptExpr" and key(e["c"][0]) == a["n"] and key(e["c"][1]) == nm

    def is_null(e):
        return const_value(e) == 0 or key(e) in ("NULL", "0")
    tests = []
    for w in f.walk():
        if w["k"] not in ("ForStmt", "WhileStmt"):
            continue
        cond = w["c"][1] if w["k"] == "ForStmt" else w["c"][0]
        st = [cond]
        while st:
            c = strip(st.pop())
            if c is None:
                continue
            if c["k"] == "BinaryOperator" and c["op"] == "&&":
                st += c["c"]
            elif c["k"] == "BinaryOperator" and c["op"] == "!=" and ((is_elem(c["c"][0]) and is_null(c["c"][1])) or (is_elem(c["c"][1]) and is_null(c["c"][0]))):
                tests.append((w, c))
            elif is_elem(c):
                tests.append((w, c))
    if len(tests) != 1:
        return None
    loop, T = tests[0]
    # the single increment belongs to this loop and to no inner one
    inner = None
    for anc in f.ancestors(incs[0]):
        if anc["k"] in ("ForStmt", "WhileStmt", "DoStmt"):
            inner = anc
            break
    if inner is not loop:
        return None

    def decide(t):
        t = strip(t)
        if t is not None and t.get("i") == T.get("i"):
            return False
        return None
    dead = edpe_blocks(f, "?none", 0, extra_decide=decide)
    pos = f.cfg.positions()

    def stmt_of(z):
        while z is not None and z.get("i") not in pos:
            z = f.parent(z)
        return z
    si, sn, sT = stmt_of(incs[0]), stmt_of(n), stmt_of(T)
    if si is None or sn is None or sT is None:
        return None
    if pos[si["i"]][0] in dead:
        return None          # the increment can run without the test having succeeded
    in_test = any(y is n for y in walk(T))
    if not in_test:
        if pos[sn["i"]][0] in dead:
            return None
        if _reaches(f, pos, si, sn, [sT]):
            return None      # i may have advanced since the test
    return "sentinel scan: %s is an immutable table with a null element, `%s` starts at 0 and is advanced by one only after " \
           "`%s` succeeded, so it never passes the first null (< %d)" % (a["n"], nm, f.src(T), size)


def _fmt(x):
    if x == INF:
        return "+inf"
    if x == -INF:
        return "-inf"
    return x


def _is_store_target(f, n):
    p = f.parent(n)
    while p is not None and p["k"] in ("ParenExpr",):
        n, p = p, f.parent(p)
    if p is None:
        return False
    if (p["k"] == "BinaryOperator" and p["op"] == "=" or p["k"] == "CompoundAssignOperator") and p["c"][0] is n:
        return True
    if p["k"] == "UnaryOperator" and p["op"] in ("post++", "pre++", "post--", "pre--"):
        return True
    return False


def _vla_size_key(f, arr):
    s = strip(arr)
    if s is None or s["k"] != "DeclRefExpr":
        return None
    m = re.search(r"\[(.+)\]", s.get("t", ""))
    for v in f.walk():
        if v["k"] == "VarDecl" and v.get("did") == s.get("did"):
            m = re.search(r"\[([A-Za-z_][A-Za-z0-9_]*)\]", v.get("t", ""))
            return m.group(1) if m else None
    return None


# callee -> (dest arg index, how the byte length is given)
COPY_FUNCS = {
    "memcpy": (0, ("arg", 2)), "memmove": (0, ("arg", 2)), "memset": (0, ("arg", 2)), "strncpy": (0, ("arg", 2)),
    "strncat": (0, ("strncat", 2)), "strcpy": (0, ("strlen+1", 1)), "strcat": (0, ("unbounded", 1)),
    "sprintf": (0, ("unbounded", 1)), "vsprintf": (0, ("unbounded", 1)), "snprintf": (0, ("arg", 1)),
    "vsnprintf": (0, ("arg", 1)), "fread": (0, ("mul", 1, 2)), "getcwd": (0, ("arg", 1)), "fgets": (0, ("arg", 1)),
    "realpath": (1, ("pathmax", 0)),
}


def _dest_capacity(arg):
    """(array key, capacity in bytes, constant byte offset) if the destination is a fixed array
    (`arr`, `&arr[k]`, `arr + k`), else None."""
    x = arg
    while x is not None and x["k"] in ("ParenExpr", "CStyleCastExpr", "ImplicitCastExpr"):
        if x["k"] == "ImplicitCastExpr" and x.get("ck") == "ArrayToPointerDecay":
            inner = x["c"][0]
            if inner.get("asb") is not None:
                return key(inner), inner["asb"], 0, inner
            return None
        x = x["c"][0]
    if x is None:
        return None
    if x["k"] == "UnaryOperator" and x["op"] == "&":
        s = strip_parens(x["c"][0])
        if s is not None and s["k"] == "ArraySubscriptExpr":
            arr, size, vla = _array_of(s)
            if arr is not None and arr.get("asb") is not None and size:
                esz = arr["asb"] // size
                return key(arr), arr["asb"], ("idx", s["c"][1], esz), arr
    return None


def _check_copy(P, f, n, ub, chk, rid):
    spec = COPY_FUNCS[n["callee"]]
    args = n["c"][1:]
    if spec[0] >= len(args):
        return False
    d = _dest_capacity(args[spec[0]])
    if d is None:
        return False
    akey, cap, off, arr = d
    u = ub(f)
    offhi = 0
    if off:
        iv = u.interval_at(off[1], at=n)
        if iv is None:
            return False
        if iv[0] < 0 or iv[1] == INF:
            offhi = INF
        else:
            offhi = iv[1] * off[2]
    how = spec[1]
    need = None
    if how[0] == "arg":
        iv = u.interval_at(args[how[1]], at=n)
        if iv is None:
            return False
        need = iv[1] if iv[0] >= 0 else INF
    elif how[0] == "mul":
        a, b = u.interval_at(args[how[1]], at=n), u.interval_at(args[how[2]], at=n)
        if a is None or b is None:
            return False
        need = a[1] * b[1] if a[0] >= 0 and b[0] >= 0 else INF
    elif how[0] == "strlen+1":
        s = strip(args[how[1]])
        need = len(s["s"].encode("latin-1", "replace")) + 1 if s is not None and s["k"] == "StringLiteral" else INF
    elif how[0] == "strncat":
        need = INF   # appends after existing content: capacity depends on current length
    elif how[0] == "pathmax":
        need = 4096
    else:
        need = INF
    ok = need != INF and offhi != INF and need + offhi <= cap
    desc = "%s %s: %s(%s, ...) writes at most %s bytes at offset <= %s into %s bytes" % (
        f.where(n), f.name, n["callee"], akey, _fmt(need), _fmt(offhi), cap)
    chk.obligation(rid, desc, ok)
    if not ok:
        chk.violation(rid, "%s:%s:%s(%s)" % (f.base, f.name, n["callee"], akey), f.where(n),
                      "%s() into fixed array %s (%d bytes): length is not bounded by the capacity on every path "
                      "(derived max %s at byte offset <= %s)" % (n["callee"], akey, cap, _fmt(need), _fmt(offhi)))
    return True


# ---------------------------------------------------------------------------
# R-LOOKBEHIND

LOOKBEHIND_REVIEWED = {
    ("traverse_for_images", "t->len-2"):
        "t is a PAIR_PAREN token, which spans both parentheses: len >= 2",
    ("url_accept", "start+scan_len"):
        "every caller passes start >= 1 (t->start + 1 in the three writers; the start of the token that follows the '(' opener "
        "in extract_from_paren), so start + scan_len - 1 >= 0 even when scan_len was clamped to max_len == 0",
    ("trim_trailing_whitespace_d_string", "d->currentStringLength-1"):
        "only the address is formed here; every dereference of c is guarded by `d->currentStringLength &&`",
}


_ub_cache = {}


def shared_ub1(P, f, field_inv):
    k = (id(P), id(f))
    if k not in _ub_cache:
        _ub_cache[k] = UB1(f, field_inv)
    return _ub_cache[k]


def param_ranges(P, f, field_inv, cache):
    """Interval of each integer parameter of a non-public function = hull over all call sites (one level)."""
    if f in cache:
        return cache[f]
    cache[f] = {}
    public = {d["name"] for u in P.units.values() for d in u.fdecls
              if d["file"].rsplit("/", 1)[-1] in ("libMultiMarkdown.h", "token.h", "d_string.h")}
    if f.name in public or f.name == "main":
        return {}
    sites = []
    for g in P.all_funcs:
        if not P.first_party(g):
            continue
        for c in g.calls(f.name):
            if P.resolve(g, f.name) is f:
                sites.append((g, c))
        if g is not f:
            for n in g.walk():
                if n["k"] == "DeclRefExpr" and n.get("dk") == "Func" and n["n"] == f.name:
                    p = g.parent(n)
                    pp = g.parent(p) if p is not None else None
                    if not (pp is not None and pp["k"] == "CallExpr" and pp["c"][0] is p):
                        return {}      # address taken: unknown callers
    if not sites:
        return {}
    out = {}
    ubs = {}
    for i, prm in enumerate(f.params):
        tr = type_range(prm[1])
        if tr == (-INF, INF):
            continue
        lo, hi = INF, -INF
        for g, c in sites:
            args = c["c"][1:]
            if i >= len(args):
                lo, hi = -INF, INF
                break
            iv = shared_ub1(P, g, field_inv).interval_at(args[i], at=c)
            if iv is None:
                continue
            lo, hi = min(lo, iv[0]), max(hi, iv[1])
        if lo <= hi and (lo, hi) != tr:
            out[prm[0]] = UB1.fit((lo, hi), tr)
    cache[f] = out
    return out


_CONV = re.compile(r"%(?:%|[-+ #0]*\d*(?:\.\d+)?(?:hh|h|ll|l|z)?([diouxXcsfgp]))")


def _literal_append(c, dkey_):
    """(minimum expansion length, literal tail after the last conversion) of a call that appends a literal / a format to the
    DString named dkey_; None otherwise."""
    cal = c.get("callee")
    if cal not in ("d_string_append", "d_string_append_printf", "d_string_append_c_array") or len(c["c"]) < 3 or key(c["c"][1]) != dkey_:
        return None
    lit = strip(c["c"][2])
    if lit is None or lit["k"] != "StringLiteral":
        return None
    s_ = lit.get("s") or ""
    if cal != "d_string_append_printf":
        return len(s_), s_
    n, last = 0, 0
    for m in _CONV.finditer(s_):
        n += m.start() - last
        if m.group(0) == "%%":
            n += 1
        elif m.group(1) in "diouxXcfgp":
            n += 1
        last = m.end()
    n += len(s_) - last
    return n, s_[last:]


def _suffix_guards(P, unit):
    """Every way a function of this unit shortens a DString: ("trim",) for the whitespace trimmer, ("erase", n, literal) for
    `d_string_erase(D, D->currentStringLength - n, n)` that runs only after a str(n)cmp of exactly those n bytes with a
    literal.  None if the unit shortens a DString in any other way."""
    from .prog import resolve_key
    out = []
    for f in unit.funcs.values():
        if not P.first_party(f):
            continue
        for x in f.walk():
            if (x["k"] == "BinaryOperator" and x["op"] == "=" or x["k"] == "CompoundAssignOperator" or
                    (x["k"] == "UnaryOperator" and x["op"] in ("post--", "pre--"))) and key(x["c"][0]).endswith("->currentStringLength"):
                return None
            if x["k"] != "CallExpr":
                continue
            cal = x.get("callee")
            if cal == "trim_trailing_whitespace_d_string":
                out.append(("trim",))
            elif cal in ("d_string_erase",):
                d = key(x["c"][1])
                n = const_value(x["c"][3]) if const_value(x["c"][3]) is not None else _const_of(f, x["c"][3])
                posk = _fold(resolve_key(f, x["c"][2]))
                if n is None or posk != "%s->currentStringLength-%d" % (d, n):
                    return None
                lit = None
                for a in f.ancestors(x):
                    if a["k"] != "IfStmt":
                        continue
                    for y in walk(a["c"][0]):
                        if y["k"] == "CallExpr" and y.get("callee") in ("strcmp", "strncmp"):
                            args = y["c"][1:3]
                            ks = [_fold(resolve_key(f, q)) for q in args]
                            want = "&%s->str[%s->currentStringLength-%d]" % (d, d, n)
                            for i2 in (0, 1):
                                if ks[i2] == want:
                                    l2 = _string_of(P, f, args[1 - i2])
                                    if l2 is not None and len(l2) == n:
                                        lit = l2
                    if lit:
                        break
                if lit is None:
                    return None
                out.append(("erase", n, lit))
            elif cal in ("d_string_replace_text_in_range", "d_string_erase_c"):
                return None
    return out


def _fold(k):
    """Fold integer sub-expressions of a key string (`(12-1)` -> `11`) and drop parentheses and blanks."""
    k = k.replace(" ", "")
    for _ in range(8):
        k2 = re.sub(r"\((\d+)([-+*])(\d+)\)", lambda m: str({"-": int(m.group(1)) - int(m.group(3)), "+": int(m.group(1)) + int(m.group(3)),
                                                                  "*": int(m.group(1)) * int(m.group(3))}[m.group(2)]), k)
        k2 = re.sub(r"\((\d+)\)", r"\1", k2)
        if k2 == k:
            break
        k = k2
    return k.replace("(", "").replace(")", "")


def _const_of(f, e):
    from .prog import resolve_key
    try:
        return int(_fold(resolve_key(f, e)))
    except ValueError:
        return None


def _string_of(P, f, e):
    """String literal an expression denotes: a literal, or a (static) const char array initialised with one."""
    s_ = strip(e)
    if s_ is None:
        return None
    if s_["k"] == "StringLiteral":
        return s_.get("s")
    if s_["k"] == "DeclRefExpr":
        for x in f.walk():
            if x["k"] == "VarDecl" and x.get("n") == s_["n"] and x.get("c") and x["c"][0] is not None:
                i2 = strip(x["c"][0])
                if i2 is not None and i2["k"] == "StringLiteral":
                    return i2.get("s")
        for v in f.unit.vars:
            if v.get("name") == s_["n"] and isinstance(v.get("init"), str) and "const" in (v.get("type") or ""):
                return v["init"]
    return None


def _outbuf_anchor(P, f, n, base, idx_key, depth=0):
    """Look-behind `D->str[D->currentStringLength - k]` on an output buffer: a literal of at least k bytes was appended to D
    on every path before (in this function, or - for a static helper - before every call of it), and the unit shortens D only
    by trimming whitespace or by erasing a suffix it has just compared with a literal that cannot overlap the end of that
    anchor literal.  Returns a description, or None."""
    m = re.match(r"^(\w+)->str$", base.replace("(", "").replace(")", ""))
    m2 = re.match(r"^(\w+)->currentStringLength-(\d+)$", _fold(idx_key))
    if not m or not m2 or m.group(1) != m2.group(1):
        return None
    d, k = m.group(1), int(m2.group(2))
    guards = _suffix_guards(P, f.unit)
    if guards is None:
        return None

    def compatible(tail):
        if not tail or tail[-1] in " \t\r\n":
            return False
        for g in guards:
            if g[0] == "erase":
                j = min(len(tail), len(g[2]))
                if tail[-j:] == g[2][-j:]:
                    return False
        return True

    def anchored(g, at, dname):
        for c in g.calls():
            la = _literal_append(c, dname)
            if la and la[0] >= k and compatible(la[1]) and g.cfg.dominates(c["i"], at["i"]):
                return "%s `%s`" % (g.where(c), (strip(c["c"][2]).get("s") or "")[:40])
        return None
    here = anchored(f, n, d)
    if here:
        return "a literal of >= %d bytes (%s) is appended to %s on every path before, and %s only loses trailing whitespace or a " \
               "just-compared literal suffix that cannot overlap it" % (k, here, d, f.unit.base)
    if f.static and depth < 1:
        pi = [i for i, q in enumerate(f.params) if q[0] == d]
        sites = [(g, c) for g in f.unit.funcs.values() if g is not f for c in g.calls(f.name)]
        if pi and sites:
            descs = []
            for g, c in sites:
                if 1 + pi[0] >= len(c["c"]):
                    return None
                a = anchored(g, c, key(c["c"][1 + pi[0]]))
                if not a:
                    return None
                descs.append(a)
            return "every call of %s is preceded on every path by a literal of >= %d bytes appended to its buffer (%s), and %s only " \
                   "loses trailing whitespace or a just-compared literal suffix that cannot overlap it" % (f.name, k, "; ".join(descs[:2]), f.unit.base)
    return None


# Reviewed look-behinds identified by where the string comes from, not by the function or variable that holds it:
# (unit, producer of the string, index shape with the string written `$`, token types under which the site may run) -> reason
LOOKBEHIND_ORIGIN_REVIEWED = {
    ("latex.c", "clean_inside_pair", "strlen($)-1", ("PAIR_BRACKET", "PAIR_BRACKET_CITATION")):
        "the string is the text inside a PAIR_BRACKET_CITATION taken with the closer's length (1), so it starts with the '#' of the "
        "`[#` opener: never empty",
}


def _origin_reviewed(P, f, n, base_node, idx):
    from .prog import resolve_key, reaching_defs, edpe_blocks, tok_dkey
    b = strip(base_node)
    if b is None or b["k"] != "DeclRefExpr" or b.get("dk") != "Var":
        return None
    nrm = lambda x: x.replace("(", "").replace(")", "").replace(" ", "")
    shape = nrm(re.sub(r"\b%s\b" % re.escape(b["n"]), "$", resolve_key(f, idx)))
    for (unit, producer, want, types), reason in LOOKBEHIND_ORIGIN_REVIEWED.items():
        if unit != f.unit.base or shape != nrm(want):
            continue
        defs = reaching_defs(f, b["n"], n)
        if not defs or not all(strip(d_) is not None and strip(d_)["k"] == "CallExpr" and strip(d_).get("callee") == producer for d_ in defs):
            continue
        tt = dict(P.enumerators("token_types"))
        allowed = {tt[x] for x in types if x in tt}

        def types_at(g, node):
            pos = g.cfg.positions()
            z = node
            while z is not None and z.get("i") not in pos:
                z = g.parent(z)
            if z is None:
                return None
            try:
                dk = tok_dkey(g)
            except Exception:
                return None
            if dk is None or not any(x["k"] == "SwitchStmt" and key(x["c"][0]) == dk for x in g.walk()):
                return None
            blk = pos[z["i"]][0]
            return {v for v in tt.values() if blk in edpe_blocks(g, dk, v)}
        ts = types_at(f, n)
        if ts is None and f.static:
            ts = set()
            sites = [(g, c) for g in f.unit.funcs.values() if g is not f for c in g.calls(f.name)]
            for g, c in sites:
                t2 = types_at(g, c)
                if t2 is None:
                    ts = None
                    break
                ts |= t2
            if not sites:
                ts = None
        if ts is not None and ts and ts <= allowed:
            return reason
    return None


def r_lookbehind(P, chk):
    rid = "R-LOOKBEHIND"
    chk.rule(rid, "every index of the form x - k (k >= 1) into a string or pointer is guarded so that x >= k on all paths")
    inv, kmax = type_field_invariant(P)
    field_inv = FieldInv(P, {("token", "type"): inv} if inv is not None else None)
    pcache = {}
    n_sites = 0
    for f in P.all_funcs:
        if not first_party_logic(P, f) or f.unit.base in ARRAY_SKIP_UNITS or f.file.endswith("uthash.h") or f.file.endswith("i18n.h"):
            continue
        u = None
        for n in f.walk():
            if n["k"] != "ArraySubscriptExpr":
                continue
            arr, size, vla = _array_of(n)
            if size is not None or vla:
                continue
            idx = strip(n["c"][1])
            if idx is None:
                continue
            cv = const_value(idx)
            need = None
            if cv is not None:
                if cv >= 0:
                    continue
                need = ("const", cv)
            elif idx["k"] == "BinaryOperator" and idx["op"] == "-" and (const_value(idx["c"][1]) or 0) >= 1:
                need = ("sub", idx["c"][0], const_value(idx["c"][1]))
            else:
                continue
            n_sites += 1
            base = key(n["c"][0])
            ikey = key(idx).strip("()")
            desc = "%s %s: %s[%s]" % (f.where(n), f.name, base, ikey)
            ok = False
            why = ""
            if need[0] == "sub":
                if u is None:
                    assume = dict(param_ranges(P, f, field_inv, pcache))
                    a = ASSUME.get(f.name)
                    if a:
                        assume.update(a[0])
                    u = UB1(f, field_inv, assume=assume)
                iv = u.interval_at(need[1], at=n)
                if iv is None:
                    chk.obligation(rid, desc + " unreachable", True, nontrivial=False)
                    continue
                ok = iv[0] >= need[2]
                why = "`%s` >= %s on every path, needs >= %d" % (key(need[1]), _fmt(iv[0]), need[2])
            rev = None
            if not ok:
                anch = _outbuf_anchor(P, f, n, base, resolve_key(f, idx))
                if anch:
                    chk.obligation(rid, desc + ": " + anch, True)
                    continue
                rev = _origin_reviewed(P, f, n, n["c"][0], idx)
            if not ok and not rev:
                for (fn, sub), reason in LOOKBEHIND_REVIEWED.items():
                    if fn == f.name and sub in ikey:
                        rev = reason
            if ok:
                chk.obligation(rid, desc + ": " + why, True)
            elif rev:
                chk.obligation(rid, desc + " reviewed: " + rev, True)
                note = "R-LOOKBEHIND reviewed %s [%s]: %s" % (f.name, ikey, rev)
                if note not in chk.notes:
                    chk.notes.append(note)
            else:
                chk.obligation(rid, desc, False)
                chk.violation(rid, "%s:%s:%s[%s]" % (f.base, f.name, base, ikey), f.where(n),
                              "look-behind `%s[%s]` is not guarded against position 0 on every path (%s)" % (
                                  base, f.src(n["c"][1]), why or "negative constant index"))
    chk.analysed[rid] = {"look_behind_sites": n_sites}
    chk.floor(rid, n_sites, 30, "look-behind index sites")


# ---------------------------------------------------------------------------
# R-INIT: no read of a never-initialised heap field

INIT_SKIP_RECORDS = {"UT_hash_table", "UT_hash_bucket", "UT_hash_handle", "mz_zip_archive"}
INIT_SKIP_FIELDS = {"_PADDING", "hh"}     # explicit padding; uthash handle (filled by HASH_ADD before any lookup)


def _field_stores_in(f, base_key):
    """Fields of *base_key assigned in f (direct stores, memset/memcpy of the object or of a field)."""
    out = set()
    whole = False
    for x in f.walk():
        if x["k"] == "BinaryOperator" and x["op"] == "=":
            l = strip(x["c"][0])
            while l is not None and l["k"] == "ArraySubscriptExpr":
                l = strip(l["c"][0])
            if l is not None and l["k"] == "MemberExpr" and key(l["c"][0]) == base_key:
                out.add(l["n"])
            elif l is not None and l["k"] == "UnaryOperator" and l["op"] == "*" and key(l["c"][0]) == base_key:
                whole = True      # *p = *other
        elif x["k"] == "CallExpr" and x.get("callee") in ("memset", "memcpy", "memmove"):
            d = strip(x["c"][1])
            if d is not None and key(d) == base_key:
                whole = True
            else:
                while d is not None and d["k"] in ("ArraySubscriptExpr", "UnaryOperator"):
                    d = strip(d["c"][0])
                if d is not None and d["k"] == "MemberExpr" and key(d["c"][0]) == base_key:
                    out.add(d["n"])
    return out, whole


def r_init(P, chk):
    rid = "R-INIT"
    chk.rule(rid, "every field of a malloc'ed first-party record is written by its constructor, or every read of it is "
                  "preceded by a write (same function dominator, or a writer call dominating every call of the reader)")
    ctors = []
    for f in P.all_funcs:
        if not first_party_logic(P, f):
            continue
        for n in f.walk():
            tgt = rhs = ty = None
            if n["k"] == "VarDecl" and n.get("c") and n["c"][0] is not None:
                tgt, rhs, ty = n["n"], n["c"][0], n["t"]
            elif n["k"] == "BinaryOperator" and n["op"] == "=":
                tgt, rhs, ty = key(n["c"][0]), n["c"][1], (strip(n["c"][0]) or {}).get("t")
            if rhs is None:
                continue
            r = strip(rhs)
            if r is None or r["k"] != "CallExpr" or r.get("callee") != "malloc":
                continue
            m = re.match(r"(?:struct )?(\w+) \*$", ty or "")
            if not m or m.group(1) in INIT_SKIP_RECORDS or m.group(1) not in P.records:
                continue
            # malloc(sizeof(T)) only (arrays of T are initialised element-wise elsewhere)
            sz = r["c"][1]
            if const_value(sz) != P.records[m.group(1)].get("size"):
                continue
            ctors.append((f, tgt, m.group(1)))
    chk.floor(rid, len(ctors), 12, "malloc(sizeof(T)) constructors")
    # all field reads / writes program-wide
    reads, writes = {}, {}
    for f in P.all_funcs:
        if not P.first_party(f):
            continue
        for x in f.walk():
            if x["k"] != "MemberExpr" or not x.get("rec"):
                continue
            p = f.parent(x)
            # classify access
            cur, par = x, p
            while par is not None and par["k"] in ("ParenExpr", "ArraySubscriptExpr") and par["c"][0] is cur:
                cur, par = par, f.parent(par)
            while par is not None and par["k"] == "ImplicitCastExpr" and par.get("ck") == "ArrayToPointerDecay":
                cur, par = par, f.parent(par)
                while par is not None and par["k"] in ("ParenExpr", "ArraySubscriptExpr") and par["c"][0] is cur:
                    cur, par = par, f.parent(par)
            is_w = par is not None and par["k"] == "BinaryOperator" and par["op"] == "=" and par["c"][0] is cur
            if is_w:
                writes.setdefault((x["rec"], x["n"]), []).append((f, x))
            elif par is not None and par["k"] == "UnaryOperator" and par["op"] == "&":
                writes.setdefault((x["rec"], x["n"]), []).append((f, x))   # address escapes: may be written
            else:
                reads.setdefault((x["rec"], x["n"]), []).append((f, x))
    callsites = {}
    for g in P.all_funcs:
        for c in g.calls():
            if c.get("callee"):
                callsites.setdefault(c["callee"], []).append((g, c))
    seen_rec = set()
    for f, tgt, rec in ctors:
        fields = [x[0] for x in P.records[rec]["fields"] if x[0] not in INIT_SKIP_FIELDS]
        assigned, whole = _field_stores_in(f, tgt)
        # helpers the constructor hands the object to
        for c in f.calls():
            g = P.resolve(f, c.get("callee")) if c.get("callee") else None
            if g is None:
                continue
            for i, a in enumerate(c["c"][1:]):
                if key(a) == tgt and i < len(g.params):
                    a2, w2 = _field_stores_in(g, g.params[i][0])
                    assigned |= a2
                    whole = whole or w2
        late = [] if whole else [x for x in fields if x not in assigned]
        chk.obligation(rid, "%s %s: constructor of %s initialises %d of %d fields%s" % (
            f.where(), f.name, rec, len(fields) - len(late), len(fields), " (late: %s)" % late if late else ""), True,
            nontrivial=bool(late))
        for fld in late:
            if (rec, fld) in seen_rec:
                continue
            seen_rec.add((rec, fld))
            rs = reads.get((rec, fld), [])
            ws = [(g, x) for g, x in writes.get((rec, fld), []) if g is not f]
            wfuncs = {g.name for g, _ in ws}
            badreads = []
            for g, x in rs:
                # (a) same-function dominating store to the same access path
                ok = any(g2 is g and key(x2) == key(x) and g.cfg.dominates(g.parent(x2)["i"] if "i" in (g.parent(x2) or {}) else -1, x["i"])
                         for g2, x2 in ws)
                if not ok:
                    # (b) every call of the reader is dominated by a call to a writer function
                    cs = callsites.get(g.name, [])
                    ok = bool(cs) and all(any(d.get("callee") in wfuncs and h.cfg.dominates(d["i"], c["i"]) for d in h.calls())
                                          for h, c in cs)
                if not ok:
                    badreads.append((g, x))
            desc = "%s.%s is not set by %s; %d reads, %d other writes" % (rec, fld, f.name, len(rs), len(ws))
            if not badreads:
                chk.obligation(rid, desc + ": every read is preceded by a write", True)
                continue
            chk.obligation(rid, desc, False)
            g, x = badreads[0]
            chk.violation(rid, "init:%s.%s" % (rec, fld), g.where(x),
                          "field %s.%s is left uninitialised by %s (malloc) and read in %s without a dominating write "
                          "(%d such reads): the value is indeterminate heap content" % (rec, fld, f.name, g.name, len(badreads)),
                          {"reads": ["%s %s" % (a.where(b), a.name) for a, b in badreads[:8]]})
    chk.analysed[rid] = {"constructors": ["%s:%s(%s)" % (f.base, f.name, rec) for f, _, rec in ctors]}


# ---------------------------------------------------------------------------
# R-STALE: pointers into a growable buffer are re-derived after the buffer may have moved

def growable_fields(P):
    """(record, field) pairs that are assigned the result of realloc() somewhere (directly or via a temporary)."""
    out = set()
    for f in P.all_funcs:
        if not P.first_party(f):
            continue
        temps = set()
        for x in f.walk():
            rhs = lhs = None
            if x["k"] == "BinaryOperator" and x["op"] == "=":
                lhs, rhs = strip(x["c"][0]), strip(x["c"][1])
            elif x["k"] == "VarDecl" and x.get("c") and x["c"][0] is not None:
                rhs = strip(x["c"][0])
                if rhs is not None and rhs["k"] == "CallExpr" and rhs.get("callee") == "realloc":
                    temps.add(x["n"])
                continue
            if lhs is None or rhs is None:
                continue
            is_re = rhs["k"] == "CallExpr" and rhs.get("callee") == "realloc"
            if is_re and lhs["k"] == "DeclRefExpr":
                temps.add(lhs["n"])
            if lhs["k"] == "MemberExpr" and lhs.get("rec") and (is_re or (rhs["k"] == "DeclRefExpr" and rhs["n"] in temps)):
                out.add((lhs["rec"], lhs["n"]))
    return out


def growth_summaries(P, grow):
    """fid -> set of (parameter index, field): the function may (transitively) move the growable buffer `field` of an
    object reachable from that parameter - it stores that field (realloc result / swap) of an object rooted at the
    parameter, or hands an expression rooted at it to a callee that does.  Object-sensitive at the granularity of
    parameters and field names (a helper that grows one DString, or pushes onto a stack, does not invalidate pointers
    into another DString's text)."""
    if hasattr(P, "_growsum"):
        return P._growsum
    fields = {fl for _, fl in grow}
    summ = {}
    funcs = [g for g in P.all_funcs if P.first_party(g)]
    from .prog import single_assignment_locals

    def root_param(g, e, depth=0):
        e = strip(e)
        while e is not None and e["k"] in ("MemberExpr", "ArraySubscriptExpr", "UnaryOperator"):
            e = strip(e["c"][0])
        if e is not None and e["k"] == "DeclRefExpr":
            if e.get("dk") == "Parm":
                idx = [i2 for i2, p in enumerate(g.params) if p[0] == e["n"]]
                return idx[0] if idx else None
            if e.get("dk") == "Var" and depth < 3:
                init = single_assignment_locals(g).get(e["n"])
                if init is not None:
                    return root_param(g, init, depth + 1)
        return None
    for g in funcs:
        gid = P.fid(g)
        for x in g.walk():
            if x["k"] == "BinaryOperator" and x["op"] == "=":
                l = strip(x["c"][0])
                if l is not None and l["k"] == "MemberExpr" and l["n"] in fields:
                    r = root_param(g, l)
                    if r is not None:
                        summ.setdefault(gid, set()).add((r, l["n"]))
            elif x["k"] == "CallExpr" and x.get("callee") in ("realloc", "free") and len(x["c"]) > 1:
                a = strip(x["c"][1])
                if a is not None and a["k"] == "MemberExpr" and a["n"] in fields:
                    r = root_param(g, a)
                    if r is not None:
                        summ.setdefault(gid, set()).add((r, a["n"]))
    changed = True
    rounds = 0
    while changed and rounds < 10:
        changed = False
        rounds += 1
        for g in funcs:
            gid = P.fid(g)
            for c in g.calls():
                h = P.resolve(g, c.get("callee") or "")
                if h is None:
                    continue
                for (j2, fl) in list(summ.get(P.fid(h), ())):
                    if j2 < len(c["c"]) - 1:
                        r = root_param(g, c["c"][1 + j2])
                        if r is not None and (r, fl) not in summ.get(gid, set()):
                            summ.setdefault(gid, set()).add((r, fl))
                            changed = True
    P._growsum = summ
    return summ


SEARCHERS = {"strstr", "strchr", "strrchr", "strpbrk", "memchr", "strcasestr"}
STRING_READERS = {"strlen", "strcmp", "strncmp", "strcpy", "strncpy", "strcat", "strncat", "memcpy", "memmove", "memcmp", "strcspn", "strspn",
                  "atoi", "atol", "strtol", "strdup", "strndup", "my_strdup", "my_strndup"}


def r_stale(P, chk):
    rid = "R-STALE"
    chk.rule(rid, "a local pointer derived from a realloc-grown buffer (X->F, &X->F[i], X->F + i) is not dereferenced after a call "
                  "that may grow that buffer of the same object, unless it is re-derived first")
    grow = growable_fields(P)
    chk.floor(rid, len(grow), 3, "realloc-grown buffer fields")
    n = 0
    for f in P.all_funcs:
        if not first_party_logic(P, f):
            continue
        # pointer locals derived from a growable buffer
        derived = []
        for x in f.walk():
            name = rhs = node = None
            if x["k"] == "VarDecl" and x.get("c") and x["c"][0] is not None and x.get("t", "").endswith("*"):
                name, rhs, node = x["n"], x["c"][0], f.parent(x)
            elif x["k"] == "BinaryOperator" and x["op"] == "=":
                l = strip(x["c"][0])
                if l is not None and l["k"] == "DeclRefExpr" and l.get("dk") == "Var" and (l.get("t") or "").endswith("*"):
                    name, rhs, node = l["n"], x["c"][1], x
            if name is None or node is None or "i" not in node:
                continue
            y = strip(rhs)
            # X->F | &X->F[i] | X->F + i | &(X->F)[i]   (not: f(X->F), which yields a different object)
            for _ in range(4):
                if y is None:
                    break
                if y["k"] == "UnaryOperator" and y["op"] == "&":
                    y = strip(y["c"][0])
                elif y["k"] == "ArraySubscriptExpr":
                    y = strip(y["c"][0])
                elif y["k"] == "BinaryOperator" and y["op"] in ("+", "-"):
                    y = strip(y["c"][0])
                elif y["k"] == "CallExpr" and y.get("callee") in SEARCHERS and len(y["c"]) > 1:
                    y = strip(y["c"][1])       # strstr(X->F + i, ..) points into the same buffer
                else:
                    break
            if y is not None and y["k"] == "MemberExpr" and (y.get("rec"), y["n"]) in grow:
                derived.append((name, node, key(y["c"][0]), y["n"], y["rec"]))
        if not derived:
            continue
        pos = f.cfg.positions()
        for name, dnode, base, fld, rec in derived:
            root = re.match(r"[\(\*&]*([A-Za-z_]\w*)", base)
            root = root.group(1) if root else base
            # invalidating statements: calls that receive the base object and may store the field; direct stores
            inval = []
            for c in f.calls():
                cal = c.get("callee")
                if not cal or c["i"] not in pos:
                    continue
                args = [key(a) for a in c["c"][1:]]
                hit = [j for j, a in enumerate(args) if a == base or a == root or a == "&" + base]
                if not hit:
                    continue
                if cal in ("free", "strlen", "strcmp", "memcpy", "memmove", "strncpy", "memset"):
                    continue
                h = P.resolve(f, cal)
                if h is not None and P.first_party(h):
                    # object-sensitive: the callee moves a growable buffer reachable from one of *these* arguments
                    gs = growth_summaries(P, grow).get(P.fid(h), set())
                    if any((j, fld) in gs for j in hit):
                        inval.append(c)
                    continue
                m = P.mods(f, cal)
                if cal == "realloc" or (m is None) or (fld in (m or ())):
                    inval.append(c)
            for x in f.walk():
                if x["k"] == "BinaryOperator" and x["op"] == "=" and key(x["c"][0]) == base + "->" + fld and x["i"] in pos:
                    inval.append(x)
            if not inval:
                continue
            redefs = {}
            for nm, nd, *_ in derived:
                if nm == name and nd["i"] in pos:
                    b, i = pos[nd["i"]]
                    redefs.setdefault(b, []).append(i)
            for x in f.walk():
                if x["k"] == "BinaryOperator" and x["op"] == "=" and key(x["c"][0]) == name and x["i"] in pos:
                    b, i = pos[x["i"]]
                    redefs.setdefault(b, []).append(i)
            uses = []
            for x in f.walk():
                if x["k"] == "MemberExpr" and x.get("arrow") and key(x["c"][0]) == name:
                    uses.append(x)
                elif x["k"] == "UnaryOperator" and x["op"] == "*" and key(x["c"][0]) == name:
                    uses.append(x)
                elif x["k"] == "ArraySubscriptExpr" and key(x["c"][0]) == name:
                    uses.append(x)
                elif x["k"] == "CallExpr" and (x.get("callee") in STRING_READERS or x.get("callee") in SEARCHERS):
                    # handing the pointer (or pointer +- k) to a libc routine that reads through it
                    for a in x["c"][1:]:
                        z = strip(a)
                        while z is not None and z["k"] == "BinaryOperator" and z["op"] in ("+", "-"):
                            z = strip(z["c"][0])
                        if z is not None and z["k"] == "DeclRefExpr" and z["n"] == name:
                            uses.append(x)
            use_pos = {}
            for u_ in uses:
                if u_["i"] in pos:
                    b, i = pos[u_["i"]]
                    use_pos.setdefault(b, []).append((i, u_))
            n += 1
            found = None
            for iv in inval:
                b0, i0 = pos[iv["i"]]
                # forward search from just after the invalidating statement
                st = [(b0, i0 + 1)]
                seen = set()
                while st and not found:
                    b, start = st.pop()
                    if (b, start > 0) in seen:
                        continue
                    seen.add((b, start > 0))
                    rd = [i for i in redefs.get(b, []) if i >= start]
                    stop_at = min(rd) if rd else 1 << 30
                    for i, u_ in sorted(use_pos.get(b, []), key=lambda t: t[0]):
                        if start <= i < stop_at:
                            found = (iv, u_)
                            break
                    if found or rd:
                        continue
                    for s_ in f.cfg.blocks[b].rsucc:
                        st.append((s_, 0))
            desc = "%s %s: `%s` points into %s->%s" % (f.where(dnode), f.name, name, base, fld)
            chk.obligation(rid, desc + (" and is re-derived after every call that may move the buffer" if not found else ""), not found,
                           sample=False)
            if found:
                iv, u_ = found
                chk.violation(rid, "stale:%s:%s" % (f.name, name), f.where(u_),
                              "%s dereferences `%s` (derived from %s->%s at line %d) after %s at line %d, which may realloc that "
                              "buffer: the pointer may refer to freed memory" % (
                                  f.name, name, base, fld, dnode["l"], iv.get("callee") or "a store to the field", iv["l"]))
    chk.floor(rid, n, 3, "buffer-derived pointers with a possible reallocation in scope")


# ---------------------------------------------------------------------------
# R-SCANIDX: a sentinel scan `for (i = 0; A[i]; i++)` bounds i by A's terminator only

COPIERS = {"my_strndup": 0, "my_strdup": 0, "strdup": 0, "strndup": 0}


def r_scanidx(P, chk):
    rid = "R-SCANIDX"
    chk.rule(rid, "in a loop bounded only by a sentinel test A[i] (or i < strlen(A)), i indexes no other heap/pointer buffer B "
                  "unless every definition of B in the function is a full-length copy of A")
    n_loops = 0
    for f in P.all_funcs:
        if not P.first_party(f):
            continue
        for w in f.walk():
            if w["k"] == "ForStmt":
                cond, body = w["c"][1], [w["c"][2], w["c"][3]]
            elif w["k"] == "WhileStmt":
                cond, body = w["c"][0], [w["c"][1]]
            else:
                continue
            c = strip(cond)
            if c is None:
                continue
            if c["k"] == "BinaryOperator" and c["op"] == "!=" and const_value(c["c"][1]) == 0:
                c = strip(c["c"][0])
            base = idx = None
            if c["k"] == "ArraySubscriptExpr":
                base, idx = strip(c["c"][0]), strip(c["c"][1])
            elif c["k"] == "BinaryOperator" and c["op"] == "<":
                r = strip(c["c"][1])
                if r is not None and r["k"] == "CallExpr" and r.get("callee") == "strlen":
                    base, idx = strip(r["c"][1]), strip(c["c"][0])
            if base is None or idx is None or idx["k"] != "DeclRefExpr" or idx.get("dk") != "Var":
                continue
            n_loops += 1
            bk, ik = key(base), idx["n"]
            for part in body:
                if part is None:
                    continue
                for x in walk(part):
                    if x["k"] != "ArraySubscriptExpr" or key(x["c"][1]) != ik:
                        continue
                    b = strip(x["c"][0])
                    ok_ = key(b)
                    if ok_ == bk:
                        continue
                    bt = (b.get("t") or "")
                    if "[" in bt:
                        continue            # fixed array: R-ARRAY's obligation
                    # every definition of B must be a full copy of A
                    defs = []
                    for y in f.walk():
                        if y["k"] == "VarDecl" and y["n"] == ok_ and y.get("c") and y["c"][0] is not None:
                            defs.append(y["c"][0])
                        elif y["k"] == "BinaryOperator" and y["op"] == "=" and key(y["c"][0]) == ok_:
                            defs.append(y["c"][1])
                    tied = bool(defs)
                    for d in defs:
                        d = strip(d)
                        if d is not None and d["k"] in ("IntegerLiteral", "GNUNullExpr") or (d is not None and const_value(d) == 0):
                            continue
                        if d is None or d["k"] != "CallExpr" or d.get("callee") not in COPIERS:
                            tied = False
                            break
                        a = d["c"][1:]
                        if key(a[0]) != bk:
                            tied = False
                            break
                        if len(a) > 1 and key(a[1]) != "strlen(%s)" % bk:
                            tied = False
                            break
                    chk.obligation(rid, "%s:%s: %s[%s] in scan of %s" % (f.unit.base, f.name, ok_, ik, bk), ok=tied)
                    if not tied:
                        chk.violation(rid, "scanidx:%s:%s:%s" % (f.unit.base, f.name, ok_), f.where(x),
                                      "%s[%s] is accessed in a loop bounded only by the terminator of %s; nothing ties the extent "
                                      "of %s to the length of %s" % (ok_, ik, bk, ok_, bk))
    chk.floor(rid, n_loops, 2, "sentinel-bounded index loops")
    chk.analysed[rid] = {"sentinel_loops": n_loops}


# ---------------------------------------------------------------------------
# R-SCANSTOP: forward scans over NUL-terminated text stop at the terminator

def byte_predicates(P):
    """name -> [bool]*256 for the table-driven classifiers of char.c (`return smart_char_type[(unsigned char) c] & MASK`)."""
    u = P.units.get("char.c")
    if u is None:
        raise AnalysisBroken("char.c is gone")
    tab = [v for v in u.vars if v["name"] == "smart_char_type"]
    if not tab or not isinstance(tab[0].get("init"), list) or len(tab[0]["init"]) != 256:
        raise AnalysisBroken("char.c: smart_char_type[256] initialiser not found")
    table = tab[0]["init"]
    gvals = {v["name"]: v["init"] for v in u.vars if isinstance(v.get("init"), int)}
    assigned = set()
    for f in u.funcs.values():
        for x in f.walk():
            if (x["k"] == "BinaryOperator" and x["op"] == "=") or x["k"] == "CompoundAssignOperator":
                assigned.add(key(x["c"][0]))
    out = {}
    for f in u.funcs.values():
        if len(f.params) != 1 or f.params[0][1].strip() != "char":
            continue
        rets = [x for x in f.walk() if x["k"] == "ReturnStmt" and x.get("c")]
        if len(rets) != 1:
            continue
        r = strip(rets[0]["c"][0])
        if r is None or r["k"] != "BinaryOperator" or r["op"] != "&":
            continue
        a, b = strip(r["c"][0]), strip(r["c"][1])
        if a is None or a["k"] != "ArraySubscriptExpr" or key(a["c"][0]) != "smart_char_type":
            continue
        m = const_value(b)
        if m is None and b is not None and b["k"] == "DeclRefExpr" and b["n"] in gvals and b["n"] not in assigned:
            m = gvals[b["n"]]
        if m is None:
            continue
        out[f.name] = [bool(table[i] & m) for i in range(256)]
    return out


def _eval_at_nul(cond, cursor_keys, preds):
    """Three-valued value of a loop condition when the character under the cursor is NUL (None = unknown)."""
    c = strip(cond)
    if c is None:
        return None
    k = c["k"]
    if key(c) in cursor_keys:
        return False
    if k == "BinaryOperator":
        op = c["op"]
        if op in ("&&", "||"):
            x, y = _eval_at_nul(c["c"][0], cursor_keys, preds), _eval_at_nul(c["c"][1], cursor_keys, preds)
            if op == "&&":
                if x is False or y is False:
                    return False
                return True if (x is True and y is True) else None
            if x is True or y is True:
                return True
            return False if (x is False and y is False) else None
        if op in ("==", "!="):
            for p, q in ((c["c"][0], c["c"][1]), (c["c"][1], c["c"][0])):
                if key(p) in cursor_keys and const_value(q) is not None:
                    eq = const_value(q) == 0
                    return eq if op == "==" else not eq
        return None
    if k == "UnaryOperator" and c["op"] == "!":
        x = _eval_at_nul(c["c"][0], cursor_keys, preds)
        return None if x is None else not x
    if k == "CallExpr" and c.get("callee") in preds and len(c["c"]) == 2 and key(c["c"][1]) in cursor_keys:
        return preds[c["callee"]][0]
    return None


# forward scans that cannot meet the terminator for a reason outside the loop (reviewed)
SCANSTOP_REVIEWED = {
    ("mmd.c", "mmd_engine_update_metavalue_for_key", "($!=58)"):
        "begin starts at the first byte of a metadata key that the parser recorded (m->start): a ':' follows on that line",
}


def r_scanstop(P, chk):
    rid = "R-SCANSTOP"
    chk.rule(rid, "a forward scan whose only stop condition is a test of the character under the cursor stops on NUL "
                  "(the condition, evaluated with the classifier tables of char.c, is false for the terminator)")
    preds = byte_predicates(P)
    chk.floor(rid, len(preds), 8, "table-driven byte classifiers decoded from char.c")
    n = 0
    for f in P.all_funcs:
        if not first_party_logic(P, f):
            continue
        for w in f.walk():
            if w["k"] == "WhileStmt":
                cond, parts = w["c"][0], [w["c"][1]]
            elif w["k"] == "ForStmt":
                cond, parts = w["c"][1], [w["c"][2], w["c"][3]]
            else:
                continue
            if cond is None:
                continue
            # cursors: *p or s[i] in the condition, with p / i advanced forward in the loop
            cursors = {}
            for x in walk(cond):
                if x["k"] == "UnaryOperator" and x["op"] == "*":
                    v = strip(x["c"][0])
                    if v is not None and v["k"] == "DeclRefExpr" and (v.get("t") or "").replace("const ", "").strip() in ("char *", "unsigned char *"):
                        cursors[key(x)] = {v["n"]}
                elif x["k"] == "ArraySubscriptExpr":
                    i = strip(x["c"][1])
                    b = strip(x["c"][0])
                    if i is not None and b is not None and "char" in (b.get("t") or ""):
                        vs = [y["n"] for y in walk(i) if y["k"] == "DeclRefExpr" and y.get("dk") == "Var"]
                        if i["k"] == "DeclRefExpr" and i.get("dk") == "Var":
                            cursors[key(x)] = {i["n"]}
                        elif i["k"] == "BinaryOperator" and i["op"] == "+" and vs:
                            cursors[key(x)] = set(vs)
            if not cursors:
                continue
            adv = set()
            for part in parts:
                if part is None:
                    continue
                for x in walk(part):
                    if x["k"] == "UnaryOperator" and x["op"] in ("post++", "pre++"):
                        adv.add(key(x["c"][0]))
                    elif x["k"] == "CompoundAssignOperator" and x["op"] == "+=":
                        adv.add(key(x["c"][0]))
            cur = {ck: v for ck, v in cursors.items() if v & adv}
            if not cur:
                continue
            n += 1
            val = _eval_at_nul(cond, set(cur), preds)
            ok = val is not True
            why = ""
            ck = key(cond).replace(" ", "")
            for c0 in sorted(cur, key=len, reverse=True):
                ck = ck.replace(c0.replace(" ", ""), "$")       # the loop condition with the cursor abstracted
            for ck in [ck]:
                r = SCANSTOP_REVIEWED.get((f.unit.base, f.name, ck))
                if r and not ok:
                    ok, why = True, " (reviewed: %s)" % r
                    chk.notes.append("R-SCANSTOP reviewed %s:%s %s: %s" % (f.unit.base, f.name, ck, r))
            chk.obligation(rid, "%s %s: while (%s)%s" % (f.where(w), f.name, key(cond)[:70], why), ok=ok)
            if not ok:
                chk.violation(rid, "scanstop:%s:%s:%s" % (f.unit.base, f.name, sorted(cur)[0]), f.where(w),
                              "the scan `while (%s)` keeps advancing when the character is NUL: it runs off the end of the text" % key(cond)[:80])
    chk.floor(rid, n, 15, "forward character scans")
    chk.analysed[rid] = {"scans": n, "classifiers": sorted(preds)}


# ---------------------------------------------------------------------------
# R-OWN: only the engine owns token trees

DEEP_FREE = ("token_free", "token_tree_free")


def r_own(P, chk):
    """P should be the -DDISABLE_OBJECT_POOL program (there the frees are real)."""
    rid = "R-OWN"
    chk.rule(rid, "token trees are released deeply (token_free / token_tree_free) only through a local that holds a detached or "
                  "freshly built chain, or through the engine's root: note / link / abbreviation records borrow their tokens "
                  "from the document tree and may release at most a wrapper node with free()")
    n = 0
    for f in P.all_funcs:
        if not P.first_party(f) or f.unit.base == "token.c":
            continue
        for c in f.calls():
            if c.get("callee") not in DEEP_FREE or len(c["c"]) < 2:
                continue
            n += 1
            a = strip(c["c"][1])

            def through(e, depth=0):
                """(ok, why) for one expression: which record does it reach the token through?"""
                m = strip(e)
                why = "local"
                while m is not None and m["k"] in ("MemberExpr", "ArraySubscriptExpr", "UnaryOperator"):
                    if m["k"] == "MemberExpr":
                        rec = m.get("rec") or ""
                        if "mmd_engine" in rec:
                            why = "engine field " + m["n"]
                        elif rec.replace("struct ", "").strip() != "token":
                            return False, "field %s of %s" % (m["n"], rec or "a record")
                    m = strip(m["c"][0])
                if m is not None and m["k"] == "DeclRefExpr" and m.get("dk") == "Var" and depth < 3:
                    # every definition of the local
                    for y in f.walk():
                        d = None
                        if y["k"] == "VarDecl" and y["n"] == m["n"] and y.get("c") and y["c"][0] is not None:
                            d = y["c"][0]
                        elif y["k"] == "BinaryOperator" and y["op"] == "=" and key(y["c"][0]) == m["n"]:
                            d = y["c"][1]
                        if d is not None and strip(d) is not None and strip(d)["k"] in ("MemberExpr", "ArraySubscriptExpr", "UnaryOperator", "DeclRefExpr") \
                                and key(d) != m["n"] and not key(d).startswith(m["n"] + "->"):
                            r = through(d, depth + 1)
                            if not r[0]:
                                return r
                return True, why
            ok, why = through(a)
            chk.obligation(rid, "%s %s: %s(%s) - %s" % (f.where(c), f.name, c["callee"], key(a), why), ok=ok)
            if not ok:
                chk.violation(rid, "own:%s:%s:%s" % (f.unit.base, f.name, key(a)), f.where(c),
                              "%s(%s) deep-frees tokens reached through %s: records hold tokens that still belong to the document "
                              "tree, which the engine frees again (double free without the object pool)" % (c["callee"], key(a), why))
    chk.floor(rid, n, 8, "deep token frees outside token.c")
    chk.analysed[rid] = {"deep_free_sites": n, "configuration": P.config}


# ---------------------------------------------------------------------------
# R-HEAPIDX: writes into a freshly malloc'ed character buffer stay inside the size that was requested

HEAPIDX_REVIEWED = {
}

UNSIGNED_T = ("size_t", "unsigned long", "unsigned int", "unsigned long long", "unsigned short", "unsigned char")


def r_heapidx(P, chk):
    from .rules_misc import _linear
    rid = "R-HEAPIDX"
    chk.rule(rid, "within the function that mallocs a character buffer of SIZE bytes, every p[I] store needs I < SIZE and every "
                  "memcpy/strncpy/memmove/memset of LEN bytes needs LEN <= SIZE, by linear arithmetic over the same atoms or by a "
                  "relational fact of the interval analysis at the write")
    n = 0
    ubs = {}

    def sub(a, b):
        out = dict(a)
        for k2, v in b.items():
            out[k2] = out.get(k2, 0) - v
        return {k2: v for k2, v in out.items() if v != 0}

    for f in P.all_funcs:
        if not P.first_party(f) or f.unit.base in ("miniz.c", "argtable3.c"):
            continue
        allocs = []
        for x in f.walk():
            if x.get("m"):
                continue
            tgt = rhs = ty = None
            if x["k"] == "VarDecl" and x.get("c") and x["c"][0] is not None:
                tgt, rhs, ty = x["n"], x["c"][0], x.get("t", "")
            elif x["k"] == "BinaryOperator" and x["op"] == "=":
                tgt, rhs, ty = key(x["c"][0]), x["c"][1], (strip(x["c"][0]) or {}).get("t", "")
            if rhs is None:
                continue
            r = strip(rhs)
            if r is None or r["k"] != "CallExpr" or r.get("callee") != "malloc" or r.get("m"):
                continue
            if ty.replace("const ", "").replace("unsigned ", "").strip() != "char *":
                continue
            allocs.append((tgt, r["c"][1], x))
        for tgt, size, an in allocs:
            S = _linear(f, size)
            if "i" not in an:
                an = f.parent(an) or an
            if "i" not in an:
                continue
            for x in f.walk():
                kind = e = None
                if x["k"] == "BinaryOperator" and x["op"] == "=":
                    l = strip(x["c"][0])
                    if l is not None and l["k"] == "ArraySubscriptExpr" and key(l["c"][0]) == tgt:
                        kind, e = "idx", l["c"][1]
                elif x["k"] == "CallExpr" and x.get("callee") in ("memcpy", "memmove", "strncpy", "memset") and len(x["c"]) > 3 and key(x["c"][1]) == tgt:
                    kind, e = x["callee"], x["c"][3]
                elif x["k"] == "CallExpr" and x.get("callee") == "strcpy" and key(x["c"][1]) == tgt:
                    kind, e = "strcpy", x["c"][2]
                elif x["k"] == "CallExpr" and x.get("callee") == "sprintf" and key(x["c"][1]) == tgt and len(x["c"]) > 2:
                    fmt = strip(x["c"][2])
                    if fmt is not None and fmt["k"] == "StringLiteral" and "%s" not in fmt["s"]:
                        kind, e = "sprintf", x
                if kind is None:
                    continue
                # the write must be governed by this allocation: the malloc assignment dominates it and no other
                # definition of the pointer lies between them
                if not f.cfg.dominates(an["i"], x["i"]):
                    continue
                other = False
                for y in f.walk():
                    if y is an:
                        continue
                    if (y["k"] == "BinaryOperator" and y["op"] == "=" and key(y["c"][0]) == tgt) and \
                            f.cfg.dominates(an["i"], y["i"]) and f.cfg.dominates(y["i"], x["i"]):
                        other = True
                if other:
                    continue
                n += 1
                ok = False
                how = ""
                if kind == "sprintf":
                    # longest possible output of an integer-only format, from the interval of every argument
                    fmt = strip(x["c"][2])["s"]
                    ub = ubs.get(f)
                    if ub is None:
                        ub = ubs[f] = UB1(f)
                    args = x["c"][3:]
                    total, ai, okfmt = 0, 0, True
                    for m in re.finditer(r"%(?:%|[-+ 0#]*(\d*)(?:hh|h|ll|l|z)?([diuxXc]))|[^%]", fmt):
                        t = m.group(0)
                        if not t.startswith("%") or t == "%%":
                            total += 1
                            continue
                        if ai >= len(args):
                            okfmt = False
                            break
                        iv = ub.interval_at(args[ai], at=x)
                        ai += 1
                        if m.group(2) == "c":
                            w = 1
                        elif iv is None or iv[0] == -INF or iv[1] == INF:
                            okfmt = False
                            break
                        elif m.group(2) in ("x", "X"):
                            w = max(len("%x" % (abs(iv[0]) if iv[0] >= 0 else 2 ** 32 - 1)), len("%x" % max(iv[1], 0)))
                        else:
                            w = max(len(str(iv[0])), len(str(iv[1])))
                        total += max(w, int(m.group(1) or 0))
                    cs = const_value(size)
                    if cs is None and S is not None and set(S) <= {1}:
                        cs = S.get(1)
                    ok = okfmt and cs is not None and total + 1 <= cs
                    how = "at most %d characters + NUL into %s bytes" % (total, cs)
                    e = x["c"][2]
                elif kind == "strcpy":
                    need = {"strlen(%s)" % key(e): 1, 1: 1}
                    d = sub(S or {}, need) if S is not None else None
                    ok = d is not None and all(k2 == 1 for k2 in d) and d.get(1, 0) >= 0
                    how = "size - (strlen(src)+1) = %s" % d
                else:
                    E = _linear(f, e)
                    if S is not None and E is not None:
                        d = sub(S, E)
                        lim = 1 if kind == "idx" else 0
                        def nonneg(atom):
                            if atom.startswith("strlen("):
                                return True
                            for y in f.walk():
                                if y["k"] in ("MemberExpr", "DeclRefExpr") and key(y) == atom:
                                    return (y.get("t") or "").replace("const ", "").strip() in UNSIGNED_T
                            return False
                        if all(k2 == 1 or (v > 0 and nonneg(k2)) for k2, v in d.items()) and d.get(1, 0) >= lim:
                            ok, how = True, "size - %s >= %s" % ("index" if kind == "idx" else "length", d.get(1, 0))
                    if not ok:
                        ub = ubs.get(f)
                        if ub is None:
                            ub = ubs[f] = UB1(f)
                        st = ub.state_at(x)
                        sk, ek = key(size), key(e)
                        if st is not None:
                            r1 = st.get("?rel:%s<%s" % (ek, sk))
                            r2 = st.get("?rel:(%s+1)<%s" % (ek, sk))
                            if kind == "idx" and (r1 == (0, 0) or r2 in ((0, 0), (0, 1))):
                                ok, how = True, "relational fact %s < %s" % (ek, sk)
                            if kind != "idx" and (r1 in ((0, 0), (0, 1)) or r2 in ((0, 0), (0, 1))):
                                ok, how = True, "relational fact %s <= %s" % (ek, sk)
                desc = "%s[%s]" % (tgt, key(e)) if kind == "idx" else "%s(%s, .., %s)" % (kind, tgt, key(e))
                rv = HEAPIDX_REVIEWED.get((f.unit.base, f.name, desc))
                if not ok and rv:
                    ok, how = True, "reviewed: " + rv
                    chk.notes.append("R-HEAPIDX reviewed %s:%s %s: %s" % (f.unit.base, f.name, desc, rv))
                chk.obligation(rid, "%s %s: %s within malloc(%s) (%s)" % (f.where(x), f.name, desc, key(size), how), ok=ok)
                if not ok:
                    chk.violation(rid, "heapidx:%s:%s:%s" % (f.unit.base, f.name, desc), f.where(x),
                                  "%s writes %s but the buffer was allocated with malloc(%s): nothing shows the write stays inside" % (
                                      f.name, desc, key(size)))
    chk.floor(rid, n, 12, "writes into freshly allocated character buffers")
    chk.analysed[rid] = {"writes": n}


# ---------------------------------------------------------------------------
# R-UAF (lite): a pointer is not dereferenced after it was handed to a deallocator, directly or through a helper

FREERS = ("free", "token_free", "token_tree_free")


def _free_summaries(P):
    """fid -> set of (param index, field or '') : the callee frees param (field '') or the object param->field held on entry."""
    from .prog import single_assignment_locals
    summ = {}
    for rounds in range(3):
        changed = False
        for g in P.all_funcs:
            if not P.first_party(g):
                continue
            gid = P.fid(g)
            pidx = {p[0]: i for i, p in enumerate(g.params)}
            sal = single_assignment_locals(g)
            assigned = None

            def resolve(e, depth=0):
                e = strip(e)
                if e is None:
                    return None
                if e["k"] == "DeclRefExpr":
                    if e["n"] in pidx and e.get("dk") == "Parm":
                        return (pidx[e["n"]], "")
                    if e["n"] in sal and depth < 3:
                        return resolve(sal[e["n"]], depth + 1)
                    return None
                if e["k"] == "MemberExpr" and e.get("arrow"):
                    b = strip(e["c"][0])
                    if b is not None and b["k"] == "DeclRefExpr" and b["n"] in pidx and b.get("dk") == "Parm":
                        return (pidx[b["n"]], e["n"])
                return None
            def guard_of(c):
                """(param index) if the call lies in the then-branch of `if (param)`, else None."""
                cur = c
                for a in g.ancestors(c):
                    if a["k"] == "IfStmt" and a["c"][1] is not None and any(x is cur for x in walk(a["c"][1])):
                        cd = strip(a["c"][0])
                        if cd is not None and cd["k"] == "DeclRefExpr" and cd.get("dk") == "Parm" and cd["n"] in pidx:
                            return pidx[cd["n"]]
                    cur = a
                return None
            for c in g.calls():
                cal = c.get("callee")
                if not cal or len(c["c"]) < 2:
                    continue
                new = set()
                gd = guard_of(c)
                if cal in FREERS:
                    r = resolve(c["c"][1])
                    if r is not None:
                        new.add(r + (gd,))
                else:
                    h = P.resolve(g, cal)
                    if h is not None and P.first_party(h):
                        for (j, fld, hg) in summ.get(P.fid(h), ()):
                            if hg is not None and hg < len(c["c"]) - 1 and const_value(c["c"][1 + hg]) == 0:
                                continue       # the callee releases only when that argument is true
                            if j < len(c["c"]) - 1 and fld == "":
                                r = resolve(c["c"][1 + j])
                                if r is not None:
                                    new.add(r + (gd,))
                            elif j < len(c["c"]) - 1:
                                a = strip(c["c"][1 + j])
                                if a is not None and a["k"] == "DeclRefExpr" and a["n"] in pidx and a.get("dk") == "Parm":
                                    new.add((pidx[a["n"]], fld, gd))
                if new - summ.get(gid, set()):
                    summ.setdefault(gid, set()).update(new)
                    changed = True
        if not changed:
            break
    return summ


def r_uaf(P, chk):
    rid = "R-UAF"
    chk.rule(rid, "a local pointer is not dereferenced on any CFG path after the object it points to was released - by free / "
                  "token_free on the local itself, or by a helper that frees its argument or the object its argument's field held "
                  "on entry (one-level summaries) - unless the local is reassigned first")
    summ = _free_summaries(P)
    n = 0
    for f in P.all_funcs:
        if not P.first_party(f) or f.unit.base in compdb.GENERATED_UNITS or f.unit.base in ("miniz.c", "argtable3.c"):
            continue
        events = []      # (call node, local name) : after this call the local dangles
        for c in f.calls():
            cal = c.get("callee")
            if not cal or len(c["c"]) < 2 or c.get("m"):
                continue
            if cal in FREERS:
                a = strip(c["c"][1])
                if a is not None and a["k"] == "DeclRefExpr" and a.get("dk") in ("Var", "Parm"):
                    events.append((c, a["n"], "%s(%s)" % (cal, a["n"])))
                continue
            h = P.resolve(f, cal)
            if h is None or not P.first_party(h):
                continue
            for (j, fld, hg) in summ.get(P.fid(h), ()):
                if j >= len(c["c"]) - 1:
                    continue
                if hg is not None and hg < len(c["c"]) - 1 and const_value(c["c"][1 + hg]) == 0:
                    continue
                a = strip(c["c"][1 + j])
                if a is None:
                    continue
                if fld == "":
                    if a["k"] == "DeclRefExpr" and a.get("dk") in ("Var", "Parm"):
                        events.append((c, a["n"], "%s(..%s..) frees its argument" % (cal, a["n"])))
                else:
                    base = key(a)
                    # locals holding base->fld at the call: assigned from it earlier, assignment dominates the call
                    for y in f.walk():
                        nm = init = node = None
                        if y["k"] == "VarDecl" and y.get("c") and y["c"][0] is not None:
                            nm, init, node = y["n"], y["c"][0], f.parent(y)
                        elif y["k"] == "BinaryOperator" and y["op"] == "=" and strip(y["c"][0]) is not None and strip(y["c"][0])["k"] == "DeclRefExpr":
                            nm, init, node = strip(y["c"][0])["n"], y["c"][1], y
                        if nm is None or node is None or "i" not in node:
                            continue
                        if key(init) == base + "->" + fld and f.cfg.dominates(node["i"], c["i"]):
                            events.append((c, nm, "%s(%s) frees %s->%s, which `%s` still points to" % (cal, base, base, fld, nm)))
        if not events:
            continue
        pos = f.cfg.positions()
        for c, nm, why in events:
            if c["i"] not in pos:
                continue
            n += 1
            b0, i0 = pos[c["i"]]
            # redefinitions of nm
            redef = {}
            for y in f.walk():
                if y["k"] == "BinaryOperator" and y["op"] == "=" and key(y["c"][0]) == nm and y["i"] in pos:
                    b, i = pos[y["i"]]
                    redef.setdefault(b, []).append(i)
                elif y["k"] == "VarDecl" and y.get("n") == nm and y.get("c") and y["c"][0] is not None:
                    # a declaration with initialiser inside a loop body defines the local afresh in every pass
                    z = f.parent(y)
                    while z is not None and z.get("i") not in pos:
                        z = f.parent(z)
                    if z is not None:
                        b, i = pos[z["i"]]
                        redef.setdefault(b, []).append(i)
            # dereferences of nm
            bad = None
            derefs = []
            for y in f.walk():
                hit = (y["k"] == "MemberExpr" and y.get("arrow") and key(y["c"][0]) == nm) or \
                      (y["k"] == "UnaryOperator" and y["op"] == "*" and key(y["c"][0]) == nm) or \
                      (y["k"] == "ArraySubscriptExpr" and key(y["c"][0]) == nm)
                if not hit:
                    continue
                z = y
                while z is not None and z["i"] not in pos:
                    z = f.parent(z)
                if z is None:
                    continue
                derefs.append((pos[z["i"]], y))
            if derefs:
                # forward search from just after the call, stopping at redefinitions
                seen = set()
                st = []
                cut0 = min([i for i in redef.get(b0, ()) if i > i0], default=None)
                for (b, i), y in derefs:
                    if b == b0 and i > i0 and (cut0 is None or i <= cut0):
                        # an assignment `nm = f(nm->x)` evaluates its right side first: i <= cut is still a use
                        bad = y
                        break
                if bad is None and cut0 is None:
                    st = list(f.cfg.blocks[b0].rsucc)
                while st and bad is None:
                    b = st.pop()
                    if b in seen:
                        continue
                    seen.add(b)
                    cut = min(redef.get(b, ()), default=None)
                    for (bb, i), y in derefs:
                        if bb == b and (cut is None or i <= cut) and not (b == b0 and i <= i0 and cut is not None and False):
                            if b == b0 and i <= i0:
                                # reached the call's own block again through a loop: uses before the call are real uses
                                pass
                            bad = y
                            break
                    if bad is None and cut is None:
                        st.extend(f.cfg.blocks[b].rsucc)
            chk.obligation(rid, "%s %s: %s - no later use of `%s`" % (f.where(c), f.name, why, nm), ok=bad is None)
            if bad is not None:
                chk.violation(rid, "uaf:%s:%s:%s" % (f.unit.base, f.name, nm), f.where(bad),
                              "`%s` is dereferenced (%s) after %s at %s" % (nm, f.src(bad)[:40], why, f.where(c)))
    chk.floor(rid, n, 20, "release events on local pointers")
    chk.analysed[rid] = {"release_events": n, "functions_with_free_summary": len(summ)}


# ---------------------------------------------------------------------------
# R-HASHKEY: uthash keeps the key *pointer*; it must point into storage that lives as long as the table entry

def r_hashkey(P, chk):
    from .prog import single_assignment_locals
    rid = "R-HASHKEY"
    chk.rule(rid, "every key pointer stored in a uthash handle (HASH_ADD_KEYPTR: `rec->hh.key = ptr`) is a string field of a record "
                  "(owned by the entry or by the record it wraps), never a bare parameter or local whose storage the caller may free "
                  "(a local copy of a field and a helper's parameter are followed to the field / to every call site); "
                  "the recorded key length is the length of that same string")
    n = 0
    edges, _, _ = P.callgraph()

    def field_like(f, e, depth=0):
        """Is e (in f) a record field - directly, through a single-assignment local, or a parameter that every caller
        binds to a record field?"""
        r = strip(e)
        if r is None:
            return False
        if r["k"] == "MemberExpr":
            return True
        if r["k"] == "DeclRefExpr" and r.get("dk") == "Var" and depth < 3:
            init = single_assignment_locals(f).get(r["n"])
            return init is not None and field_like(f, init, depth + 1)
        if r["k"] == "ArraySubscriptExpr" and depth < 3:
            # an element of a local array every element of which is assigned a record field (`keys[0] = l->clean_text; ...`)
            b = strip(r["c"][0])
            if b is not None and b["k"] == "DeclRefExpr" and b.get("dk") == "Var":
                vals = []
                for y in f.walk():
                    if y["k"] == "BinaryOperator" and y["op"] == "=":
                        l = strip(y["c"][0])
                        if l is not None and l["k"] == "ArraySubscriptExpr" and key(l["c"][0]) == b["n"]:
                            vals.append(y["c"][1])
                    elif y["k"] == "VarDecl" and y["n"] == b["n"] and y.get("c") and y["c"][0] is not None and y["c"][0]["k"] == "InitListExpr":
                        vals += [c2 for c2 in (y["c"][0].get("c") or ()) if c2 is not None]
                return bool(vals) and all(field_like(f, v2, depth + 1) for v2 in vals)
            return False
        if r["k"] == "DeclRefExpr" and r.get("dk") == "Parm" and depth < 2:
            idx = [i2 for i2, p in enumerate(f.params) if p[0] == r["n"]]
            if not idx:
                return False
            sites = []
            for g in P.all_funcs:
                if not P.first_party(g):
                    continue
                for c in g.calls(f.name):
                    if P.resolve(g, f.name) is f and idx[0] < len(c["c"]) - 1:
                        sites.append((g, c))

            def tied(g, c):
                # the caller passes `R->field` for the key and R itself in the same call: the helper stores R with the entry
                a = strip(c["c"][1 + idx[0]])
                if a is None or a["k"] != "MemberExpr":
                    return False
                base = key(a["c"][0])
                return any(key(o) == base for j2, o in enumerate(c["c"][1:]) if j2 != idx[0])
            return bool(sites) and all(tied(g, c) for g, c in sites)
        return False

    for f in P.all_funcs:
        if not P.first_party(f):
            continue
        keys = {}
        lens = {}
        for x in f.walk():
            if x["k"] == "BinaryOperator" and x["op"] == "=" and (x.get("m") or "").startswith("HASH_ADD"):
                l = key(x["c"][0])
                if l.endswith("hh.key"):
                    keys.setdefault(x["l"], []).append(x)
                elif l.endswith("hh.keylen"):
                    lens.setdefault(x["l"], []).append(x)
        for line, xs in keys.items():
            for x in xs:
                n += 1
                r = strip(x["c"][1])
                ok = field_like(f, r)
                lk = [key(y["c"][1]) for y in lens.get(line, [])]
                from .prog import resolve_key as _rk
                rlk = [_rk(f, y["c"][1]) for y in lens.get(line, [])]      # `char * key = m->key; ... strlen(key)`
                same = not lk or any(k2 == "strlen(%s)" % key(r) for k2 in lk) or any(k2 == "strlen(%s)" % _rk(f, r) for k2 in rlk)
                chk.obligation(rid, "%s %s: hash key %s (length %s)" % (f.where(x), f.name, key(r), ",".join(lk)), ok=ok and same)
                if not ok:
                    chk.violation(rid, "hashkey:%s:%s:%s" % (f.unit.base, f.name, key(r)), f.where(x),
                                  "%s stores `%s` as the key pointer of a hash entry: it is not a field of a record, so the table keeps "
                                  "pointing at it after the caller releases it" % (f.name, key(r)))
                elif not same:
                    chk.violation(rid, "hashkey:len:%s:%s:%s" % (f.unit.base, f.name, key(r)), f.where(x),
                                  "%s records key length %s for key %s" % (f.name, ",".join(lk), key(r)))
    chk.floor(rid, n, 3, "HASH_ADD_KEYPTR sites")
    chk.analysed[rid] = {"sites": n}


# ---------------------------------------------------------------------------
# R-GOTOINIT: no goto jumps forward over the initialisation of a local that is read after the label

def r_gotoinit(P, chk):
    rid = "R-GOTOINIT"
    chk.rule(rid, "a forward `goto L` does not bypass the declaration (with initialiser) of a local that is read at or after L without "
                  "being assigned first: the variable exists there but its value is indeterminate (e.g. a pointer later freed)")
    n = 0
    for f in P.all_funcs:
        if not P.first_party(f) or f.unit.base in compdb.GENERATED_UNITS or f.unit.base in ("miniz.c", "argtable3.c"):
            continue
        gotos = [x for x in f.walk() if x["k"] == "GotoStmt"]
        if not gotos:
            continue
        labels = {x["n"]: x for x in f.walk() if x["k"] == "LabelStmt"}
        decls = []
        for x in f.walk():
            if x["k"] == "VarDecl":
                p = f.parent(x)
                b = x.get("b") if x.get("b") is not None else (p.get("b") if p is not None else None)
                if b is not None:
                    decls.append(dict(x, b=b, _node=x))
        pos = f.cfg.positions()
        for g in gotos:
            lab = labels.get(g.get("n"))
            if lab is None or lab["b"] <= g["b"]:
                continue
            n += 1
            bad = None
            for d in decls:
                if not (g["b"] < d["b"] < lab["b"]):
                    continue
                # the label must be inside the scope of the declaration: the declaring compound statement contains the label
                scope = None
                for a in f.ancestors(d["_node"]):
                    if a["k"] == "CompoundStmt":
                        scope = a
                        break
                if scope is None or not any(x is lab for x in walk(scope)):
                    continue
                # is d read after the label before any assignment?  (CFG search from the label)
                if lab["i"] not in pos:
                    # the label's sub-statement carries the position
                    z = next((c for c in walk(lab) if c.get("i") in pos), None)
                    if z is None:
                        continue
                    lb, li = pos[z["i"]]
                else:
                    lb, li = pos[lab["i"]]
                defs, uses = {}, {}
                for y in f.walk():
                    if y.get("i") not in pos and y["k"] != "DeclRefExpr":
                        continue
                    if y["k"] == "BinaryOperator" and y["op"] == "=" and key(y["c"][0]) == d["n"] and y["i"] in pos:
                        b, i = pos[y["i"]]
                        defs.setdefault(b, []).append(i)
                for y in f.walk():
                    if y["k"] == "DeclRefExpr" and y["n"] == d["n"] and y.get("did") == d.get("did"):
                        p = f.parent(y)
                        if p is not None and p["k"] == "BinaryOperator" and p["op"] == "=" and strip(p["c"][0]) is y:
                            continue
                        z = y
                        while z is not None and z.get("i") not in pos:
                            z = f.parent(z)
                        if z is None:
                            continue
                        b, i = pos[z["i"]]
                        uses.setdefault(b, []).append((i, y))
                seen, st = set(), [(lb, li)]
                while st and bad is None:
                    b, i0 = st.pop()
                    if (b, i0 > 0) in seen:
                        continue
                    seen.add((b, i0 > 0))
                    dcut = min([i for i in defs.get(b, ()) if i >= i0], default=None)
                    for (i, y) in sorted(uses.get(b, ()), key=lambda t: t[0]):
                        if i >= i0 and (dcut is None or i <= dcut):
                            bad = (d, y)
                            break
                    if bad is None and dcut is None:
                        st.extend((s, 0) for s in f.cfg.blocks[b].rsucc)
                if bad:
                    break
            chk.obligation(rid, "%s %s: goto %s bypasses no live initialisation" % (f.where(g), f.name, g.get("n")), ok=bad is None)
            if bad:
                d, y = bad
                chk.violation(rid, "gotoinit:%s:%s:%s" % (f.unit.base, f.name, d["n"]), f.where(g),
                              "`goto %s` jumps over the initialisation of `%s` (line %d), which is read after the label at %s: "
                              "indeterminate value" % (g.get("n"), d["n"], d["l"], f.where(y)))
    chk.floor(rid, n, 5, "forward gotos")
    chk.analysed[rid] = {"forward_gotos": n}


# ---------------------------------------------------------------------------
# R-STALE/len: a snapshot of a DString's length is not used as that buffer's length after the string may have changed

def r_stalelen(P, chk):
    rid = "R-STALE/len"
    chk.rule(rid, "a local that holds X->currentStringLength is not stored into a length field, nor passed as the length next to "
                  "X->str, after a call that may change the length of X (callee mod summaries) - unless it is re-read first")
    n = 0
    for f in P.all_funcs:
        if not P.first_party(f) or f.unit.base in ("d_string.c", "miniz.c", "argtable3.c"):
            continue
        snaps = []
        for x in f.walk():
            nm = init = node = None
            if x["k"] == "VarDecl" and x.get("c") and x["c"][0] is not None:
                nm, init, node = x["n"], x["c"][0], f.parent(x)
            elif x["k"] == "BinaryOperator" and x["op"] == "=" and strip(x["c"][0]) is not None and strip(x["c"][0])["k"] == "DeclRefExpr":
                nm, init, node = strip(x["c"][0])["n"], x["c"][1], x
            if nm is None or node is None or "i" not in node:
                continue
            ik = key(init)
            if ik.endswith("->currentStringLength"):
                snaps.append((nm, ik[:-len("->currentStringLength")], node))
        if not snaps:
            continue
        pos = f.cfg.positions()
        for nm, obj, dnode in snaps:
            if dnode["i"] not in pos:
                continue
            root = re.match(r"[\(\*&]*([A-Za-z_]\w*)", obj).group(1)
            # calls that may change the length of obj
            muts = []
            for c in f.calls():
                cal = c.get("callee")
                if not cal or c["i"] not in pos or c.get("m"):
                    continue
                args = [key(a) for a in c["c"][1:]]
                if not any(a in (obj, root, "&" + root) for a in args):
                    continue
                m = P.mods(f, cal)
                if cal == "d_string_free":
                    continue          # the object is gone afterwards; a length read before is the only valid record of it
                if cal.startswith("d_string_") and cal not in ("d_string_copy_substring",) or m is None or "currentStringLength" in m:
                    muts.append(c)
            # uses of nm as a length of the same buffer
            uses = []
            for y in f.walk():
                if y["k"] == "BinaryOperator" and y["op"] == "=" and key(y["c"][0]).endswith("->currentStringLength") and key(y["c"][1]) == nm:
                    uses.append((y, "stored into %s" % key(y["c"][0])))
                elif y["k"] == "CallExpr" and len(y.get("c") or ()) > 2:
                    args = [key(a) for a in y["c"][1:]]
                    if nm in args and (obj + "->str") in args:
                        uses.append((y, "passed to %s next to %s->str" % (y.get("callee"), obj)))
            # (c) any other read of the snapshot, except a comparison with the current length (change detection)
            done = {id(u) for u, _ in uses}
            for y in f.walk():
                if y["k"] != "DeclRefExpr" or y["n"] != nm:
                    continue
                p = f.parent(y)
                if p is not None and p["k"] == "BinaryOperator" and p["op"] == "=" and strip(p["c"][0]) is y:
                    continue
                cmpd = False
                for a in f.ancestors(y):
                    if a["k"] == "BinaryOperator" and a["op"] in ("==", "!=", "<", ">", "<=", ">=") and \
                            any(key(o) == obj + "->currentStringLength" for o in a["c"]):
                        cmpd = True
                    if a.get("i") in pos and a["k"] not in ("ImplicitCastExpr", "ParenExpr"):
                        pass
                if cmpd:
                    continue
                z = y
                while z is not None and z.get("i") not in pos:
                    z = f.parent(z)
                if z is None or id(z) in done:
                    continue
                # the enclosing statement-level element
                top = z
                for a in f.ancestors(z):
                    if a.get("i") in pos and a["k"] in ("CallExpr", "BinaryOperator", "CompoundAssignOperator", "ReturnStmt", "DeclStmt"):
                        top = a
                if id(top) in done or any(top is u for u, _ in uses):
                    continue
                done.add(id(top))
                uses.append((top, "read again (%s)" % f.src(top)[:40]))
            for u, how in uses:
                if u["i"] not in pos:
                    continue
                n += 1
                # is there a path  def -> mutating call -> use  without a redefinition of nm?
                redefs = [d for (n2, o2, d) in snaps if n2 == nm and d is not dnode and d["i"] in pos] + \
                         [y for y in f.walk() if y["k"] == "BinaryOperator" and y["op"] == "=" and key(y["c"][0]) == nm and y is not dnode and y["i"] in pos]
                stale = None
                for m in muts:
                    if m is u or any(y is m for y in walk(u)):
                        continue        # the snapshot is an argument of (or feeds) the very call that changes the string
                    if f.cfg.dominates(dnode["i"], m["i"]) and _reaches(f, pos, m, u, redefs):
                        stale = m
                        break
                chk.obligation(rid, "%s %s: `%s` (= %s->currentStringLength) %s" % (f.where(u), f.name, nm, obj, how), ok=stale is None)
                if stale is not None:
                    chk.violation(rid, "stalelen:%s:%s:%s" % (f.unit.base, f.name, nm), f.where(u),
                                  "`%s` was read from %s->currentStringLength before %s(...) at %s, which may change that length, and is "
                                  "then %s: the recorded / written length no longer matches the text" % (
                                      nm, obj, stale.get("callee"), f.where(stale), how))
    chk.floor(rid, n, 2, "length snapshots used as a buffer length")
    chk.analysed[rid] = {"checked_uses": n}


def r_tokrange(P, chk):
    """mmd_tokenize_string(e, start, len) scans e's text up to start + len.  If the text was edited (a call that may change
    the length of e->dstr) after `len` was last assigned, the tokens run past - or stop short of - the source."""
    from .rules_state import dstring_mutation_summary, DSTRING_MUTATORS
    rid = "R-STALE/len"
    mut = dstring_mutation_summary(P)
    n = 0
    for f in P.all_funcs:
        if not P.first_party(f):
            continue
        pos = f.cfg.positions()
        for T in f.calls("mmd_tokenize_string"):
            if len(T["c"]) < 4 or T.get("i") not in pos:
                continue
            E = key(T["c"][1])
            L = strip(T["c"][3])
            if L is None or L["k"] != "DeclRefExpr":
                continue              # e.g. e->dstr->currentStringLength itself
            n += 1
            lv = L["n"]
            kills = [x for x in f.walk() if x["k"] == "BinaryOperator" and x["op"] == "=" and key(x["c"][0]) == lv and x.get("i") in pos]
            bad = None
            for c in f.calls():
                cal = c.get("callee")
                if not cal or c.get("i") not in pos or c is T:
                    continue
                args = c["c"][1:]
                idxs = [0] if cal in DSTRING_MUTATORS else sorted(mut.get(P.fid(P.resolve(f, cal)), ())) if P.resolve(f, cal) is not None else []
                if any(i < len(args) and key(args[i]) == E + "->dstr" for i in idxs) and _reaches(f, pos, c, T, kills):
                    bad = c
                    break
            chk.obligation(rid, "%s %s: the length `%s` handed to mmd_tokenize_string is assigned after every edit of %s->dstr" % (
                f.where(T), f.name, lv, E), bad is None)
            if bad is not None:
                chk.violation(rid, "stalelen:%s:%s:%s:tokenize" % (f.unit.base, f.name, lv), f.where(T),
                              "%s tokenizes %s->dstr up to `%s`, which was last assigned before %s (line %d) changed the length of the "
                              "text: tokens and the root no longer lie inside / span the source" % (f.name, E, lv, bad.get("callee"), bad["l"]))
    chk.floor(rid, n, 1, "tokenizer calls with a length held in a variable")


def _reaches(f, pos, a, b, cuts):
    """Is statement b reachable from statement a without passing one of the cut statements?"""
    ab, ai = pos[a["i"]]
    bb, bi = pos[b["i"]]
    cutpos = {}
    for c in cuts:
        cb, ci = pos[c["i"]]
        cutpos.setdefault(cb, []).append(ci)
    if ab == bb and bi > ai and not any(ai < ci < bi for ci in cutpos.get(ab, ())):
        return True
    if any(ci > ai for ci in cutpos.get(ab, ())):
        return False
    seen, st = set(), list(f.cfg.blocks[ab].rsucc)
    while st:
        x = st.pop()
        if x in seen:
            continue
        seen.add(x)
        cs = cutpos.get(x, ())
        if x == bb and not any(ci < bi for ci in cs):
            return True
        if cs:
            continue
        st.extend(f.cfg.blocks[x].rsucc)
    return False


# ---------------------------------------------------------------------------
# R-TRIMIDX: a trailing trim tests the element it removes

def r_trimidx(P, chk):
    from .rules_misc import _linear
    rid = "R-TRIMIDX"
    chk.rule(rid, "when an `if` / `while` shortens a run by decrementing its length n under a test of s[I], I is base + n - 1 - the last "
                  "element of the run, the one the decrement removes (testing s[base + n], the element after the run, drops a "
                  "character whenever the run is followed by a terminator, e.g. at end of input)")
    n_sites = 0
    for f in P.all_funcs:
        if not P.first_party(f) or f.unit.base in ("miniz.c", "argtable3.c") or f.unit.base in compdb.GENERATED_UNITS:
            continue
        for w in f.walk():
            if w["k"] not in ("IfStmt", "WhileStmt"):
                continue
            cond, body = w["c"][0], w["c"][1]
            if cond is None or body is None:
                continue
            decs = set()
            for x in walk(body):
                if x["k"] == "UnaryOperator" and x["op"] in ("post--", "pre--"):
                    decs.add(key(x["c"][0]))
                elif x["k"] == "CompoundAssignOperator" and x["op"] == "-=" and const_value(x["c"][1]) == 1:
                    decs.add(key(x["c"][0]))
            if not decs:
                continue
            seen = set()
            for a in walk(cond):
                if a["k"] != "ArraySubscriptExpr":
                    continue
                lf = _linear(f, a["c"][1])
                if lf is None:
                    continue
                for d in decs:
                    if lf.get(d) != 1:
                        continue
                    others = [k2 for k2, v in lf.items() if k2 not in (d, 1) and v]
                    lengthy = d.endswith("->len") or d.endswith("currentStringLength") or d == "len"
                    if not others and not lengthy:
                        continue            # a bare cursor walking backwards: the index is the position itself
                    if (d, key(a)) in seen:
                        continue
                    seen.add((d, key(a)))
                    n_sites += 1
                    c0 = lf.get(1, 0)
                    ok = c0 == -1
                    chk.obligation(rid, "%s %s: %s-- under a test of [%s]" % (f.where(w), f.name, d, key(a["c"][1])), ok=ok)
                    if not ok:
                        chk.violation(rid, "trimidx:%s:%s:%s" % (f.unit.base, f.name, d), f.where(w),
                                      "`%s` is shortened when %s[%s] matches, but the element removed is [%s - 1]: the test looks %s the run" % (
                                          d, key(a["c"][0]), key(a["c"][1]), key(a["c"][1]), "past the end of" if c0 >= 0 else "before the end of"))
    # the two-sided form: `if (..) { S++; L -= 2; }` strips one byte at each end of the run [S, S+L): both bytes must have been
    # looked at - s[S] and s[S + L - 1]; stripping on the strength of the first alone cuts whatever byte happens to end the run
    n_pair = 0
    for f in P.all_funcs:
        if not P.first_party(f) or f.unit.base in ("miniz.c", "argtable3.c") or f.unit.base in compdb.GENERATED_UNITS:
            continue
        for w in f.walk():
            if w["k"] != "IfStmt" or w["c"][0] is None or w["c"][1] is None:
                continue
            twos, incs = set(), set()
            for x in walk(w["c"][1]):
                if x["k"] == "CompoundAssignOperator" and x["op"] == "-=" and const_value(x["c"][1]) == 2:
                    twos.add(key(x["c"][0]))
                elif x["k"] == "UnaryOperator" and x["op"] in ("post++", "pre++"):
                    incs.add(key(x["c"][0]))
                elif x["k"] == "CompoundAssignOperator" and x["op"] == "+=" and const_value(x["c"][1]) == 1:
                    incs.add(key(x["c"][0]))
            # only the innermost `if` that holds both statements
            if not twos or not incs or any(y is not w and y["k"] == "IfStmt" and any(
                    z["k"] == "CompoundAssignOperator" and z["op"] == "-=" and const_value(z["c"][1]) == 2 for z in walk(y)) for y in walk(w["c"][1])):
                continue
            forms = [_linear(f, a["c"][1]) for a in walk(w["c"][0]) if a["k"] == "ArraySubscriptExpr"]
            forms = [{k2: v for k2, v in lf.items() if v} for lf in forms if lf is not None]
            for L in twos:
                for S in incs:
                    if S == L:
                        continue
                    n_pair += 1
                    deleg = [c_ for c_ in walk(w["c"][0]) if c_["k"] == "CallExpr" and c_.get("callee") and P.resolve(f, c_["callee"]) is not None
                             and P.first_party(P.resolve(f, c_["callee"])) and {S, L} <= {key(a_) for a_ in c_["c"][1:]}]
                    if deleg:
                        # the two-ended test sits in a predicate helper that receives both the start and the length: not followed
                        chk.obligation(rid, "%s %s: `%s++; %s -= 2` under predicate helper %s(%s, %s) (delegated, not followed)" % (
                            f.where(w), f.name, S, L, deleg[0]["callee"], S, L), True)
                        continue
                    first = {S: 1} in forms
                    last = {S: 1, L: 1, 1: -1} in forms
                    chk.obligation(rid, "%s %s: `%s++; %s -= 2` under tests of [%s] and [%s + %s - 1]" % (f.where(w), f.name, S, L, S, S, L), first and last)
                    if not (first and last):
                        chk.violation(rid, "trimidx:pair:%s:%s" % (f.name, L), f.where(w),
                                      "%s strips one byte at each end of the run (`%s++`, `%s -= 2`) but its condition tests %s: the "
                                      "byte removed at the %s was never compared, so a run that merely starts like a delimited one loses "
                                      "its last byte (half of a multi-byte character)" % (
                                          f.name, S, L, "only the first byte" if first else ("only the last byte" if last else "neither end"),
                                          "end" if first else "start"))
    chk.floor(rid, n_pair, 1, "two-sided trim sites")
    chk.floor(rid, n_sites, 4, "trailing-trim sites")
    chk.analysed[rid] = {"sites": n_sites}


def r_memsize(P, chk):
    """memset/memcpy/memmove count *bytes*.  Where the destination is typed as a pointer to (or array of) objects wider than one
    byte, a size that is a bare element count clears/copies only a fraction of the objects; the rest keeps whatever the allocator
    handed out (history-dependent content) or stays uncopied."""
    rid = "R-MEMSIZE"
    chk.rule(rid, "memset/memcpy/memmove on a destination whose element type is wider than a byte: the size argument is scaled by "
                  "sizeof (directly or through the local it is computed in)")
    n = 0
    for f in P.all_funcs:
        if not P.first_party(f) or f.unit.base in ("miniz.c", "argtable3.c"):
            continue
        for c in f.calls():
            if c.get("callee") not in ("memset", "memcpy", "memmove") or len(c["c"]) <= 3:
                continue
            d = strip(c["c"][1])
            t = ((d or {}).get("t") or "").replace("const ", "").replace("struct ", "").strip()
            base = re.sub(r"(\s*\*|\s*\[\d*\])+$", "", t).strip()
            if not t or base in ("char", "unsigned char", "signed char", "void", "uint8_t", "int8_t", "mz_uint8"):
                continue
            n += 1

            def scaled(e, depth=0):
                if any(y["k"] == "UnaryExprOrTypeTraitExpr" for y in walk(e)):
                    return True
                if depth > 2:
                    return False
                for y in walk(e):
                    if y["k"] == "DeclRefExpr" and y.get("dk") == "Var":
                        for z in f.walk():
                            if z["k"] == "VarDecl" and z.get("n") == y["n"] and z.get("c") and z["c"][0] is not None and scaled(z["c"][0], depth + 1):
                                return True
                            if z["k"] == "BinaryOperator" and z["op"] == "=" and key(z["c"][0]) == y["n"] and scaled(z["c"][1], depth + 1):
                                return True
                return False
            ok = scaled(c["c"][3])
            chk.obligation(rid, "%s %s: %s(%s [%s], .., %s)" % (f.where(c), f.name, c["callee"], key(c["c"][1])[:40], t, f.src(c["c"][3])[:50]), ok)
            if not ok:
                chk.violation(rid, "memsize:%s:%s" % (f.name, key(c["c"][1])[:40]), f.where(c),
                              "%s passes `%s` as the byte count of %s on a `%s` destination: that is an element count, so only a "
                              "fraction of the objects is written and the rest keeps stale heap content" % (
                                  f.name, f.src(c["c"][3])[:60], c["callee"], t))
    chk.floor(rid, n, 10, "memset/memcpy/memmove calls on destinations wider than a byte")
