"""Memory rules for C01 (shared with C13, C15): R-TYPEWRITE, R-ARRAY, R-LOOKBEHIND."""
import re

from . import compdb
from .prog import AnalysisBroken, key, strip, strip_parens, walk, const_value
from .origins import Origins
from .ub1 import UB1, INF, type_range

# Units whose array indexing does not depend on any input (verbatim third-party numeric code).
ARRAY_SKIP_UNITS = {
    "rng.c": "Knuth's ran_array, verbatim: every loop bound and index is a compile-time constant expression of KK/LL; "
             "no value derived from input reaches an index",
}

# (function, array key) -> reason: reviewed sites whose bound is an API precondition, not an input property
ARRAY_REVIEWED = {
    ("Translate", "lc_lookup"): "index = string id * 7 + language; language is the API's `short language` parameter, which the "
                                "property's quantifier restricts to the 7 enumerated languages",
    ("TranslateTest", "lc_lookup"): "debug helper, same table",
}

# Reviewed facts handed to the interval analysis: function -> {expression key: (lo, hi)} + reason
ASSUME = {
    "mmd_transclude_source": ({"(stop-start)": (2, INF)},
                              "start points at \"{{\" and stop = strstr(start, \"}}\") is non-NULL here, so stop >= start + 2 "
                              "(the needle cannot match where the haystack has '{'); the upper bound is NOT assumed"),
}

_inv_cache = {}


def type_field_invariant(P, chk=None, rid="R-TYPEWRITE"):
    """R-TYPEWRITE: every value that can flow into token.type is a compile-time constant below
    kMaxTokenTypes (enumerator, parser terminal, family arithmetic on them), a copy of another
    token's type, or comes through parameters / table fields whose every source is one of those."""
    ck = id(P)
    if ck not in _inv_cache:
        O = Origins(P)
        vals = set()
        n = 0
        for f in P.all_funcs:
            if not P.first_party(f):
                continue
            for x in f.walk():
                if x["k"] == "BinaryOperator" and x["op"] == "=":
                    l = strip(x["c"][0])
                    if l["k"] == "MemberExpr" and l["n"] == "type" and l.get("rec") == "token":
                        n += 1
                        vals |= O.of(x["c"][1], f)
        # compound assignment / ++ on a token's type: bounded by the interval analysis at that point;
        # address-of: not covered
        bad = []
        for f in P.all_funcs:
            if not P.first_party(f):
                continue
            u = None
            for x in f.walk():
                if x["k"] in ("CompoundAssignOperator", "UnaryOperator"):
                    if x["k"] == "UnaryOperator" and x["op"] not in ("post++", "pre++", "post--", "pre--", "&"):
                        continue
                    l = strip(x["c"][0])
                    if l is None or l["k"] != "MemberExpr" or l["n"] != "type" or l.get("rec") != "token":
                        continue
                    n += 1
                    if x["k"] == "UnaryOperator" and x["op"] == "&":
                        bad.append((f.where(x), "address of token.type taken"))
                        continue
                    if u is None:
                        u = UB1(f)
                    cur = u.interval_at(l, at=x)
                    if x["k"] == "CompoundAssignOperator":
                        rhs = u.interval_at(x["c"][1], at=x)
                        res = UB1._arith(x["op"][:-1], cur, rhs) if cur and rhs else (-INF, INF)
                    else:
                        d = 1 if "++" in x["op"] else -1
                        res = (cur[0] + d, cur[1] + d) if cur else (-INF, INF)
                    if res[0] < 0 or res[1] > 4096:
                        bad.append((f.where(x), "token.type modified by %s with unbounded result" % x.get("op")))
                    else:
                        vals.update((int(res[0]), int(res[1])))
        _inv_cache[ck] = (vals, n, sorted(set(O.unknown)) + bad)
    vals, n, unknown = _inv_cache[ck]
    kmax = None
    tp = P.records.get("token_pair_engine")
    if tp:
        for fl in tp["fields"]:
            if fl[0] == "can_open_pair":
                kmax = fl[2]
    if kmax is None:
        raise AnalysisBroken("token_pair_engine.can_open_pair[kMaxTokenTypes] not found")
    if chk is not None:
        chk.rule(rid, "every value stored into token.type is a constant below kMaxTokenTypes or a copy (origin analysis)")
        chk.obl[rid][0] += n
        chk.obl[rid][1] += n
        chk.floor(rid, n, 150, "stores into token.type")
        for where, why in unknown:
            chk.obl[rid][1] -= 1
            chk.violation(rid, "typewrite:%s" % why, where, "a value of unknown origin can reach token.type (%s): the "
                          "type-indexed tables (size kMaxTokenTypes) and the writers' dispatch rely on it being a known type" % why)
        ok = bool(vals) and max(vals) < kmax and min(vals) >= 0
        chk.obligation(rid, "all %d constants that can reach token.type lie in [0, %d); kMaxTokenTypes = %d" % (
            len(vals), max(vals) + 1 if vals else 0, kmax), ok)
        if not ok:
            chk.violation(rid, "typewrite:range", "token_pairs.h", "token type value %s does not fit the type-indexed tables "
                          "of size kMaxTokenTypes = %d" % (max(vals) if vals else None, kmax))
    if unknown or not vals:
        return None, kmax
    return (min(vals), max(vals)), kmax


class FieldInv:
    """Lazily computed whole-program range of an integer struct field: the hull of every value stored
    into it (each evaluated by UB1 at the store).  None if the field is also modified arithmetically,
    has its address taken, or has no store.  Sound only together with R-INIT (no read of a never
    initialised field)."""

    def __init__(self, P, base=None):
        self.P = P
        self.memo = dict(base or {})
        self.busy = set()
        self._stores = None
        self.used = {}

    def _index(self):
        st, bad = {}, set()
        for f in self.P.all_funcs:
            if not self.P.first_party(f):
                continue
            for x in f.walk():
                k = x["k"]
                if k == "BinaryOperator" and x["op"] == "=":
                    l = strip(x["c"][0])
                    if l is not None and l["k"] == "MemberExpr" and l.get("rec"):
                        st.setdefault((l["rec"], l["n"]), []).append((f, x))
                elif k == "CompoundAssignOperator" or (k == "UnaryOperator" and x["op"] in ("post++", "pre++", "post--", "pre--", "&")):
                    l = strip(x["c"][0])
                    if l is not None and l["k"] == "MemberExpr" and l.get("rec"):
                        bad.add((l["rec"], l["n"]))
        self._stores, self._bad = st, bad

    def get(self, rf, default=None):
        if rf in self.memo:
            return self.memo[rf] if self.memo[rf] is not None else default
        if rf in self.busy:
            return default
        if self._stores is None:
            self._index()
        if rf in self._bad or rf not in self._stores or len(self._stores[rf]) > 12:
            self.memo[rf] = None
            return default
        self.busy.add(rf)
        lo, hi = INF, -INF
        for f, x in self._stores[rf]:
            u = shared_ub1(self.P, f, self)
            iv = u.interval_at(x["c"][1], at=x)
            if iv is None:
                continue
            lo, hi = min(lo, iv[0]), max(hi, iv[1])
        self.busy.discard(rf)
        res = (lo, hi) if lo <= hi else None
        self.memo[rf] = res
        if res is not None:
            self.used[rf] = (res, ["%s %s" % (f.where(x), f.name) for f, x in self._stores[rf]])
        return res if res is not None else default


def _array_of(n):
    """For an ArraySubscriptExpr: (array expr node, element count or None, is_vla)."""
    b = n["c"][0]
    x = b
    while x is not None and x["k"] in ("ParenExpr", "ImplicitCastExpr", "CStyleCastExpr"):
        if x["k"] == "ImplicitCastExpr" and x.get("ck") == "ArrayToPointerDecay":
            inner = x["c"][0]
            return inner, inner.get("asz"), bool(inner.get("vla"))
        x = x["c"][0]
    return None, None, False


def first_party_logic(P, f):
    return P.first_party(f) and f.unit.base not in compdb.GENERATED_UNITS


def r_array(P, chk, only_units=None):
    rid = "R-ARRAY"
    chk.rule(rid, "every index into a fixed-size array, and every length copied into one, is bounded on all CFG paths "
                  "(interval analysis UB1 with branch refinement and threshold widening)")
    inv, kmax = type_field_invariant(P, chk)
    field_inv = FieldInv(P, {("token", "type"): inv} if inv is not None else None)
    n_sites = 0
    n_trivial = 0
    ubs = {}

    def ub(f):
        if f not in ubs:
            a = ASSUME.get(f.name)
            if a:
                note = "R-ARRAY assumes in %s: %s (%s)" % (f.name, a[0], a[1])
                if note not in chk.notes:
                    chk.notes.append(note)
            ubs[f] = UB1(f, field_inv, assume=a[0]) if a else shared_ub1(P, f, field_inv)
        return ubs[f]

    O = Origins(P, copy_field=("token", "type"))

    def by_origin(f, idx):
        """Constants that can flow into a parameter / local used as index (whole-program origin analysis)."""
        s = strip(idx)
        if s is None or s["k"] != "DeclRefExpr" or s.get("dk") not in ("Var", "Parm"):
            return None
        before = len(O.unknown)
        vals = O.of(s, f)
        if len(O.unknown) != before:
            del O.unknown[before:]
            return None
        if inv is not None:
            vals = set(vals) | set(inv)      # copies of token types
        return (min(vals), max(vals)) if vals else None

    for note_unit, why in ARRAY_SKIP_UNITS.items():
        chk.notes.append("R-ARRAY skips %s: %s" % (note_unit, why))
    for f in P.all_funcs:
        if not first_party_logic(P, f) or f.unit.base in ARRAY_SKIP_UNITS:
            continue
        if f.file.endswith("uthash.h"):
            continue
        if only_units is not None and f.unit.base not in only_units:
            continue
        for n in f.walk():
            if n["k"] == "ArraySubscriptExpr":
                arr, size, vla = _array_of(n)
                if arr is None or (size is None and not vla):
                    continue
                idx = n["c"][1]
                cv = const_value(idx)
                akey = key(arr)
                if cv is not None and size is not None:
                    n_trivial += 1
                    ok = 0 <= cv < size
                    if not ok:
                        chk.violation(rid, "%s:%s:%s[%d]" % (f.base, f.name, akey, cv), f.where(n),
                                      "constant index %d outside %s[%d]" % (cv, akey, size))
                    continue
                n_sites += 1
                iv = ub(f).interval_at(idx, at=n)
                desc = "%s %s: %s[%s]" % (f.where(n), f.name, akey, key(idx))
                if iv is None:
                    chk.obligation(rid, desc + " unreachable", True, nontrivial=False)
                    continue
                if size is not None and iv[0] >= 0 and iv[1] <= size - 1:
                    chk.obligation(rid, desc + " in [%s,%s] < %d" % (iv[0], iv[1], size), True)
                    continue
                if vla and iv[0] >= 0:
                    # symbolic bound: index < declared size expression
                    szk = _vla_size_key(f, arr)
                    if szk and ub(f).rel_less(key(idx), szk, n):
                        chk.obligation(rid, desc + " < VLA size %s (relational guard)" % szk, True)
                        continue
                if size is not None:
                    ov = by_origin(f, idx)
                    if ov is not None and ov[0] >= 0 and ov[1] <= size - 1:
                        chk.obligation(rid, desc + ": every value reaching `%s` is a constant in [%d,%d] < %d (origin analysis "
                                       "over all call sites / table stores)" % (key(idx), ov[0], ov[1], size), True)
                        continue
                rev = ARRAY_REVIEWED.get((f.name, akey.split("->")[-1]))
                if rev:
                    chk.obligation(rid, desc + " reviewed: " + rev, True)
                    note = "R-ARRAY reviewed %s %s: %s" % (f.name, akey, rev)
                    if note not in chk.notes:
                        chk.notes.append(note)
                    continue
                chk.obligation(rid, desc, False)
                mode = "write" if _is_store_target(f, n) else "read"
                chk.violation(rid, "%s:%s:%s[%s]:%s" % (f.base, f.name, akey, key(idx), mode), f.where(n),
                              "index `%s` into %s[%s] is not bounded on every path: derived range [%s, %s] (%s)" % (
                                  f.src(idx), akey, size if size is not None else "VLA", _fmt(iv[0]), _fmt(iv[1]), mode),
                              {"interval": [_fmt(iv[0]), _fmt(iv[1])], "size": size})
            elif n["k"] == "CallExpr" and n.get("callee") in COPY_FUNCS:
                r = _check_copy(P, f, n, ub, chk, rid)
                if r:
                    n_sites += 1
    for rf, (res, where) in sorted(field_inv.used.items()):
        if res[1] < 2 ** 15:
            chk.notes.append("R-ARRAY field invariant %s.%s in [%s,%s] from its %d stores: %s" % (
                rf[0], rf[1], _fmt(res[0]), _fmt(res[1]), len(where), "; ".join(where)))
    chk.analysed[rid] = {"non_constant_index_sites_and_copies": n_sites, "constant_index_sites": n_trivial,
                         "token_type_range": list(inv) if inv else None, "kMaxTokenTypes": kmax}
    chk.floor(rid, n_sites, 50 if only_units is None else 2, "array index / copy sites with a non-constant index or length")


def _fmt(x):
    if x == INF:
        return "+inf"
    if x == -INF:
        return "-inf"
    return x


def _is_store_target(f, n):
    p = f.parent(n)
    while p is not None and p["k"] in ("ParenExpr",):
        n, p = p, f.parent(p)
    if p is None:
        return False
    if (p["k"] == "BinaryOperator" and p["op"] == "=" or p["k"] == "CompoundAssignOperator") and p["c"][0] is n:
        return True
    if p["k"] == "UnaryOperator" and p["op"] in ("post++", "pre++", "post--", "pre--"):
        return True
    return False


def _vla_size_key(f, arr):
    s = strip(arr)
    if s is None or s["k"] != "DeclRefExpr":
        return None
    m = re.search(r"\[(.+)\]", s.get("t", ""))
    for v in f.walk():
        if v["k"] == "VarDecl" and v.get("did") == s.get("did"):
            m = re.search(r"\[([A-Za-z_][A-Za-z0-9_]*)\]", v.get("t", ""))
            return m.group(1) if m else None
    return None


# callee -> (dest arg index, how the byte length is given)
COPY_FUNCS = {
    "memcpy": (0, ("arg", 2)), "memmove": (0, ("arg", 2)), "memset": (0, ("arg", 2)), "strncpy": (0, ("arg", 2)),
    "strncat": (0, ("strncat", 2)), "strcpy": (0, ("strlen+1", 1)), "strcat": (0, ("unbounded", 1)),
    "sprintf": (0, ("unbounded", 1)), "vsprintf": (0, ("unbounded", 1)), "snprintf": (0, ("arg", 1)),
    "vsnprintf": (0, ("arg", 1)), "fread": (0, ("mul", 1, 2)), "getcwd": (0, ("arg", 1)), "fgets": (0, ("arg", 1)),
    "realpath": (1, ("pathmax", 0)),
}


def _dest_capacity(arg):
    """(array key, capacity in bytes, constant byte offset) if the destination is a fixed array
    (`arr`, `&arr[k]`, `arr + k`), else None."""
    x = arg
    while x is not None and x["k"] in ("ParenExpr", "CStyleCastExpr", "ImplicitCastExpr"):
        if x["k"] == "ImplicitCastExpr" and x.get("ck") == "ArrayToPointerDecay":
            inner = x["c"][0]
            if inner.get("asb") is not None:
                return key(inner), inner["asb"], 0, inner
            return None
        x = x["c"][0]
    if x is None:
        return None
    if x["k"] == "UnaryOperator" and x["op"] == "&":
        s = strip_parens(x["c"][0])
        if s is not None and s["k"] == "ArraySubscriptExpr":
            arr, size, vla = _array_of(s)
            if arr is not None and arr.get("asb") is not None and size:
                esz = arr["asb"] // size
                return key(arr), arr["asb"], ("idx", s["c"][1], esz), arr
    return None


def _check_copy(P, f, n, ub, chk, rid):
    spec = COPY_FUNCS[n["callee"]]
    args = n["c"][1:]
    if spec[0] >= len(args):
        return False
    d = _dest_capacity(args[spec[0]])
    if d is None:
        return False
    akey, cap, off, arr = d
    u = ub(f)
    offhi = 0
    if off:
        iv = u.interval_at(off[1], at=n)
        if iv is None:
            return False
        if iv[0] < 0 or iv[1] == INF:
            offhi = INF
        else:
            offhi = iv[1] * off[2]
    how = spec[1]
    need = None
    if how[0] == "arg":
        iv = u.interval_at(args[how[1]], at=n)
        if iv is None:
            return False
        need = iv[1] if iv[0] >= 0 else INF
    elif how[0] == "mul":
        a, b = u.interval_at(args[how[1]], at=n), u.interval_at(args[how[2]], at=n)
        if a is None or b is None:
            return False
        need = a[1] * b[1] if a[0] >= 0 and b[0] >= 0 else INF
    elif how[0] == "strlen+1":
        s = strip(args[how[1]])
        need = len(s["s"].encode("latin-1", "replace")) + 1 if s is not None and s["k"] == "StringLiteral" else INF
    elif how[0] == "strncat":
        need = INF   # appends after existing content: capacity depends on current length
    elif how[0] == "pathmax":
        need = 4096
    else:
        need = INF
    ok = need != INF and offhi != INF and need + offhi <= cap
    desc = "%s %s: %s(%s, ...) writes at most %s bytes at offset <= %s into %s bytes" % (
        f.where(n), f.name, n["callee"], akey, _fmt(need), _fmt(offhi), cap)
    chk.obligation(rid, desc, ok)
    if not ok:
        chk.violation(rid, "%s:%s:%s(%s)" % (f.base, f.name, n["callee"], akey), f.where(n),
                      "%s() into fixed array %s (%d bytes): length is not bounded by the capacity on every path "
                      "(derived max %s at byte offset <= %s)" % (n["callee"], akey, cap, _fmt(need), _fmt(offhi)))
    return True


# ---------------------------------------------------------------------------
# R-LOOKBEHIND

LOOKBEHIND_REVIEWED = {
    ("mmd_export_token_opendocument", "out->currentStringLength-11"):
        "heading branch: a `<text:h text:outline-level=\"%d\">` literal (>= 33 bytes) was appended to `out` earlier on the same "
        "path and only a trailing \"<text:tab/>\" (11 bytes) is ever erased, so the length stays >= 33",
    ("mmd_export_token_latex", "strlen(temp_char2)-1"):
        "temp_char2 = text inside a PAIR_BRACKET_CITATION taken with the closer's length (1), so it starts with the '#' of the "
        "`[#` opener: never empty",
    ("traverse_for_images", "t->len-2"):
        "t is a PAIR_PAREN token, which spans both parentheses: len >= 2",
    ("url_accept", "start+scan_len"):
        "every caller passes start >= 1 (t->start + 1 in the three writers; the start of the token that follows the '(' opener "
        "in extract_from_paren), so start + scan_len - 1 >= 0 even when scan_len was clamped to max_len == 0",
    ("trim_trailing_whitespace_d_string", "d->currentStringLength-1"):
        "only the address is formed here; every dereference of c is guarded by `d->currentStringLength &&`",
}


_ub_cache = {}


def shared_ub1(P, f, field_inv):
    k = (id(P), id(f))
    if k not in _ub_cache:
        _ub_cache[k] = UB1(f, field_inv)
    return _ub_cache[k]


def param_ranges(P, f, field_inv, cache):
    """Interval of each integer parameter of a non-public function = hull over all call sites (one level)."""
    if f in cache:
        return cache[f]
    cache[f] = {}
    public = {d["name"] for u in P.units.values() for d in u.fdecls
              if d["file"].rsplit("/", 1)[-1] in ("libMultiMarkdown.h", "token.h", "d_string.h")}
    if f.name in public or f.name == "main":
        return {}
    sites = []
    for g in P.all_funcs:
        if not P.first_party(g):
            continue
        for c in g.calls(f.name):
            if P.resolve(g, f.name) is f:
                sites.append((g, c))
        if g is not f:
            for n in g.walk():
                if n["k"] == "DeclRefExpr" and n.get("dk") == "Func" and n["n"] == f.name:
                    p = g.parent(n)
                    pp = g.parent(p) if p is not None else None
                    if not (pp is not None and pp["k"] == "CallExpr" and pp["c"][0] is p):
                        return {}      # address taken: unknown callers
    if not sites:
        return {}
    out = {}
    ubs = {}
    for i, prm in enumerate(f.params):
        tr = type_range(prm[1])
        if tr == (-INF, INF):
            continue
        lo, hi = INF, -INF
        for g, c in sites:
            args = c["c"][1:]
            if i >= len(args):
                lo, hi = -INF, INF
                break
            iv = shared_ub1(P, g, field_inv).interval_at(args[i], at=c)
            if iv is None:
                continue
            lo, hi = min(lo, iv[0]), max(hi, iv[1])
        if lo <= hi and (lo, hi) != tr:
            out[prm[0]] = UB1.fit((lo, hi), tr)
    cache[f] = out
    return out


def r_lookbehind(P, chk):
    rid = "R-LOOKBEHIND"
    chk.rule(rid, "every index of the form x - k (k >= 1) into a string or pointer is guarded so that x >= k on all paths")
    inv, kmax = type_field_invariant(P)
    field_inv = FieldInv(P, {("token", "type"): inv} if inv is not None else None)
    pcache = {}
    n_sites = 0
    for f in P.all_funcs:
        if not first_party_logic(P, f) or f.unit.base in ARRAY_SKIP_UNITS or f.file.endswith("uthash.h") or f.file.endswith("i18n.h"):
            continue
        u = None
        for n in f.walk():
            if n["k"] != "ArraySubscriptExpr":
                continue
            arr, size, vla = _array_of(n)
            if size is not None or vla:
                continue
            idx = strip(n["c"][1])
            if idx is None:
                continue
            cv = const_value(idx)
            need = None
            if cv is not None:
                if cv >= 0:
                    continue
                need = ("const", cv)
            elif idx["k"] == "BinaryOperator" and idx["op"] == "-" and (const_value(idx["c"][1]) or 0) >= 1:
                need = ("sub", idx["c"][0], const_value(idx["c"][1]))
            else:
                continue
            n_sites += 1
            base = key(n["c"][0])
            ikey = key(idx).strip("()")
            desc = "%s %s: %s[%s]" % (f.where(n), f.name, base, ikey)
            ok = False
            why = ""
            if need[0] == "sub":
                if u is None:
                    assume = dict(param_ranges(P, f, field_inv, pcache))
                    a = ASSUME.get(f.name)
                    if a:
                        assume.update(a[0])
                    u = UB1(f, field_inv, assume=assume)
                iv = u.interval_at(need[1], at=n)
                if iv is None:
                    chk.obligation(rid, desc + " unreachable", True, nontrivial=False)
                    continue
                ok = iv[0] >= need[2]
                why = "`%s` >= %s on every path, needs >= %d" % (key(need[1]), _fmt(iv[0]), need[2])
            rev = None
            if not ok:
                for (fn, sub), reason in LOOKBEHIND_REVIEWED.items():
                    if fn == f.name and sub in ikey:
                        rev = reason
            if ok:
                chk.obligation(rid, desc + ": " + why, True)
            elif rev:
                chk.obligation(rid, desc + " reviewed: " + rev, True)
                note = "R-LOOKBEHIND reviewed %s [%s]: %s" % (f.name, ikey, rev)
                if note not in chk.notes:
                    chk.notes.append(note)
            else:
                chk.obligation(rid, desc, False)
                chk.violation(rid, "%s:%s:%s[%s]" % (f.base, f.name, base, ikey), f.where(n),
                              "look-behind `%s[%s]` is not guarded against position 0 on every path (%s)" % (
                                  base, f.src(n["c"][1]), why or "negative constant index"))
    chk.analysed[rid] = {"look_behind_sites": n_sites}
    chk.floor(rid, n_sites, 30, "look-behind index sites")


# ---------------------------------------------------------------------------
# R-INIT: no read of a never-initialised heap field

INIT_SKIP_RECORDS = {"UT_hash_table", "UT_hash_bucket", "UT_hash_handle", "mz_zip_archive"}
INIT_SKIP_FIELDS = {"_PADDING", "hh"}     # explicit padding; uthash handle (filled by HASH_ADD before any lookup)


def _field_stores_in(f, base_key):
    """Fields of *base_key assigned in f (direct stores, memset/memcpy of the object or of a field)."""
    out = set()
    whole = False
    for x in f.walk():
        if x["k"] == "BinaryOperator" and x["op"] == "=":
            l = strip(x["c"][0])
            while l is not None and l["k"] == "ArraySubscriptExpr":
                l = strip(l["c"][0])
            if l is not None and l["k"] == "MemberExpr" and key(l["c"][0]) == base_key:
                out.add(l["n"])
            elif l is not None and l["k"] == "UnaryOperator" and l["op"] == "*" and key(l["c"][0]) == base_key:
                whole = True      # *p = *other
        elif x["k"] == "CallExpr" and x.get("callee") in ("memset", "memcpy", "memmove"):
            d = strip(x["c"][1])
            if d is not None and key(d) == base_key:
                whole = True
            else:
                while d is not None and d["k"] in ("ArraySubscriptExpr", "UnaryOperator"):
                    d = strip(d["c"][0])
                if d is not None and d["k"] == "MemberExpr" and key(d["c"][0]) == base_key:
                    out.add(d["n"])
    return out, whole


def r_init(P, chk):
    rid = "R-INIT"
    chk.rule(rid, "every field of a malloc'ed first-party record is written by its constructor, or every read of it is "
                  "preceded by a write (same function dominator, or a writer call dominating every call of the reader)")
    ctors = []
    for f in P.all_funcs:
        if not first_party_logic(P, f):
            continue
        for n in f.walk():
            tgt = rhs = ty = None
            if n["k"] == "VarDecl" and n.get("c") and n["c"][0] is not None:
                tgt, rhs, ty = n["n"], n["c"][0], n["t"]
            elif n["k"] == "BinaryOperator" and n["op"] == "=":
                tgt, rhs, ty = key(n["c"][0]), n["c"][1], (strip(n["c"][0]) or {}).get("t")
            if rhs is None:
                continue
            r = strip(rhs)
            if r is None or r["k"] != "CallExpr" or r.get("callee") != "malloc":
                continue
            m = re.match(r"(?:struct )?(\w+) \*$", ty or "")
            if not m or m.group(1) in INIT_SKIP_RECORDS or m.group(1) not in P.records:
                continue
            # malloc(sizeof(T)) only (arrays of T are initialised element-wise elsewhere)
            sz = r["c"][1]
            if const_value(sz) != P.records[m.group(1)].get("size"):
                continue
            ctors.append((f, tgt, m.group(1)))
    chk.floor(rid, len(ctors), 12, "malloc(sizeof(T)) constructors")
    # all field reads / writes program-wide
    reads, writes = {}, {}
    for f in P.all_funcs:
        if not P.first_party(f):
            continue
        for x in f.walk():
            if x["k"] != "MemberExpr" or not x.get("rec"):
                continue
            p = f.parent(x)
            # classify access
            cur, par = x, p
            while par is not None and par["k"] in ("ParenExpr", "ArraySubscriptExpr") and par["c"][0] is cur:
                cur, par = par, f.parent(par)
            while par is not None and par["k"] == "ImplicitCastExpr" and par.get("ck") == "ArrayToPointerDecay":
                cur, par = par, f.parent(par)
                while par is not None and par["k"] in ("ParenExpr", "ArraySubscriptExpr") and par["c"][0] is cur:
                    cur, par = par, f.parent(par)
            is_w = par is not None and par["k"] == "BinaryOperator" and par["op"] == "=" and par["c"][0] is cur
            if is_w:
                writes.setdefault((x["rec"], x["n"]), []).append((f, x))
            elif par is not None and par["k"] == "UnaryOperator" and par["op"] == "&":
                writes.setdefault((x["rec"], x["n"]), []).append((f, x))   # address escapes: may be written
            else:
                reads.setdefault((x["rec"], x["n"]), []).append((f, x))
    callsites = {}
    for g in P.all_funcs:
        for c in g.calls():
            if c.get("callee"):
                callsites.setdefault(c["callee"], []).append((g, c))
    seen_rec = set()
    for f, tgt, rec in ctors:
        fields = [x[0] for x in P.records[rec]["fields"] if x[0] not in INIT_SKIP_FIELDS]
        assigned, whole = _field_stores_in(f, tgt)
        # helpers the constructor hands the object to
        for c in f.calls():
            g = P.resolve(f, c.get("callee")) if c.get("callee") else None
            if g is None:
                continue
            for i, a in enumerate(c["c"][1:]):
                if key(a) == tgt and i < len(g.params):
                    a2, w2 = _field_stores_in(g, g.params[i][0])
                    assigned |= a2
                    whole = whole or w2
        late = [] if whole else [x for x in fields if x not in assigned]
        chk.obligation(rid, "%s %s: constructor of %s initialises %d of %d fields%s" % (
            f.where(), f.name, rec, len(fields) - len(late), len(fields), " (late: %s)" % late if late else ""), True,
            nontrivial=bool(late))
        for fld in late:
            if (rec, fld) in seen_rec:
                continue
            seen_rec.add((rec, fld))
            rs = reads.get((rec, fld), [])
            ws = [(g, x) for g, x in writes.get((rec, fld), []) if g is not f]
            wfuncs = {g.name for g, _ in ws}
            badreads = []
            for g, x in rs:
                # (a) same-function dominating store to the same access path
                ok = any(g2 is g and key(x2) == key(x) and g.cfg.dominates(g.parent(x2)["i"] if "i" in (g.parent(x2) or {}) else -1, x["i"])
                         for g2, x2 in ws)
                if not ok:
                    # (b) every call of the reader is dominated by a call to a writer function
                    cs = callsites.get(g.name, [])
                    ok = bool(cs) and all(any(d.get("callee") in wfuncs and h.cfg.dominates(d["i"], c["i"]) for d in h.calls())
                                          for h, c in cs)
                if not ok:
                    badreads.append((g, x))
            desc = "%s.%s is not set by %s; %d reads, %d other writes" % (rec, fld, f.name, len(rs), len(ws))
            if not badreads:
                chk.obligation(rid, desc + ": every read is preceded by a write", True)
                continue
            chk.obligation(rid, desc, False)
            g, x = badreads[0]
            chk.violation(rid, "init:%s.%s" % (rec, fld), g.where(x),
                          "field %s.%s is left uninitialised by %s (malloc) and read in %s without a dominating write "
                          "(%d such reads): the value is indeterminate heap content" % (rec, fld, f.name, g.name, len(badreads)),
                          {"reads": ["%s %s" % (a.where(b), a.name) for a, b in badreads[:8]]})
    chk.analysed[rid] = {"constructors": ["%s:%s(%s)" % (f.base, f.name, rec) for f, _, rec in ctors]}


# ---------------------------------------------------------------------------
# R-STALE: pointers into a growable buffer are re-derived after the buffer may have moved

def growable_fields(P):
    """(record, field) pairs that are assigned the result of realloc() somewhere (directly or via a temporary)."""
    out = set()
    for f in P.all_funcs:
        if not P.first_party(f):
            continue
        temps = set()
        for x in f.walk():
            rhs = lhs = None
            if x["k"] == "BinaryOperator" and x["op"] == "=":
                lhs, rhs = strip(x["c"][0]), strip(x["c"][1])
            elif x["k"] == "VarDecl" and x.get("c") and x["c"][0] is not None:
                rhs = strip(x["c"][0])
                if rhs is not None and rhs["k"] == "CallExpr" and rhs.get("callee") == "realloc":
                    temps.add(x["n"])
                continue
            if lhs is None or rhs is None:
                continue
            is_re = rhs["k"] == "CallExpr" and rhs.get("callee") == "realloc"
            if is_re and lhs["k"] == "DeclRefExpr":
                temps.add(lhs["n"])
            if lhs["k"] == "MemberExpr" and lhs.get("rec") and (is_re or (rhs["k"] == "DeclRefExpr" and rhs["n"] in temps)):
                out.add((lhs["rec"], lhs["n"]))
    return out


def r_stale(P, chk):
    rid = "R-STALE"
    chk.rule(rid, "a local pointer derived from a realloc-grown buffer (X->F, &X->F[i], X->F + i) is not dereferenced after a call "
                  "that may grow that buffer of the same object, unless it is re-derived first")
    grow = growable_fields(P)
    chk.floor(rid, len(grow), 3, "realloc-grown buffer fields")
    n = 0
    for f in P.all_funcs:
        if not first_party_logic(P, f):
            continue
        # pointer locals derived from a growable buffer
        derived = []
        for x in f.walk():
            name = rhs = node = None
            if x["k"] == "VarDecl" and x.get("c") and x["c"][0] is not None and x.get("t", "").endswith("*"):
                name, rhs, node = x["n"], x["c"][0], f.parent(x)
            elif x["k"] == "BinaryOperator" and x["op"] == "=":
                l = strip(x["c"][0])
                if l is not None and l["k"] == "DeclRefExpr" and l.get("dk") == "Var" and (l.get("t") or "").endswith("*"):
                    name, rhs, node = l["n"], x["c"][1], x
            if name is None or node is None or "i" not in node:
                continue
            y = strip(rhs)
            # X->F | &X->F[i] | X->F + i | &(X->F)[i]   (not: f(X->F), which yields a different object)
            for _ in range(4):
                if y is None:
                    break
                if y["k"] == "UnaryOperator" and y["op"] == "&":
                    y = strip(y["c"][0])
                elif y["k"] == "ArraySubscriptExpr":
                    y = strip(y["c"][0])
                elif y["k"] == "BinaryOperator" and y["op"] in ("+", "-"):
                    y = strip(y["c"][0])
                else:
                    break
            if y is not None and y["k"] == "MemberExpr" and (y.get("rec"), y["n"]) in grow:
                derived.append((name, node, key(y["c"][0]), y["n"], y["rec"]))
        if not derived:
            continue
        pos = f.cfg.positions()
        for name, dnode, base, fld, rec in derived:
            root = re.match(r"[\(\*&]*([A-Za-z_]\w*)", base)
            root = root.group(1) if root else base
            # invalidating statements: calls that receive the base object and may store the field; direct stores
            inval = []
            for c in f.calls():
                cal = c.get("callee")
                if not cal or c["i"] not in pos:
                    continue
                args = [key(a) for a in c["c"][1:]]
                if not any(a == base or a == root or a == "&" + base for a in args):
                    continue
                m = P.mods(f, cal)
                if cal == "realloc" or (m is None) or (fld in (m or ())):
                    if cal in ("free", "strlen", "strcmp", "memcpy", "memmove", "strncpy", "memset"):
                        continue
                    inval.append(c)
            for x in f.walk():
                if x["k"] == "BinaryOperator" and x["op"] == "=" and key(x["c"][0]) == base + "->" + fld and x["i"] in pos:
                    inval.append(x)
            if not inval:
                continue
            redefs = {}
            for nm, nd, *_ in derived:
                if nm == name and nd["i"] in pos:
                    b, i = pos[nd["i"]]
                    redefs.setdefault(b, []).append(i)
            for x in f.walk():
                if x["k"] == "BinaryOperator" and x["op"] == "=" and key(x["c"][0]) == name and x["i"] in pos:
                    b, i = pos[x["i"]]
                    redefs.setdefault(b, []).append(i)
            uses = []
            for x in f.walk():
                if x["k"] == "MemberExpr" and x.get("arrow") and key(x["c"][0]) == name:
                    uses.append(x)
                elif x["k"] == "UnaryOperator" and x["op"] == "*" and key(x["c"][0]) == name:
                    uses.append(x)
                elif x["k"] == "ArraySubscriptExpr" and key(x["c"][0]) == name:
                    uses.append(x)
            use_pos = {}
            for u_ in uses:
                if u_["i"] in pos:
                    b, i = pos[u_["i"]]
                    use_pos.setdefault(b, []).append((i, u_))
            n += 1
            found = None
            for iv in inval:
                b0, i0 = pos[iv["i"]]
                # forward search from just after the invalidating statement
                st = [(b0, i0 + 1)]
                seen = set()
                while st and not found:
                    b, start = st.pop()
                    if (b, start > 0) in seen:
                        continue
                    seen.add((b, start > 0))
                    rd = [i for i in redefs.get(b, []) if i >= start]
                    stop_at = min(rd) if rd else 1 << 30
                    for i, u_ in sorted(use_pos.get(b, []), key=lambda t: t[0]):
                        if start <= i < stop_at:
                            found = (iv, u_)
                            break
                    if found or rd:
                        continue
                    for s_ in f.cfg.blocks[b].rsucc:
                        st.append((s_, 0))
            desc = "%s %s: `%s` points into %s->%s" % (f.where(dnode), f.name, name, base, fld)
            chk.obligation(rid, desc + (" and is re-derived after every call that may move the buffer" if not found else ""), not found,
                           sample=False)
            if found:
                iv, u_ = found
                chk.violation(rid, "stale:%s:%s" % (f.name, name), f.where(u_),
                              "%s dereferences `%s` (derived from %s->%s at line %d) after %s at line %d, which may realloc that "
                              "buffer: the pointer may refer to freed memory" % (
                                  f.name, name, base, fld, dnode["l"], iv.get("callee") or "a store to the field", iv["l"]))
    chk.floor(rid, n, 3, "buffer-derived pointers with a possible reallocation in scope")
