"""UB1: intra-procedural interval analysis over clang's CFG (forward, flow- and
branch-sensitive, threshold widening).  Used by R-ARRAY / R-LOOKBEHIND / R-DSTR.

Abstract state: {key -> (lo, hi)} for tracked integer lvalues and guard
expressions, keys as produced by prog.key() on cast-stripped expressions
(locals whose address is never taken, field access paths, and arbitrary
side-effect-free expressions that a branch compared against a constant).
A missing key means "the type's range" (or a caller-supplied field invariant).
Field-path keys are killed by calls that receive their base pointer, by stores
through the same field name, and all keys mentioning an assigned variable are
killed on assignment.

The analysis is sound for what it reports as bounded: an interval it derives
holds on every CFG path.  What it cannot bound is reported by the rules, never
assumed.
"""
import re

from .prog import key, strip, strip_parens, const_value, walk

INF = float("inf")

TYPE_RANGES = {
    "char": (-128, 127), "signed char": (-128, 127), "unsigned char": (0, 255), "_Bool": (0, 1), "bool": (0, 1),
    "short": (-32768, 32767), "unsigned short": (0, 65535), "int": (-2 ** 31, 2 ** 31 - 1),
    "unsigned int": (0, 2 ** 32 - 1), "long": (-2 ** 63, 2 ** 63 - 1), "unsigned long": (0, 2 ** 64 - 1),
    "size_t": (0, 2 ** 64 - 1), "long long": (-2 ** 63, 2 ** 63 - 1), "unsigned long long": (0, 2 ** 64 - 1),
    "uint8_t": (0, 255), "uint16_t": (0, 65535), "uint32_t": (0, 2 ** 32 - 1), "ptrdiff_t": (-2 ** 63, 2 ** 63 - 1),
    "YYCODETYPE": (0, 255), "YYACTIONTYPE": (0, 65535),
}

PURE_CALLS = {"strlen", "strcmp", "strncmp", "memcmp", "char_is_whitespace", "char_is_punctuation", "char_is_alphanumeric",
              "char_is_digit", "char_is_alpha", "char_is_line_ending", "char_is_whitespace_or_line_ending",
              "char_is_whitespace_or_punctuation", "char_is_whitespace_or_line_ending_or_punctuation", "char_is_lower_case",
              "char_is_upper_case", "char_is_windows_line_ending", "char_is_intraword", "tolower", "toupper", "isdigit",
              "isalpha", "isalnum", "isspace", "strchr", "strrchr", "strstr", "abs", "atoi", "__builtin_expect"}


def type_range(t):
    if not t:
        return (-INF, INF)
    t = t.replace("const ", "").replace("volatile ", "").strip()
    if t in TYPE_RANGES:
        return TYPE_RANGES[t]
    if t.startswith("enum "):
        return (0, 2 ** 32 - 1)
    if t.endswith("*"):
        return (-INF, INF)
    return (-INF, INF)


def join(a, b):
    return (min(a[0], b[0]), max(a[1], b[1]))


def meet(a, b):
    return (max(a[0], b[0]), min(a[1], b[1]))


def mentions(k, name):
    return re.search(r"(?<![A-Za-z0-9_])%s(?![A-Za-z0-9_])" % re.escape(name), k) is not None


class UB1:
    def __init__(self, f, field_inv=None, max_iter=60, assume=None, mods=None, clampers=None):
        self.f = f
        self.clampers = clampers or {}
        self.assume = assume or {}
        self.mods = mods
        self.cfg = f.cfg
        self.nodes = f.nodes
        self.field_inv = field_inv or {}
        self.addr_taken = set()
        self.local_types = {}
        for n in f.walk():
            if n["k"] == "UnaryOperator" and n["op"] == "&":
                s = strip(n["c"][0])
                if s is not None and s["k"] == "DeclRefExpr":
                    self.addr_taken.add(s["n"])
            if n["k"] == "VarDecl":
                self.local_types[n["n"]] = n["t"]
        for p in f.params:
            self.local_types[p[0]] = p[1]
        self.thresholds = self._thresholds()
        self.block_in = {}
        self.stmt_state = {}   # stmt id -> state before the statement (first element position)
        self.max_iter = max_iter
        self._run()

    # ------------------------------------------------------------------
    def _thresholds(self):
        ts = set([0, 1, -1])
        for n in self.f.walk():
            v = n.get("cv")
            if v is None and n["k"] in ("IntegerLiteral", "CharacterLiteral"):
                v = n["v"]
            if v is not None and abs(v) < 2 ** 40:
                ts.update((v - 1, v, v + 1))
            if n.get("asz"):
                ts.update((n["asz"] - 1, n["asz"]))
        return sorted(ts)

    def widen_hi(self, old, new):
        if new <= old:
            return old
        for t in self.thresholds:
            if t >= new:
                return t
        return INF

    def widen_lo(self, old, new):
        if new >= old:
            return old
        for t in reversed(self.thresholds):
            if t <= new:
                return t
        return -INF

    # ------------------------------------------------------------------
    def default_range(self, n):
        """Range of an expression we hold no state for."""
        s = strip(n)
        if s is not None and s["k"] == "MemberExpr" and s.get("rec"):
            inv = self.field_inv.get((s["rec"], s["n"]))
            if inv is not None:
                return meet(inv, type_range(s.get("t")))
        return type_range((s or n).get("t"))

    def eval(self, n, st):
        """Interval of expression n in state st."""
        if n is None:
            return (-INF, INF)
        cv = const_value(n)
        if cv is not None:
            return (cv, cv)
        k = n["k"]
        if k in ("ParenExpr", "ConstantExpr"):
            return self.eval(n["c"][0], st)
        if k in ("ImplicitCastExpr", "CStyleCastExpr"):
            inner = self.eval(n["c"][0], st)
            ck = n.get("ck")
            if ck in ("LValueToRValue", "NoOp"):
                return inner
            tr = type_range(n.get("t"))
            if tr[0] <= inner[0] and inner[1] <= tr[1]:
                return inner
            # value does not provably fit the target type: wraps
            return tr
        kk = key(n)
        if kk in st:
            a = self.assume.get(kk)
            return meet(st[kk], a) if a else st[kk]
        if kk in self.assume:
            return self.assume[kk]
        if k == "DeclRefExpr" or k == "MemberExpr" or k == "ArraySubscriptExpr":
            return self.default_range(n)
        if k == "BinaryOperator":
            op = n["op"]
            a, b = n["c"]
            if op == ",":
                return self.eval(b, st)
            if op in ("+", "-", "*", "/", "%", "&", ">>", "<<", "|"):
                A, B = self.eval(a, st), self.eval(b, st)
                r = self._arith(op, A, B)
                tr = type_range(n.get("t"))
                if tr == (-INF, INF):
                    return r
                if r[0] < tr[0]:
                    # may wrap below the type's minimum (for unsigned types: below zero)
                    return tr
                if r[1] > tr[1]:
                    # exceeding the top of a >= 32-bit type needs > 2^31 bytes/steps (stated assumption): clamp;
                    # narrow types wrap
                    return (r[0], tr[1]) if tr[1] >= 2 ** 31 - 1 else tr
                return r
            if op in ("<", ">", "<=", ">=", "==", "!=", "&&", "||"):
                return (0, 1)
            if op == "=":
                return self.eval(b, st)
        if k == "UnaryOperator":
            op = n["op"]
            if op == "-":
                a = self.eval(n["c"][0], st)
                return (-a[1], -a[0])
            if op == "!":
                return (0, 1)
            if op == "+":
                return self.eval(n["c"][0], st)
        if k == "ConditionalOperator":
            return join(self.eval(n["c"][1], st), self.eval(n["c"][2], st))
        if k == "CallExpr":
            c = n.get("callee")
            if c == "strlen":
                return (0, 2 ** 62)
            if c in ("rand", "random"):
                return (0, 2 ** 31 - 1)          # C: rand() returns a value in [0, RAND_MAX]
            return type_range(n.get("t"))
        return type_range(n.get("t"))

    @staticmethod
    def _arith(op, A, B):
        if op == "+":
            return (A[0] + B[0], A[1] + B[1])
        if op == "-":
            return (A[0] - B[1], A[1] - B[0])
        if op == "*":
            if -INF in A or INF in A or -INF in B or INF in B:
                if A[0] >= 0 and B[0] >= 0:
                    return (A[0] * B[0], INF if INF in (A[1], B[1]) else A[1] * B[1])
                return (-INF, INF)
            ps = [A[0] * B[0], A[0] * B[1], A[1] * B[0], A[1] * B[1]]
            return (min(ps), max(ps))
        if op == "/":
            if B[0] >= 1 and A[0] >= 0:
                return (0 if A[0] == 0 else A[0] // max(B[1], 1) if B[1] != INF else 0, A[1] if A[1] == INF else A[1] // B[0])
            return (-INF, INF)
        if op == "%":
            if B[0] >= 1 and B[1] != INF:
                if A[0] >= 0:
                    return (0, min(A[1], B[1] - 1))
                return (-(B[1] - 1), B[1] - 1)
            return (-INF, INF)
        if op == "&":
            if B[0] >= 0 and B[1] != INF:
                return (0, B[1])
            if A[0] >= 0 and A[1] != INF:
                return (0, A[1])
            return (-INF, INF)
        if op == ">>":
            if A[0] >= 0:
                return (0, A[1])
            return (-INF, INF)
        if op == "|":
            if A[0] >= 0 and B[0] >= 0 and A[1] != INF and B[1] != INF:
                m = max(A[1], B[1])
                return (0, (1 << (int(m).bit_length())) - 1)
        return (-INF, INF)

    # ------------------------------------------------------------------
    def trackable(self, n):
        """Can we hold an interval for lvalue/expression n?"""
        s = strip(n)
        if s is None:
            return False
        if s["k"] == "DeclRefExpr":
            # address-taken locals are tracked too, but forgotten at every call and pointer store
            return s.get("dk") in ("Var", "Parm") and not s.get("g")
        if s["k"] == "MemberExpr":
            return True
        return False

    def kill_var(self, st, name):
        for k in [k for k in st if mentions(k, name)]:
            del st[k]

    def kill_field(self, st, field):
        suf1, suf2 = "->" + field, "." + field
        for k in [k for k in st if suf1 in k or suf2 in k]:
            if re.search(r"(->|\.)%s(?![A-Za-z0-9_])" % re.escape(field), k):
                del st[k]

    @staticmethod
    def fit(val, tr):
        """Value stored into an object of range tr.  Narrow types (< 32 bit) wrap: a counter that
        can exceed the type really does come back negative/small.  For >= 32-bit objects overflow
        needs > 2^31 steps or bytes of input, which is outside what these rules model (stated
        assumption): the value is clamped instead."""
        if tr[0] <= val[0] and val[1] <= tr[1]:
            return val
        if tr == (-INF, INF):
            return val
        if tr[1] >= 2 ** 31 - 1:
            m = (max(val[0], tr[0]), min(val[1], tr[1]))
            return m if m[0] <= m[1] else tr
        return tr

    def assign(self, st, lhs, val):
        s = strip(lhs)
        if s is None:
            return
        if s["k"] == "DeclRefExpr":
            self.kill_var(st, s["n"])
            if self.trackable(s):
                st[s["n"]] = self.fit(val, type_range(s.get("t")))
        elif s["k"] == "MemberExpr":
            self.kill_field(st, s["n"])
            st[key(s)] = self.fit(val, type_range(s.get("t")))
        elif s["k"] in ("UnaryOperator", "ArraySubscriptExpr"):
            # store through a pointer / into an array: may alias any field-path or array-element key
            for k in [k for k in st if "->" in k or "[" in k or "*" in k or "strlen(" in k]:
                del st[k]
            for v in self.addr_taken:
                self.kill_var(st, v)

    def transfer(self, n, st):
        k = n["k"]
        if k == "BinaryOperator" and n["op"] == "=":
            self.assign(st, n["c"][0], self.eval(n["c"][1], st))
            l, r = strip(n["c"][0]), strip(n["c"][1])
            if l is not None and r is not None and l["k"] == "DeclRefExpr" and r["k"] in ("DeclRefExpr", "MemberExpr") \
                    and const_value(r) is None:
                st["?rel:%s<%s" % (key(l), key(r))] = (0, 1)     # l <= r
            if l is not None and r is not None and l["k"] == "DeclRefExpr" and r["k"] == "CallExpr" and r.get("callee") in self.clampers:
                # x = clamp(obj, ..): helper proven to return a value <= obj-><field>
                oi, fld = self.clampers[r["callee"]]
                args = r["c"][1:]
                if oi < len(args):
                    st["?rel:%s<%s->%s" % (key(l), key(args[oi]), fld)] = (0, 1)
        elif k == "CompoundAssignOperator":
            op = n["op"][:-1]
            cur = self.eval(n["c"][0], st)
            rhs = self.eval(n["c"][1], st)
            self.assign(st, n["c"][0], self._arith(op, cur, rhs))
        elif k == "UnaryOperator" and n["op"] in ("post++", "pre++", "post--", "pre--"):
            cur = self.eval(n["c"][0], st)
            d = 1 if "++" in n["op"] else -1
            self.assign(st, n["c"][0], (cur[0] + d, cur[1] + d))
        elif k == "DeclStmt":
            for v in n["c"]:
                if v["k"] == "VarDecl":
                    self.kill_var(st, v["n"])
                    if v.get("c") and v["c"][0] is not None and not v.get("asz"):
                        val = self.eval(v["c"][0], st)
                        tr = type_range(v.get("t"))
                        if tr != (-INF, INF):
                            st[v["n"]] = self.fit(val, tr)
                        r = strip(v["c"][0])
                        if r is not None and r["k"] in ("DeclRefExpr", "MemberExpr") and const_value(r) is None:
                            st["?rel:%s<%s" % (v["n"], key(r))] = (0, 1)     # local <= source it was copied from
        elif k == "CallExpr":
            c = n.get("callee")
            if c in PURE_CALLS:
                return
            fields = self.mods(self.f, c) if (self.mods is not None and c is not None) else None
            if fields is not None:
                # callee summary: only the struct fields it (transitively) stores can change
                for kk in [kk for kk in st if "->" in kk or "." in kk]:
                    if any(re.search(r"(->|\.)%s(?![A-Za-z0-9_])" % re.escape(fl), kk) for fl in fields):
                        del st[kk]
                for kk in [kk for kk in st if "strlen(" in kk or "[" in kk]:
                    del st[kk]
            else:
                # kill field paths whose root variable is handed to the callee (or is reachable from a global)
                roots = set()
                for a in n["c"][1:]:
                    for x in walk(a):
                        if x["k"] == "DeclRefExpr" and x.get("dk") in ("Var", "Parm"):
                            roots.add(x["n"])
                for kk in [kk for kk in st if "->" in kk or "." in kk or "[" in kk or "strlen(" in kk]:
                    root = re.match(r"(?:strlen)?[\(\*&]*([A-Za-z_][A-Za-z0-9_]*)", kk)
                    if root is None or root.group(1) in roots or c is None:
                        del st[kk]
            for v in self.addr_taken:
                self.kill_var(st, v)

    # ------------------------------------------------------------------
    def refine(self, cond, st, truth):
        """Refine state st (in place) assuming cond evaluates to `truth`.  Returns False if infeasible."""
        c = strip_parens(cond)
        if c is None:
            return True
        if c["k"] == "ImplicitCastExpr" or c["k"] == "CStyleCastExpr":
            inner = c["c"][0]
            if c.get("ck") in ("LValueToRValue", "IntegralCast", "IntegralToBoolean", "NoOp", "PointerToBoolean"):
                return self.refine(inner, st, truth) if strip(inner)["k"] in ("BinaryOperator", "UnaryOperator") else self._refine_truthy(c, st, truth)
        k = c["k"]
        if k == "UnaryOperator" and c["op"] == "!":
            return self.refine(c["c"][0], st, not truth)
        if k == "BinaryOperator":
            op = c["op"]
            if op == "&&":
                if truth:
                    return self.refine(c["c"][0], st, True) and self.refine(c["c"][1], st, True)
                return True
            if op == "||":
                if not truth:
                    return self.refine(c["c"][0], st, False) and self.refine(c["c"][1], st, False)
                return True
            if op in ("<", ">", "<=", ">=", "==", "!="):
                if not truth:
                    op = {"<": ">=", ">": "<=", "<=": ">", ">=": "<", "==": "!=", "!=": "=="}[op]
                return self._refine_cmp(c["c"][0], op, c["c"][1], st)
        return self._refine_truthy(c, st, truth)

    def _refine_truthy(self, e, st, truth):
        s = strip(e)
        if s is None:
            return True
        cur = self.eval(e, st)
        # idiom: `s[0]` (or `*s`) non-zero  =>  strlen(s) >= 1
        if truth and s["k"] == "ArraySubscriptExpr" and const_value(s["c"][1]) == 0:
            st["strlen(%s)" % key(s["c"][0])] = (1, 2 ** 62)
        elif truth and s["k"] == "UnaryOperator" and s["op"] == "*":
            st["strlen(%s)" % key(s["c"][0])] = (1, 2 ** 62)
        if truth and s["k"] == "DeclRefExpr":
            pre = "?imp:%s:" % s["n"]
            for k2 in [k2 for k2 in st if k2.startswith(pre)]:
                st.setdefault(k2[len(pre):], st[k2])
        if truth:
            if cur == (0, 0):
                return False
            if cur[0] >= 0:
                new = (max(cur[0], 1), cur[1])
            elif cur[1] <= 0:
                new = (cur[0], min(cur[1], -1))
            else:
                return True
        else:
            if cur[0] > 0 or cur[1] < 0:
                return False
            new = (0, 0)
        self._store_fact(e, new, st)
        return True

    def _store_fact(self, e, iv, st):
        s = strip(e)
        if s is None:
            return
        if s["k"] in ("DeclRefExpr",):
            if self.trackable(s):
                st[s["n"]] = iv
        elif s["k"] in ("MemberExpr", "BinaryOperator", "ArraySubscriptExpr", "CallExpr", "UnaryOperator"):
            if s["k"] == "CallExpr" and s.get("callee") not in PURE_CALLS:
                return
            if s["k"] == "UnaryOperator" and s["op"] not in ("-", "*"):
                return
            st[key(s)] = iv

    def _refine_cmp(self, a, op, b, st):
        A, B = self.eval(a, st), self.eval(b, st)
        if op == "<":
            na, nb = (A[0], min(A[1], B[1] - 1)), (max(B[0], A[0] + 1), B[1])
        elif op == "<=":
            na, nb = (A[0], min(A[1], B[1])), (max(B[0], A[0]), B[1])
        elif op == ">":
            na, nb = (max(A[0], B[0] + 1), A[1]), (B[0], min(B[1], A[1] - 1))
        elif op == ">=":
            na, nb = (max(A[0], B[0]), A[1]), (B[0], min(B[1], A[1]))
        elif op == "==":
            m = meet(A, B)
            na = nb = m
        else:  # !=
            na, nb = A, B
            if B[0] == B[1]:
                if A[0] == B[0]:
                    na = (A[0] + 1, A[1])
                elif A[1] == B[0]:
                    na = (A[0], A[1] - 1)
            if A[0] == A[1]:
                if B[0] == A[0]:
                    nb = (B[0] + 1, B[1])
                elif B[1] == A[0]:
                    nb = (B[0], B[1] - 1)
        if na[0] > na[1] or nb[0] > nb[1]:
            return False
        if const_value(a) is None and na != A:
            self._store_through_casts(a, na, st)
        if const_value(b) is None and nb != B:
            self._store_through_casts(b, nb, st)
        # relational fact for symbolic bounds (VLA sizes, field-bounded loops)
        if op in ("<", "<=") and const_value(a) is None and const_value(b) is None:
            st["?rel:%s<%s" % (key(a), key(b))] = (0, 0) if op == "<" else (0, 1)
        if op in (">", ">=") and const_value(a) is None and const_value(b) is None:
            st["?rel:%s<%s" % (key(b), key(a))] = (0, 0) if op == ">" else (0, 1)
        return True

    def _store_through_casts(self, e, iv, st):
        """A bound on (cast)x is a bound on x only if the cast cannot have changed the value."""
        n = strip_parens(e)
        while n is not None and n["k"] in ("ImplicitCastExpr", "CStyleCastExpr"):
            inner = n["c"][0]
            if n.get("ck") in ("LValueToRValue", "NoOp"):
                n = strip_parens(inner)
                continue
            ir = self.eval(inner, st)
            tr = type_range(n.get("t"))
            if not (tr[0] <= ir[0] and ir[1] <= tr[1]):
                # e.g. (size_t) of a possibly negative value: the comparison talks about the wrapped value
                if ir[0] < 0 and tr[0] == 0 and iv[1] < 2 ** 31:
                    # x converted to unsigned and found <= small bound  =>  0 <= x <= bound as well
                    iv = (max(iv[0], 0), iv[1])
                    n = strip_parens(inner)
                    continue
                return
            n = strip_parens(inner)
        self._store_fact(n, iv, st)

    # ------------------------------------------------------------------
    def _edge_states(self, b, st):
        """[(succ id, state)] leaving block b with out-state st."""
        out = []
        rs = b.succ
        if b.term is not None and b.term >= 0 and b.tk in ("IfStmt", "WhileStmt", "ForStmt", "DoStmt", "BinaryOperator",
                                                           "ConditionalOperator") and len(rs) == 2:
            cond = self.nodes.get(b.el[-1]) if b.el else None
            t = self.nodes.get(b.term)
            # for && / || terminators the block's last element is the operand that was just evaluated
            # (the terminator's own LHS may be a whole sub-disjunction)
            if b.tk == "ForStmt" and t is not None and t["c"][1] is None:
                cond = None
            for i, truth in ((0, True), (1, False)):
                s = rs[i]
                if s is None or not s[1]:
                    continue
                ns = dict(st)
                if cond is not None and not self.refine(cond, ns, truth):
                    continue
                out.append((s[0], ns))
            return out
        if b.tk == "SwitchStmt" and b.term is not None and b.term >= 0:
            t = self.nodes.get(b.term)
            cond = t["c"][0]
            cases = []
            for s in rs:
                if s is None or not s[1]:
                    continue
                sb = self.cfg.blocks[s[0]]
                lab = self.nodes.get(sb.label) if sb.label is not None and sb.label >= 0 else None
                ns = dict(st)
                if lab is not None and lab["k"] == "CaseStmt" and "v" in lab and not lab.get("range"):
                    cur = self.eval(cond, ns)
                    if not (cur[0] <= lab["v"] <= cur[1]):
                        continue
                    self._store_through_casts(cond, (lab["v"], lab["v"]), ns)
                out.append((s[0], ns))
            return out
        for s in rs:
            if s is not None and s[1]:
                out.append((s[0], dict(st)))
        return out

    def _loop_heads(self):
        """Targets of back edges (DFS): the only places where widening is applied."""
        cfg = self.cfg
        heads = set()
        color = {}
        st = [(cfg.entry, iter(cfg.blocks[cfg.entry].rsucc))]
        color[cfg.entry] = 1
        while st:
            b, it = st[-1]
            adv = False
            for s in it:
                if color.get(s) == 1:
                    heads.add(s)
                elif s not in color:
                    color[s] = 1
                    st.append((s, iter(cfg.blocks[s].rsucc)))
                    adv = True
                    break
            if not adv:
                color[b] = 2
                st.pop()
        return heads

    def _run(self):
        cfg = self.cfg
        heads = self._loop_heads()
        init = {}
        self.block_in = {cfg.entry: init}
        visits = {}
        work = [cfg.entry]
        inwork = {cfg.entry}
        steps = 0
        while work:
            bid = work.pop(0)
            inwork.discard(bid)
            steps += 1
            if steps > 200000:
                break
            b = cfg.blocks[bid]
            st = dict(self.block_in[bid])
            for e in b.el:
                if e < 0:
                    continue
                n = self.nodes.get(e)
                if n is None:
                    continue
                self.transfer(n, st)
            if b.noret:
                continue
            for sid, ns in self._edge_states(b, st):
                old = self.block_in.get(sid)
                if old is None:
                    self.block_in[sid] = ns
                    changed = True
                else:
                    merged = {}
                    v = visits.get(sid, 0)
                    self._implications(old, ns, merged)
                    for k2 in old:
                        if k2 in ns:
                            j = join(old[k2], ns[k2])
                            if v > 3 and sid in heads and j != old[k2]:
                                j = (self.widen_lo(old[k2][0], j[0]), self.widen_hi(old[k2][1], j[1]))
                                tr = type_range(self.local_types.get(k2))
                                if tr != (-INF, INF):
                                    j = (max(j[0], tr[0]), min(j[1], tr[1]))
                            merged[k2] = j
                    changed = merged != old
                    if changed:
                        self.block_in[sid] = merged
                if changed:
                    visits[sid] = visits.get(sid, 0) + 1
                    if sid not in inwork:
                        work.append(sid)
                        inwork.add(sid)
        # final pass: record the state in front of every statement
        self.stmt_state = {}
        for bid, st0 in self.block_in.items():
            b = cfg.blocks[bid]
            st = dict(st0)
            for e in b.el:
                if e < 0:
                    continue
                n = self.nodes.get(e)
                if n is None:
                    continue
                if e not in self.stmt_state:
                    self.stmt_state[e] = dict(st)
                self.transfer(n, st)

    def _implications(self, a, b, merged):
        """Facts that hold on one side of a join only, where the two sides differ in the truth of a boolean local: kept as
        `flag => fact` (`?imp:<flag>:<fact key>`), re-installed when a later branch tests the flag true
        (`bool in_range = ..; if (in_range && x < y) break; ... if (in_range) { here x >= y }`)."""
        flags = [nm for nm, t in self.local_types.items() if (t or "").replace("const ", "").strip() in ("bool", "_Bool")
                 and nm not in self.addr_taken]
        for fl in flags:
            for hot, cold in ((a, b), (b, a)):
                if hot.get(fl) == (1, 1) and cold.get(fl) == (0, 0):
                    for k2, v2 in hot.items():
                        if k2.startswith("?rel:") and k2 not in cold and not mentions(k2, fl):
                            merged["?imp:%s:%s" % (fl, k2)] = v2
        # an implication already recorded on one side survives if the other side satisfies it (flag false, or the fact itself)
        for x, y in ((a, b), (b, a)):
            for k2, v2 in x.items():
                if not k2.startswith("?imp:") or k2 in y or k2 in merged:
                    continue
                _, fl, fact = k2.split(":", 2)
                if y.get(fl) == (0, 0) or (fact in y and y[fact][0] >= v2[0] and y[fact][1] <= v2[1]):
                    merged[k2] = v2

    # ------------------------------------------------------------------
    def state_at(self, n):
        """Abstract state just before statement/expression n is evaluated (None if unreachable)."""
        x = n
        while x is not None:
            i = x.get("i")
            if i in self.stmt_state:
                return self.stmt_state[i]
            x = self.f.parent(x)
        return None

    def interval_at(self, expr, at=None):
        st = self.state_at(at if at is not None else expr)
        if st is None:
            return None
        return self.eval(expr, st)

    def rel_less(self, a_key, b_key, at):
        st = self.state_at(at)
        if st is None:
            return False
        v = st.get("?rel:%s<%s" % (a_key, b_key))
        return v == (0, 0)
