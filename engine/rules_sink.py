"""R-SINK (C04, C08): document-derived strings reach XML/HTML output only through the format's escaper;
raw token text is never printed for token types whose lexeme contains a reserved character."""
import re

from .prog import (AnalysisBroken, key, strip, walk, const_value, enum_name, edpe_blocks, block_nodes, tok_dkey, tok_param)

XML_UNITS = {"html.c": "html", "opendocument-content.c": "odf", "opendocument.c": "odf", "opml.c": "opml", "itmz.c": "itmz",
             "epub.c": "html"}

# record.field -> is the stored string document-derived (True) or sanitised/generated (False)
FIELD_TAINT = {
    ("link", "url"): True, ("link", "title"): True, ("link", "clean_text"): True, ("link", "label_text"): False,
    ("attr", "key"): True, ("attr", "value"): True,
    ("meta", "value"): True, ("meta", "key"): False,
    ("asset", "url"): True, ("asset", "asset_path"): False,
    ("footnote", "clean_text"): True, ("footnote", "label_text"): True,      # abbreviations store clean_text as their label
    ("abbr", "abbr"): True, ("abbr", "expansion"): True,
    ("scratch_pad", "bibtex_file"): True,
}
TAINT_CALLS = {"text_inside_pair", "clean_inside_pair", "clean_string", "clean_string_from_range", "clean_string_from_token",
               "my_strndup", "my_strdup", "get_fence_language_specifier", "extract_metadata", "url_accept",
               "d_string_copy_substring", "mmd_engine_metavalue_for_key", "xml_extract_named_attribute", "strstr", "strchr",
               "strrchr", "strpbrk", "strtok", "strdup", "strndup", "memchr", "basename",
               "correct_dimension_units"}
SAFE_CALLS = {"label_from_string", "label_from_token", "label_from_header", "uuid_new", "Translate", "label_from_attributes"}
ESCAPERS = {"mmd_print_string_latex", "mmd_print_char_latex", "mmd_print_string_html", "mmd_print_char_html", "mmd_print_string_opendocument", "mmd_print_char_opendocument",
            "mmd_print_source_opml", "mmd_print_source_itmz", "mmd_print_localized_char_html",
            "mmd_print_localized_char_opendocument", "mmd_print_source_html"}

# Documented raw pass-through of document text into the output: (function, reason)
# Reviewed sites: (function, data key substring) -> reason
SINK_REVIEWED = {
    ("mmd_export_token_opendocument", "&source[(t->start+4)]"):
        "dead branch: PAIR_ANGLE whose text scans as an HTML comment - the lexer emits HTML_COMMENT_START for `<!--`, so an "
        "ANGLE_LEFT never begins a comment (confirmed: `a <!-- x<y --> b` -t fodt drops the comment through PAIR_HTML_COMMENT)",
}

# Metadata keys whose values are documented as raw HTML inserted verbatim into the complete document
RAW_META_KEYS = {"htmlheader", "xhtmlheader", "htmlfooter"}


def in_raw_meta_branch(f, n):
    """Is n only executed when the metadata key equals one of the documented raw keys?  Decided by path condition: with every
    `strcmp(.., "<raw key>")` decided "different", n must be unreachable (whatever the shape: if / else-if chains, `a || b`,
    early `continue`)."""
    from .prog import edpe_blocks
    found = []

    def lit_of(c):
        if c is not None and c["k"] == "CallExpr" and c.get("callee") == "strcmp":
            for x in c["c"][1:]:
                sx = strip(x)
                if sx is not None and sx["k"] == "StringLiteral" and sx.get("s") in RAW_META_KEYS:
                    return sx["s"]
        return None

    def decide(t_):
        t2 = strip(t_)
        if t2 is None:
            return None
        l = lit_of(t2)
        if l is not None:
            found.append(l)
            return True                  # non-zero: the key is not this raw key
        if t2["k"] == "BinaryOperator" and t2["op"] in ("==", "!=") and const_value(t2["c"][1]) == 0:
            l = lit_of(strip(t2["c"][0]))
            if l is not None:
                found.append(l)
                return t2["op"] == "!="
        return None
    pos = f.cfg.positions()
    z = n
    while z is not None and z.get("i") not in pos:
        z = f.parent(z)
    if z is None:
        return None
    blocks = edpe_blocks(f, "?none", 0, extra_decide=decide)
    if found and pos[z["i"]][0] not in blocks:
        return sorted(set(found))[0]
    return None


def tainted_at(f, name, at, depth=0):
    """Is local `name` document-derived at statement `at`?  Reaching definitions, recursively."""
    from .rules_anchor import _reaching_defs
    if depth > 4:
        return True
    defs = _reaching_defs(f, name, at)
    if not defs:
        return False
    for d in defs:
        if d["k"] == "BinaryOperator":
            rhs, here = d["c"][1], d
        else:
            rhs = d["c"][0] if d.get("c") else None
            here = f.parent(d) if "i" not in d else d
        if rhs is None:
            continue
        if _tainted(f, rhs, here if here is not None and "i" in here else at, depth + 1):
            return True
    return False


def _tainted(f, e, at, depth=0):
    s = strip(e)
    if s is None:
        return False
    if s["k"] == "DeclRefExpr" and s.get("dk") == "Var":
        return tainted_at(f, s["n"], at, depth)
    return is_tainted(f, e, _AtView(f, at, depth))


class _AtView:
    """set-like view: `name in view` = tainted at the given statement"""

    def __init__(self, f, at, depth):
        self.f, self.at, self.depth = f, at, depth

    def __contains__(self, name):
        return tainted_at(self.f, name, self.at, self.depth + 1)


def in_raw_filter(f, n, depth=0):
    """Is n inside an `if (raw_filter_text_matches(..))` / `{=format}` raw-source branch - in f itself, or (f a static helper
    the branch body was extracted into) at every call site of f in its unit?"""
    for a in f.ancestors(n):
        if a["k"] == "IfStmt":
            for x in walk(a["c"][0]):
                if x["k"] == "CallExpr" and x.get("callee") in ("raw_filter_text_matches", "raw_filter_matches"):
                    return True
    if f.static and depth < 2:
        sites = [(g, c) for g in f.unit.funcs.values() if g is not f for c in g.calls(f.name)]
        # its address must not be taken either (a call through a pointer would not be seen)
        refs = sum(1 for g in f.unit.funcs.values() for x in g.walk() if x["k"] == "DeclRefExpr" and x.get("n") == f.name)
        if sites and refs == len(sites) and all(in_raw_filter(g, c, depth + 1) for g, c in sites):
            return True
    return False


def tainted_vars(f):
    """Locals that may hold document-derived text (flow-insensitive fixpoint)."""
    t = set()
    changed = True
    n_iter = 0
    while changed and n_iter < 6:
        changed = False
        n_iter += 1
        for x in f.walk():
            name = rhs = None
            if x["k"] == "VarDecl" and x.get("c") and x["c"][0] is not None:
                name, rhs = x["n"], x["c"][0]
            elif x["k"] == "BinaryOperator" and x["op"] == "=":
                l = strip(x["c"][0])
                if l is not None and l["k"] == "DeclRefExpr":
                    name, rhs = l["n"], x["c"][1]
            if name is None or name in t:
                continue
            if is_tainted(f, rhs, t):
                t.add(name)
                changed = True
    return t


_PARM_BUSY = set()


def is_tainted(f, e, tv):
    s = strip(e)
    if s is None:
        return False
    k = s["k"]
    if k == "StringLiteral" or const_value(s) is not None:
        return False
    if k == "MemberExpr" and s.get("rec"):
        ft = FIELD_TAINT.get((s["rec"], s["n"]))
        if ft is not None:
            return ft
        return False
    if k == "DeclRefExpr":
        if s.get("dk") == "Var":
            return s["n"] in tv
        if s.get("dk") == "Parm":
            if f.static and (f.name, s["n"]) not in _PARM_BUSY:
                # a static helper's parameter is what its callers pass (all call sites are in this unit)
                pi = [i for i, q in enumerate(f.params) if q[0] == s["n"]]
                sites = [(g, c) for g in f.unit.funcs.values() if g is not f for c in g.calls(f.name)]
                refs = sum(1 for g in f.unit.funcs.values() for x in g.walk() if x["k"] == "DeclRefExpr" and x.get("n") == f.name)
                if pi and sites and refs == len(sites) and all(1 + pi[0] < len(c["c"]) for g, c in sites):
                    _PARM_BUSY.add((f.name, s["n"]))
                    try:
                        return any(_tainted(g, c["c"][1 + pi[0]], c) for g, c in sites)
                    finally:
                        _PARM_BUSY.discard((f.name, s["n"]))
            return s["n"] in ("source", "str", "text", "url", "title", "value", "string") and "char" in (s.get("t") or "")
        return False
    if k == "CallExpr":
        c = s.get("callee")
        if c in SAFE_CALLS:
            return False
        if c in TAINT_CALLS:
            return True
        return False
    if k == "UnaryOperator" and s["op"] == "&":
        inner = strip(s["c"][0])
        if inner is not None and inner["k"] == "ArraySubscriptExpr":
            return is_tainted(f, inner["c"][0], tv)
        return False
    if k == "ArraySubscriptExpr":
        return is_tainted(f, s["c"][0], tv)
    if k == "BinaryOperator" and s["op"] in ("+", "-"):
        return is_tainted(f, s["c"][0], tv)
    if k == "ConditionalOperator":
        return is_tainted(f, s["c"][1], tv) or is_tainted(f, s["c"][2], tv)
    return False


def _fmt_dirs(call):
    fmt = strip(call["c"][2])
    if fmt is None or fmt["k"] != "StringLiteral":
        return None, []
    out = []
    args = call["c"][3:]
    ai = 0
    for m in re.finditer(r"%(?:%|[-+ #0]*\d*(?:\.\d+)?(?:hh|h|ll|l|z)?([diouxXcsfgp]))", fmt["s"]):
        if m.group(0) == "%%":
            continue
        out.append((m.group(1), args[ai] if ai < len(args) else None, m.start()))
        ai += 1
    return fmt["s"], out


def is_token_text(a):
    """&source[t->start] / &source[t->start + k] style argument: the token's own lexeme (or a suffix of it)"""
    s = strip(a)
    if s is not None and s["k"] == "UnaryOperator" and s["op"] == "&":
        i = strip(s["c"][0])
        if i is not None and i["k"] == "ArraySubscriptExpr":
            k = key(i["c"][1])
            return bool(re.match(r"^\(?\w+->start(\+\d+\))?$", k))
    return False


def r_sink(P, chk, units=None, prop="C08"):
    rid = "R-SINK"
    chk.rule(rid, "in the XML/HTML writers, document-derived strings (urls, titles, attribute keys/values, metadata values, fence "
                  "info strings, clean_string results ...) reach the output only through the format's escape helpers")
    n_sinks = 0
    n_tainted = 0
    for f in P.all_funcs:
        if f.unit.base not in XML_UNITS or not P.first_party(f):
            continue
        if units is not None and f.unit.base not in units:
            continue
        if not f.file.endswith(".c"):
            continue
        if f.name in ESCAPERS:
            continue        # the escapers themselves: what they may copy raw is R-ESCAPER's obligation
        tv = None
        for c in f.calls():
            cal = c.get("callee")
            data = []
            if cal == "d_string_append" and len(c["c"]) > 2:
                data = [("%s", c["c"][2], "print")]
            elif cal == "d_string_append_printf":
                s, dirs = _fmt_dirs(c)
                if s is None:
                    continue
                data = [(conv, a, "printf %" + conv + " in " + repr(s[max(0, p - 18):p + 4])) for conv, a, p in dirs if conv in ("s", "c") and a is not None]
            elif cal == "d_string_append_c_array" and len(c["c"]) > 2 and not is_token_text(c["c"][2]):
                data = [("%s", c["c"][2], "print_c_array")]
            else:
                continue
            for conv, a, how in data:
                sa = strip(a)
                if sa is None or sa["k"] == "StringLiteral" or const_value(sa) is not None:
                    continue
                n_sinks += 1
                if not _tainted(f, a, c):
                    chk.obligation(rid, "%s %s: %s of `%s` (not document-derived)" % (f.where(c), f.name, how, key(a)[:40]), True,
                                   sample=False, nontrivial=False)
                    continue
                n_tainted += 1
                desc = "%s %s: %s of document-derived `%s`" % (f.where(c), f.name, how, key(a)[:40])
                if in_raw_filter(f, c):
                    chk.obligation(rid, desc + " - raw source for this format ({=format} filter), documented pass-through", True)
                    continue
                rev = [r for (fn, sub), r in SINK_REVIEWED.items() if fn == f.name and sub in key(a)]
                if rev:
                    chk.obligation(rid, desc + " - reviewed: " + rev[0], True)
                    note = "R-SINK reviewed %s: %s" % (f.name, rev[0])
                    if note not in chk.notes:
                        chk.notes.append(note)
                    continue
                rawkey = in_raw_meta_branch(f, c)
                if rawkey:
                    chk.obligation(rid, desc + " - `%s` metadata is documented as raw HTML inserted verbatim" % rawkey, True)
                    continue
                chk.obligation(rid, desc, False)
                chk.violation(rid, "sink:%s:%s:%s" % (f.base, f.name, key(a)[:40]), f.where(c),
                              "%s writes document-derived `%s` into the %s output with %s, bypassing the escape helper: a \", &, < or > "
                              "in it breaks out of the attribute / element" % (f.name, f.src(a)[:60], XML_UNITS[f.unit.base], how))
    chk.floor(rid, n_sinks, 35, "non-literal string sinks in the XML/HTML writers")
    chk.analysed[rid] = {"non_literal_sinks": n_sinks, "document_derived": n_tainted}


# ---------------------------------------------------------------------------
# raw token text

# (dispatcher, type) where raw token text is the documented behaviour
RAWTOKEN_REVIEWED = {
    ("mmd_export_token_html", "HTML_ENTITY"): "an HTML entity in the source (`&copy;`) passes through to HTML output as that entity by design",
}

XML_DISPATCHERS = [
    ("html.c", "mmd_export_token_html"), ("html.c", "mmd_export_token_html_raw"), ("html.c", "mmd_export_token_html_math"),
    ("opendocument-content.c", "mmd_export_token_opendocument"), ("opendocument-content.c", "mmd_export_token_opendocument_raw"),
    ("opendocument-content.c", "mmd_export_token_opendocument_math"),
]
ENTITY = re.compile(r"&(lt|gt|amp|quot);")


def _branch(f, v):
    from .rules_critic import _switch_block
    start = _switch_block(f)
    blocks = edpe_blocks(f, tok_dkey(f), v, start=start)
    sw = f.nodes.get(f.cfg.blocks[start].term)
    if sw is None or sw["k"] != "SwitchStmt":
        # dispatch written as an if-chain: the branch is whatever is reachable for this value
        return [n for n in block_nodes(f, blocks) if n["k"] == "CallExpr"]
    pos = f.cfg.positions()
    inside = {pos[y["i"]][0] for y in walk(sw["c"][1]) if y.get("i") in pos}
    return [n for n in block_nodes(f, [b for b in blocks if b in inside]) if n["k"] == "CallExpr"]


def r_rawtoken(P, chk):
    rid = "R-SINK/token"
    chk.rule(rid, "token types whose lexeme contains a reserved character (those some XML dispatcher renders as an entity) are "
                  "never printed as raw token text by any HTML/ODF dispatcher (main, raw, math)")
    tt = dict(P.enumerators("token_types"))
    funcs = []
    for unit, fn in XML_DISPATCHERS:
        u = P.units.get(unit)
        if u and fn in u.funcs:
            funcs.append(u.funcs[fn])
    if len(funcs) < 5:
        raise AnalysisBroken("XML dispatchers not found")
    effects = {}
    reserved = {}
    for f in funcs:
        for name, v in tt.items():
            calls = _branch(f, v)
            lits = []
            raw = None
            for c in calls:
                cal = c.get("callee")
                if cal in ("d_string_append", "d_string_append_c_array"):
                    a = strip(c["c"][2])
                    if a is not None and a["k"] == "StringLiteral":
                        lits.append(a["s"])
                    elif cal == "d_string_append_c_array" and re.match(r"^&\w+\[\w+->start\]$", key(strip(c["c"][2]))):
                        raw = c
            effects[(f.name, name)] = (lits, raw)
            if any(ENTITY.search(l) for l in lits) and raw is None:
                reserved.setdefault(name, []).append(f.name)
    chk.floor(rid, len(reserved), 8, "token types rendered as entities by some dispatcher")
    n = 0
    for name in sorted(reserved):
        for f in funcs:
            lits, raw = effects[(f.name, name)]
            n += 1
            ok = raw is None
            if not ok and (f.name, name) in RAWTOKEN_REVIEWED:
                chk.obligation(rid, "%s x %s: reviewed - %s" % (f.name, name, RAWTOKEN_REVIEWED[(f.name, name)]), True)
                continue
            chk.obligation(rid, "%s x %s: %s" % (f.name, name, "escaped / not printed raw" if ok else "RAW token text"), ok, sample=(n % 17 == 0))
            if not ok:
                chk.violation(rid, "rawtoken:%s:%s" % (f.name, name), f.where(raw),
                              "%s prints the raw source text of a %s token, whose lexeme contains a reserved character (%s renders "
                              "it as an entity): ill-formed XML inside code / math" % (f.name, name, reserved[name][0]))
    # a PAIR_* token spans arbitrary child text.  OpenDocument has no raw pass-through of source markup (HTML has: raw HTML,
    # comments), so its main dispatcher must never print the source text of a pair: the children have to go through the dispatcher
    main = [f for f in funcs if f.name == "mmd_export_token_opendocument"]
    if not main:
        raise AnalysisBroken("mmd_export_token_opendocument not found")
    npair = 0
    for name in sorted(tt):
        if not name.startswith("PAIR_"):
            continue
        lits, raw = effects[(main[0].name, name)]
        npair += 1
        chk.obligation(rid, "%s x %s: %s" % (main[0].name, name, "children exported" if raw is None else "RAW text of the whole pair"),
                       raw is None, sample=(npair % 11 == 0))
        if raw is not None:
            chk.violation(rid, "rawpair:%s:%s" % (main[0].name, name), main[0].where(raw),
                          "%s prints the raw source text of a %s token: the pair spans arbitrary document text (`{=<b>&}`), so "
                          "<, > and & reach the XML unescaped" % (main[0].name, name))
    chk.floor(rid, npair, 30, "pair token types")
    chk.analysed[rid] = {"reserved_types": sorted(reserved), "dispatchers": [f.name for f in funcs]}


# ---------------------------------------------------------------------------
# R-SINK/latex (C04): document text reaches LaTeX output through the LaTeX escaper, unless it is printed where LaTeX
# expects an identifier, a file name, a URL or a key=value option (contexts where escaping would be wrong)

LATEX_UNITS = ("latex.c", "beamer.c", "memoir.c")
# raw LaTeX by documentation: the latex* metadata keys carry LaTeX code / file names
RAW_META_KEYS_LATEX = {"latexheader", "latextitle", "latexauthor", "latexfooter", "latexbegin", "latexleader", "latexconfig",
                       "latexinput", "bibtex", "bibliocommand"}
# what the literal text immediately before the argument must end with for the argument to be an identifier / path / option
LATEX_ID_CONTEXT = re.compile(
    r"(\\(href|url|input|include|bibliography|nocite|gls|Gls|newglossaryentry|longnewglossaryentry|newacronym|label|autoref|ref|"
    r"hyperref|bibitem|cite[a-z]*|begin|end)(\[[^\]]*\])?\{[^{}]*$)|(\]\{$)|((language|width|height|scale)=$)|(^\{$)|(\\bibliography\{$)")


def _prev_literal(f, call):
    """The literal text that is printed immediately before `call` on every path: the nearest preceding statement that
    prints (looking through enclosing blocks - the first statement of a branch continues at the statement before the
    `if`), skipping statements that print nothing and `if`s that only add literal text."""
    def lit_of(st):
        st = strip(st)
        if st is not None and st["k"] == "CallExpr" and st.get("callee") in ("d_string_append", "d_string_append_c_array", "d_string_append_printf") and len(st["c"]) > 2:
            a = strip(st["c"][2])
            if a is not None and a["k"] == "StringLiteral":
                return a["s"]
        return None

    def prints(st):
        return [x for x in walk(st) if x["k"] == "CallExpr" and (
            (x.get("callee") or "").startswith("d_string_") or (x.get("callee") or "").startswith("mmd_print") or
            (x.get("callee") or "").startswith("mmd_export"))]
    node = call
    for _ in range(6):
        p = f.parent(node)
        while p is not None and p["k"] not in ("CompoundStmt", "CaseStmt", "DefaultStmt"):
            node, p = p, f.parent(p)
        if p is None:
            return None
        sibs = [c for c in p["c"] if c is not None]
        idx = next((i2 for i2, c in enumerate(sibs) if c is node), None)
        if idx is None:
            return None
        j2 = idx - 1
        while j2 >= 0:
            st = sibs[j2]
            l = lit_of(st)
            if l is not None:
                return l
            pr = prints(st)
            if not pr:
                j2 -= 1              # prints nothing (assignment, free, ...)
                continue
            if st["k"] == "IfStmt" and all(lit_of(x) is not None for x in pr):
                j2 -= 1              # an `if` that only adds literal text (optional "mailto:" prefix)
                continue
            return None
        # first printing statement of this block: continue before the enclosing statement
        node = p
        if p["k"] in ("CaseStmt", "DefaultStmt"):
            return None
    return None


def _raw_by_flag(P, f, c, a):
    """The sink sits in a static helper `h(.., value, flag)` that prints `value` raw only for one value of a boolean parameter
    and escaped otherwise.  Then the obligation is the callers': every call that selects the raw branch must itself stand in a
    documented raw-LaTeX metadata branch."""
    from .prog import edpe_blocks
    sa = strip(a)
    if not f.static or sa is None or sa["k"] != "DeclRefExpr" or sa.get("dk") != "Parm":
        return None
    pos = f.cfg.positions()
    z = c
    while z is not None and z.get("i") not in pos:
        z = f.parent(z)
    if z is None:
        return None
    blk = pos[z["i"]][0]
    vi = [i for i, q in enumerate(f.params) if q[0] == sa["n"]][0]
    for qi, q in enumerate(f.params):
        if q[1].replace("const", "").strip() not in ("bool", "_Bool", "int", "short"):
            continue
        for raw_when in (True, False):
            def decide(t_, qn=q[0], val=not raw_when):
                t2 = strip(t_)
                if t2 is not None and t2["k"] == "DeclRefExpr" and t2["n"] == qn:
                    return val
                return None
            if blk in edpe_blocks(f, "?none", 0, extra_decide=decide):
                continue          # still reachable for the other value: the flag does not govern the sink
            sites = [(g, c2) for g in f.unit.funcs.values() if g is not f for c2 in g.calls(f.name)]
            if not sites:
                return None
            saved = set(RAW_META_KEYS)
            RAW_META_KEYS.update(RAW_META_KEYS_LATEX)
            try:
                for g, c2 in sites:
                    if 1 + max(qi, vi) >= len(c2["c"]):
                        return None
                    cv = const_value(c2["c"][1 + qi])
                    if cv is not None and bool(cv) != raw_when:
                        continue      # this call selects the escaped branch
                    if not in_raw_meta_branch(g, c2):
                        return None
            finally:
                RAW_META_KEYS.clear()
                RAW_META_KEYS.update(saved)
            return "printed raw only when `%s` is %s, and every call that passes that value stands in a raw-LaTeX metadata branch" % (
                q[0], "true" if raw_when else "false")
    return None


def r_sink_latex(P, chk):
    rid = "R-SINK/latex"
    chk.rule(rid, "in the LaTeX writers, document-derived strings are printed through mmd_print_string_latex unless the literal "
                  "text before them shows an identifier / file / URL / option position (\\href{, \\input{, \\gls{, language=, ...) "
                  "or the value is a documented raw-LaTeX metadata key")
    n_sinks = n_tainted = 0
    for f in P.all_funcs:
        if f.unit.base not in LATEX_UNITS or not P.first_party(f) or not f.file.endswith(".c") or f.name in ESCAPERS:
            continue
        for c in f.calls():
            cal = c.get("callee")
            data = []
            if cal == "d_string_append" and len(c["c"]) > 2:
                data = [(c["c"][2], "print", _prev_literal(f, c))]
            elif cal == "d_string_append_printf":
                s, dirs = _fmt_dirs(c)
                if s is None:
                    continue
                data = [(a, "printf %" + conv + " in " + repr(s[max(0, p - 18):p + 4]), s[:p]) for conv, a, p in dirs if conv in ("s",) and a is not None]
            else:
                continue
            for a, how, ctx in data:
                sa = strip(a)
                if sa is None or sa["k"] == "StringLiteral" or const_value(sa) is not None:
                    continue
                n_sinks += 1
                if not _tainted(f, a, c):
                    chk.obligation(rid, "%s %s: %s of `%s` (not document-derived)" % (f.where(c), f.name, how, key(a)[:40]), True,
                                   sample=False, nontrivial=False)
                    continue
                n_tainted += 1
                desc = "%s %s: %s of document-derived `%s`" % (f.where(c), f.name, how, key(a)[:40])
                if in_raw_filter(f, c):
                    chk.obligation(rid, desc + " - {=latex} raw source, documented pass-through", True)
                    continue
                if ctx is not None and LATEX_ID_CONTEXT.search(ctx):
                    chk.obligation(rid, desc + " - identifier / file / URL / option position after %r" % ctx[-24:], True)
                    continue
                saved = set(RAW_META_KEYS)
                RAW_META_KEYS.update(RAW_META_KEYS_LATEX)
                try:
                    rawkey = in_raw_meta_branch(f, c)
                finally:
                    RAW_META_KEYS.clear()
                    RAW_META_KEYS.update(saved)
                if rawkey:
                    chk.obligation(rid, desc + " - `%s` metadata is documented as raw LaTeX" % rawkey, True)
                    continue
                via = _raw_by_flag(P, f, c, a)
                if via:
                    chk.obligation(rid, desc + " - " + via, True)
                    continue
                chk.obligation(rid, desc, False)
                tag = re.sub(r"[^A-Za-z=\\\[{]", "", (ctx or ""))[-14:]
                chk.violation(rid, "sink:%s:%s:%s@%s" % (f.base, f.name, key(a)[:40], tag), f.where(c),
                              "%s writes document-derived `%s` into LaTeX output with %s (text position, after %r) bypassing "
                              "mmd_print_string_latex: a %% & _ # $ { } in it is not escaped" % (f.name, f.src(a)[:60], how, (ctx or "")[-20:]))
    chk.floor(rid, n_sinks, 25, "non-literal string sinks in the LaTeX writers")
    chk.analysed[rid] = {"non_literal_sinks": n_sinks, "document_derived": n_tainted}


# ---------------------------------------------------------------------------
# R-SINK/provenance: the record fields R-SINK treats as sanitised really only ever hold sanitised values

def r_sink_provenance(P, chk):
    rid = "R-SINK/provenance"
    chk.rule(rid, "every store into a record field that R-SINK treats as sanitised (asset.asset_path, *.label_text, meta.key) assigns a "
                  "result of a sanitiser / generator (label_from_*, uuid_new, ...), a literal, NULL or a copy of such a field - "
                  "the writers print these fields into attributes without escaping")
    safe_fields = {k for k, v in FIELD_TAINT.items() if v is False}
    n = 0

    def positive(f, e, depth=0):
        s = strip(e)
        if s is None:
            return True
        if s["k"] == "StringLiteral" or const_value(s) == 0:
            return True
        if s["k"] == "CallExpr":
            c = s.get("callee")
            if c in SAFE_CALLS:
                return True
            if c in ("my_strdup", "strdup") and len(s["c"]) > 1:
                return positive(f, s["c"][1], depth + 1)
            # a first-party helper every return value of which is positive (`return candidate;` with candidate = uuid_new())
            h = P.resolve(f, c) if c else None
            if h is not None and P.first_party(h) and h is not f and depth < 2:
                rets = [r for r in h.walk() if r["k"] == "ReturnStmt" and r.get("c") and r["c"][0] is not None]
                return bool(rets) and all(positive(h, r["c"][0], depth + 1) for r in rets)
            return False
        if s["k"] == "MemberExpr" and (s.get("rec"), s["n"]) in safe_fields:
            return True
        if s["k"] == "ConditionalOperator":
            return positive(f, s["c"][1], depth + 1) and positive(f, s["c"][2], depth + 1)
        if s["k"] == "DeclRefExpr" and s.get("dk") == "Var" and depth < 3:
            defs = [x["c"][0] for x in f.walk() if x["k"] == "VarDecl" and x["n"] == s["n"] and x.get("c") and x["c"][0] is not None] + \
                   [x["c"][1] for x in f.walk() if x["k"] == "BinaryOperator" and x["op"] == "=" and key(x["c"][0]) == s["n"]]
            return bool(defs) and all(positive(f, d, depth + 1) for d in defs)
        if s["k"] == "DeclRefExpr" and s.get("dk") == "Parm" and depth < 2:
            idx = [i for i, p in enumerate(f.params) if p[0] == s["n"]]
            sites = [(g, c) for g in P.all_funcs if P.first_party(g) for c in g.calls(f.name) if P.resolve(g, f.name) is f]
            return bool(idx) and bool(sites) and all(idx[0] < len(c["c"]) - 1 and positive(g, c["c"][1 + idx[0]], depth + 1) for g, c in sites)
        return False
    for f in P.all_funcs:
        if not P.first_party(f):
            continue
        for x in f.walk():
            if x["k"] != "BinaryOperator" or x["op"] != "=":
                continue
            l = strip(x["c"][0])
            if l is None or l["k"] != "MemberExpr" or (l.get("rec"), l["n"]) not in safe_fields:
                continue
            n += 1
            ok = positive(f, x["c"][1])
            chk.obligation(rid, "%s %s: %s.%s = %s" % (f.where(x), f.name, l.get("rec"), l["n"], key(x["c"][1])[:40]), ok)
            if not ok:
                chk.violation(rid, "provenance:%s:%s.%s" % (f.name, l.get("rec"), l["n"]), f.where(x),
                              "%s stores `%s` into %s.%s, which the writers print into attribute values unescaped because it is "
                              "supposed to hold only generated / sanitised text" % (f.name, f.src(x["c"][1])[:50], l.get("rec"), l["n"]))
    chk.floor(rid, n, 4, "stores into sanitised record fields")
    chk.analysed[rid] = {"stores": n, "fields": sorted("%s.%s" % k for k in safe_fields)}


# ---------------------------------------------------------------------------
# R-ATTRBREAK (C08): a printer asked to turn hard line breaks into markup must not run inside an attribute value

def r_attrbreak(P, chk):
    rid = "R-ATTRBREAK"
    chk.rule(rid, "a string printer called with line_breaks enabled (it emits a `<br/>` / `<text:line-break/>` element for a hard "
                  "break) is never called while an attribute value is open (the literal printed just before has an unclosed quote)")
    n = n_ctx = 0
    for unit in ("html.c", "opendocument-content.c"):
        u = P.units.get(unit)
        if u is None:
            raise AnalysisBroken("%s is gone" % unit)
        printers = {}
        for g in u.funcs.values():
            for i, prm in enumerate(g.params):
                if prm[0] == "line_breaks" and g.name.startswith("mmd_print_string"):
                    printers[g.name] = i
        if not printers:
            raise AnalysisBroken("%s: no string printer with a line_breaks parameter" % unit)
        for f in u.funcs.values():
            if f.name in printers:
                continue
            for c in f.calls():
                pi = printers.get(c.get("callee"))
                if pi is None or 1 + pi >= len(c["c"]):
                    continue
                if const_value(c["c"][1 + pi]) == 0:
                    continue
                n += 1
                lit = _prev_literal(f, c)
                if lit is None:
                    chk.obligation(rid, "%s %s: %s with line breaks, context not a literal" % (f.where(c), f.name, c["callee"]), True, nontrivial=False)
                    continue
                n_ctx += 1
                tail = lit[lit.rfind("<"):] if "<" in lit else ""
                in_attr = tail.count('"') % 2 == 1 and ">" not in tail[tail.rfind('"'):]
                chk.obligation(rid, "%s %s: %s with line breaks after %r: element content" % (f.where(c), f.name, c["callee"], lit[-30:]), not in_attr)
                if in_attr:
                    chk.violation(rid, "attrbreak:%s:%s:%s" % (f.base, f.name, key(c["c"][2])[:40]), f.where(c),
                                  "%s prints `%s` with line_breaks enabled right after %r, i.e. inside an attribute value: a hard line break "
                                  "in the text puts a `<` into the attribute" % (f.name, f.src(c["c"][2])[:50], lit[-30:]))
    chk.floor(rid, n, 10, "string-printer calls with line breaks enabled")
    chk.floor(rid, n_ctx, 3, "of which with a literal context")


# ---------------------------------------------------------------------------
# R-ERASEGUARD (C08 / C04): markup already written is taken back only after it has been looked at

def r_eraseguard(P, chk):
    """A writer that erases the last n bytes of its output (to take back a `<p>` or a trailing `<text:tab/>`) must have compared
    exactly those n bytes with the n-byte literal it means to remove, on the path to the erase: otherwise, in a context where
    something else was written last (a `<th>`), it cuts a tag in half."""
    from .prog import resolve_key, edpe_blocks
    from .rules_mem import _fold, _string_of
    rid = "R-ERASEGUARD"
    chk.rule(rid, "in the writers, d_string_erase of the last n bytes of the output runs only where a str(n)cmp of exactly those n "
                  "bytes with an n-byte literal has just succeeded (decided by path condition)")
    n = 0
    for f in P.all_funcs:
        if not P.first_party(f) or f.unit.base not in set(XML_UNITS) | {"latex.c", "beamer.c", "memoir.c", "writer.c"}:
            continue
        pos = f.cfg.positions()
        for c in f.calls("d_string_erase"):
            d = key(c["c"][1])
            cnt = const_value(c["c"][3])
            if cnt is None:
                try:
                    cnt = int(_fold(resolve_key(f, c["c"][3])))
                except ValueError:
                    cnt = None
            posk = _fold(resolve_key(f, c["c"][2]))
            if cnt is None or posk != "%s->currentStringLength-%d" % (d, cnt):
                continue          # not a fixed-length suffix erase
            n += 1
            want = "&%s->str[%s->currentStringLength-%d]" % (d, d, cnt)
            guards = []
            for y in f.walk():
                if y["k"] == "CallExpr" and y.get("callee") in ("strcmp", "strncmp") and len(y["c"]) >= 3:
                    ks = [_fold(resolve_key(f, q)) for q in y["c"][1:3]]
                    for i2 in (0, 1):
                        if ks[i2] == want:
                            lit = _string_of(P, f, y["c"][1:3][1 - i2])
                            if lit is not None and len(lit) == cnt and (y["callee"] == "strcmp" or const_value(y["c"][3]) == cnt):
                                guards.append(y)
            ok = False
            defs_, dirty_ = {}, set()
            for y in f.walk():
                if y["k"] == "VarDecl" and y.get("c") and y["c"][0] is not None:
                    defs_.setdefault(y["n"], []).append(y["c"][0])
                elif y["k"] == "BinaryOperator" and y["op"] == "=" and (strip(y["c"][0]) or {}).get("k") == "DeclRefExpr":
                    defs_.setdefault(strip(y["c"][0])["n"], []).append(y["c"][1])
                elif y["k"] == "CompoundAssignOperator" or (y["k"] == "UnaryOperator" and y["op"] in ("post++", "pre++", "post--", "pre--", "&")):
                    l_ = strip(y["c"][0])
                    if l_ is not None and l_["k"] == "DeclRefExpr":
                        dirty_.add(l_["n"])
            for g in guards:
                # boolean locals every definition of which is `false` or a conjunction containing `cmp(..) == 0` (or `!cmp(..)`):
                # false whenever the bytes differ
                def implies_false(init, gid=g.get("i")):
                    if const_value(init) == 0:
                        return True
                    conj, st_ = [], [init]
                    while st_:
                        e_ = strip(st_.pop())
                        if e_ is None:
                            continue
                        if e_["k"] == "BinaryOperator" and e_["op"] == "&&":
                            st_.extend(e_["c"])
                        else:
                            conj.append(e_)
                    for e_ in conj:
                        if e_["k"] == "BinaryOperator" and e_["op"] == "==" and const_value(e_["c"][1]) == 0 and \
                                (strip(e_["c"][0]) or {}).get("i") == gid:
                            return True
                        if e_["k"] == "UnaryOperator" and e_["op"] == "!" and (strip(e_["c"][0]) or {}).get("i") == gid:
                            return True
                    return False
                falsy = {nm for nm, ds in defs_.items() if nm not in dirty_ and any(const_value(d_) != 0 for d_ in ds) and all(implies_false(d_) for d_ in ds)}

                # with the comparison decided "different" (non-zero) the erase must be unreachable
                def decide(t_, gid=g.get("i"), falsy=falsy):
                    t2 = strip(t_)
                    if t2 is None:
                        return None
                    if t2.get("i") == gid:
                        return True            # non-zero: the bytes differ
                    if t2["k"] == "DeclRefExpr" and t2["n"] in falsy:
                        return False
                    if t2["k"] == "UnaryOperator" and t2["op"] == "!" and (strip(t2["c"][0]) or {}).get("k") == "DeclRefExpr" and \
                            strip(t2["c"][0])["n"] in falsy:
                        return True
                    if t2["k"] == "BinaryOperator" and t2["op"] in ("==", "!=") and const_value(t2["c"][1]) == 0 and \
                            (strip(t2["c"][0]) or {}).get("i") == gid:
                        return t2["op"] == "!="
                    return None
                blocks = edpe_blocks(f, "?none", 0, extra_decide=decide)
                if c.get("i") in pos and pos[c["i"]][0] not in blocks:
                    ok = True
            chk.obligation(rid, "%s %s: the last %d bytes of %s are erased only after they compared equal to a literal" % (f.where(c), f.name, cnt, d), ok)
            if not ok:
                chk.violation(rid, "eraseguard:%s:%s:%d" % (f.base, f.name, cnt), f.where(c),
                              "%s erases the last %d bytes of `%s` without having compared them with the text it means to take back: "
                              "where something else was written last (e.g. a `<th>` instead of `<p>`) it cuts that markup in half" % (
                                  f.name, cnt, d))
    chk.floor(rid, n, 2, "fixed-length suffix erasures in the writers")
    # closer flags: a field F with `if (X->F) { ... print "</tag>" ... }` governs whether a closing tag is written.  Clearing it
    # is only sound where the opening tag was taken back, i.e. on a path through one of the guarded erasures above.
    nflag = 0
    for unit in sorted(set(XML_UNITS)):
        fs = [f for f in P.all_funcs if P.first_party(f) and f.unit.base == unit]
        flags = {}
        for f in fs:
            cands = set()
            for x in f.walk():
                if x["k"] == "IfStmt" and x.get("c"):
                    c0 = strip(x["c"][0])
                    if c0 is not None and c0["k"] == "UnaryOperator" and c0["op"] == "!":
                        c0 = strip(c0["c"][0])
                    if c0 is not None and c0["k"] == "MemberExpr":
                        cands.add(c0["n"])
            if not cands:
                continue
            pos = f.cfg.positions()
            prints = []          # (block, literal) of every string literal handed to an output call
            for y in f.walk():
                if y["k"] == "StringLiteral" and y.get("s"):
                    z = y
                    while z is not None and z.get("i") not in pos:
                        z = f.parent(z)
                    if z is not None:
                        prints.append((pos[z["i"]][0], y["s"], z))
            if not any(l.startswith("</") for _, l, _ in prints):
                continue
            for fld in sorted(cands):
                def mk(val, fld=fld):
                    def decide(t_):
                        t2 = strip(t_)
                        if t2 is None:
                            return None
                        if t2["k"] == "UnaryOperator" and t2["op"] == "!":
                            r_ = decide(t2["c"][0])
                            return None if r_ is None else not r_
                        if t2["k"] == "MemberExpr" and t2["n"] == fld:
                            return val
                        return None
                    return decide
                on = edpe_blocks(f, "?none", 0, extra_decide=mk(True))
                off = edpe_blocks(f, "?none", 0, extra_decide=mk(False))
                only_on = [(l, z) for b, l, z in prints if b in on and b not in off]
                only_off = [(l, z) for b, l, z in prints if b in off and b not in on]
                closers = [(l, z) for l, z in only_on if l.startswith("</")]
                # the field suppresses a closing tag if with it set a `</tag>` is printed that is not printed with it clear, and
                # nothing is printed instead (a field with a printing alternative - </th> or </td> - selects, it does not suppress)
                if closers and not only_off:
                    flags.setdefault(fld, (f.where(closers[0][1]), closers[0][0].strip()))
        for f in fs:
            pos = f.cfg.positions()
            erases = [c for c in f.calls("d_string_erase") if c.get("i") in pos]
            for x in f.walk():
                if x["k"] != "BinaryOperator" or x["op"] != "=":
                    continue
                l = strip(x["c"][0])
                if l is None or l["k"] != "MemberExpr" or l["n"] not in flags or const_value(x["c"][1]) != 0:
                    continue
                nflag += 1
                ok = x.get("i") in pos and any(f.cfg.dominates(e["i"], x["i"]) for e in erases)
                chk.obligation(rid, "%s %s: `%s = false` (suppresses %s, tested at %s) is dominated by an erasure of the opening tag" % (
                    f.where(x), f.name, key(x["c"][0]), flags[l["n"]][1], flags[l["n"]][0]), ok)
                if not ok:
                    chk.violation(rid, "closerflag:%s:%s:%s" % (f.base, f.name, l["n"]), f.where(x),
                                  "%s clears `%s`, which suppresses the closing %s, on a path that has not taken the opening tag back "
                                  "(no d_string_erase dominates the store): the element stays open" % (f.name, key(x["c"][0]), flags[l["n"]][1]))
    chk.floor(rid, nflag, 1, "stores that clear a closing-tag flag in the XML writers")
