"""Smaller structural rules: R-PUSHPOP (C13), R-POOL (C18), R-ENUM / R-LINK (C15), R-BYTECLASS (C16)."""
import os
import re
import subprocess

from . import compdb
from .prog import AnalysisBroken, key, strip, strip_parens, walk, const_value, enum_name, resolve_key


def _pushpop(P):
    """Returns list of (description, ok, key, where)."""
    f = P.func("mmd_transclude_source", "transclude.c")
    out = []
    rec = [c for c in f.calls("mmd_transclude_source")]
    if not rec:
        raise AnalysisBroken("mmd_transclude_source no longer recurses: R-PUSHPOP needs re-reading")
    # the stack variable handed to the recursive call
    pidx = [i for i, p in enumerate(f.params) if "stack" in p[1]]
    if not pidx:
        raise AnalysisBroken("mmd_transclude_source: no stack parameter")
    stk = key(rec[0]["c"][1 + pidx[0]])
    pushes = [c for c in f.calls("stack_push") if key(c["c"][1]) == stk]
    pops = [c for c in f.calls("stack_pop") if key(c["c"][1]) == stk]
    for r in rec:
        ok = any(f.cfg.dominates(p["i"], r["i"]) for p in pushes)
        out.append(("recursive call at %s is dominated by stack_push(%s, file)" % (f.where(r), stk), ok, "pushpop:push", f.where(r)))
        ok = any(f.cfg.postdominates(p["i"], r["i"]) for p in pops)
        out.append(("stack_pop(%s) follows the recursive call on every path" % stk, ok, "pushpop:pop", f.where(r)))
    for p in pushes:
        ok = any(f.cfg.postdominates(q["i"], p["i"]) for q in pops) and len(pops) == 1
        out.append(("every path after stack_push passes exactly one stack_pop", ok, "pushpop:balance", f.where(p)))
    # membership test: a loop over stk[0 .. size at entry) comparing the candidate file with strcmp, either inline or
    # in a predicate helper that receives the stack; its hit branch must skip the recursion
    def entry_size(fn, e):
        rk = resolve_key(fn, e)
        return rk == stk + "->size"

    def skips(fn, branch):
        for g in walk(branch):
            if g["k"] == "GotoStmt":
                lab = [l for l in fn.walk() if l["k"] == "LabelStmt" and l["n"] == g["n"]]
                if lab and all(lab[0]["l"] > r["l"] for r in rec):
                    return True
            if g["k"] in ("ReturnStmt", "ContinueStmt"):
                return True
        return False

    def scan_loop(fn, stack_key, need_bound):
        """(found, bound expression) for a loop in fn that peeks every element of stack_key and strcmp's it."""
        for n in fn.walk():
            if n["k"] != "ForStmt" or n["c"][1] is None:
                continue
            cond = strip(n["c"][1])
            if cond is None or cond["k"] != "BinaryOperator" or cond["op"] != "<":
                continue
            peeks = [c for c in walk(n["c"][3]) if c["k"] == "CallExpr" and c.get("callee") == "stack_peek_index"
                     and key(c["c"][1]) == stack_key]
            cmps = [c for c in walk(n["c"][3]) if c["k"] == "CallExpr" and c.get("callee") == "strcmp"]
            if peeks and cmps:
                return n, cond["c"][1], cmps
        return None, None, None

    loop_ok = False
    loop_where = f.where()
    n, bound, cmps = scan_loop(f, stk, True)
    if n is not None:
        skip_ok = any(i["k"] == "IfStmt" and any(c in list(walk(i["c"][0])) for c in cmps) and skips(f, i["c"][1]) for i in walk(n["c"][3]))
        dom_ok = all(f.cfg.dominates(n["c"][1]["i"], r["i"]) for r in rec)
        loop_ok = entry_size(f, bound) and skip_ok and dom_ok
        loop_where = f.where(n)
    if not loop_ok:
        for i in f.walk():
            if i["k"] != "IfStmt":
                continue
            calls = [c for c in walk(i["c"][0]) if c["k"] == "CallExpr" and c.get("callee")]
            for c in calls:
                h = P.resolve(f, c["callee"])
                if h is None or not P.first_party(h):
                    continue
                args = c["c"][1:]
                si = [k for k, a in enumerate(args) if key(a) == stk]
                if not si or si[0] >= len(h.params):
                    continue
                hn, hbound, hcmps = scan_loop(h, h.params[si[0]][0], True)
                if hn is None:
                    continue
                # the helper returns non-zero on a hit
                hit = any(x["k"] == "IfStmt" and any(cc in list(walk(x["c"][0])) for cc in hcmps) and
                          any(r["k"] == "ReturnStmt" and r["c"] and const_value(r["c"][0]) not in (None, 0) for r in walk(x["c"][1]))
                          for x in walk(hn["c"][3]))
                # its loop bound is the caller's entry size
                bk = key(hbound)
                bi = [k for k, q in enumerate(h.params) if q[0] == bk]
                bound_ok = (bk == h.params[si[0]][0] + "->size" and False) or (bi and bi[0] < len(args) and entry_size(f, args[bi[0]]))
                # with the predicate decided "hit", no recursive call can run (whatever the shape of the branch: goto,
                # continue, or the recursion sitting in the else branch)
                from .prog import edpe_blocks
                cid = c.get("i")
                on_hit = edpe_blocks(f, "?none", 0, extra_decide=lambda t_, cid=cid: True if (strip(t_) or {}).get("i") == cid else None)
                pos_ = f.cfg.positions()
                rec_dead = all(pos_.get(r["i"], (None,))[0] not in on_hit for r in rec)
                if hit and bound_ok and rec_dead:
                    loop_ok = True
                    loop_where = f.where(i)
    # the name tested is the name pushed: same expression, and its object is not edited in between
    if n is not None and pushes:
        peekvars = {key(x["c"][0]) for x in walk(n["c"][3]) if x["k"] == "BinaryOperator" and x["op"] == "=" and
                    strip(x["c"][1]) is not None and strip(x["c"][1])["k"] == "CallExpr" and strip(x["c"][1]).get("callee") == "stack_peek_index"}
        cands = {key(a) for c in cmps for a in c["c"][1:] if key(a) not in peekvars and "stack_peek_index" not in key(a)}
        pos = f.cfg.positions()
        for p in pushes:
            pk = key(p["c"][2])
            same = cands == {pk}
            root = re.match(r"[\(\*&]*([A-Za-z_]\w*)", pk).group(1)
            L = pos.get(n["c"][1]["i"], (None,))[0]
            Pb = pos.get(p["i"], (None,))[0]
            edits = []
            if same and L is not None and Pb is not None:
                fwd = f.cfg.reachable(start=L, blocked={Pb}) | {Pb}
                back, st = set(), [Pb]
                while st:
                    b = st.pop()
                    if b in back:
                        continue
                    back.add(b)
                    if b == L:
                        continue
                    st.extend(f.cfg.blocks[b].preds)
                between = fwd & back
                for x in f.walk():
                    hit = False
                    if x["k"] == "CallExpr" and any(key(a) in (root, "&" + root) for a in x["c"][1:]):
                        hit = True
                    elif (x["k"] == "BinaryOperator" and x["op"] == "=" or x["k"] == "CompoundAssignOperator") and key(x["c"][0]) in (root, pk):
                        hit = True
                    if not hit:
                        continue
                    z = x
                    while z is not None and z["i"] not in pos:
                        z = f.parent(z)
                    if z is None:
                        continue
                    b, i = pos[z["i"]]
                    if b in between and not (b == Pb and i >= pos[p["i"]][1]) and not (b == L and i <= pos[n["c"][1]["i"]][1] and L != Pb):
                        edits.append(x)
            ok = same and not edits
            out.append(("the name compared by the membership test (%s) is the name pushed (%s), and %s is not edited between the test "
                        "and the push" % ("/".join(sorted(cands)) or "?", pk, root), ok, "pushpop:same-name",
                        f.where(edits[0]) if edits else f.where(p)))
    out.append(("a loop over %s[0..size at entry) compares the file against every file being expanded, dominates the recursive "
                "call, and its hit branch skips the recursion" % stk, loop_ok, "pushpop:visited", loop_where))
    for r in rec:
        ok = key(r["c"][1 + pidx[0]]) == stk
        out.append(("the recursive call hands on the same stack", ok, "pushpop:arg", f.where(r)))
    # exit restores the stack
    restores = [x for x in f.walk() if x["k"] == "BinaryOperator" and x["op"] == "=" and key(x["c"][0]) == stk + "->size"]
    frees = [c for c in f.calls("stack_free") if key(c["c"][1]) == stk]
    out.append(("on exit the temporary stack is freed or the caller's depth restored", bool(restores) and bool(frees),
                "pushpop:exit", f.where()))
    return out


def pushpop_ok(P):
    return all(ok for _, ok, _, _ in _pushpop(P))


def r_pushpop(P, chk):
    rid = "R-PUSHPOP"
    chk.rule(rid, "mmd_transclude_source: the recursive call is bracketed by push/pop of the file on the stack of files being "
                  "expanded and guarded by a membership test over that stack")
    for desc, ok, k, where in _pushpop(P):
        chk.obligation(rid, desc, ok)
        if not ok:
            chk.violation(rid, k, where, "transclusion cycle guard broken: " + desc + " does not hold")


# ---------------------------------------------------------------------------
# R-POOL (C18)

def _norm(k):
    return k.replace("(", "").replace(")", "")


def _cond_of(f, n):
    """Conditions (key strings) of the enclosing IfStmts whose then-branch contains n."""
    out = []
    cur = n
    for a in f.ancestors(n):
        if a["k"] == "IfStmt":
            then = a["c"][1]
            if then is not None and any(x is cur or x is n for x in walk(then)):
                out.append(key(a["c"][0]))
        cur = a
    return out


def _only_when(f, node, dkey, good, bads):
    """Is `node` reachable exactly under dkey == good: in the CFG with every test of dkey decided, it is reachable for
    `good` and for none of the `bads` (independent of whether the source says `if (k == 0) {..}` or
    `if (k != 0) return;`)."""
    from .prog import edpe_blocks
    pos = f.cfg.positions()
    if node["i"] not in pos:
        return False
    b = pos[node["i"]][0]
    if b not in edpe_blocks(f, dkey, good):
        return False
    return all(b not in edpe_blocks(f, dkey, v) for v in bads)


def _pred_blocks(f, pred_keys, value):
    """Blocks reachable when every branch whose condition is (the negation of) one of pred_keys is decided as `value`."""
    from .prog import edpe_blocks
    want = {k.replace(" ", "") for k in pred_keys}

    def decide(t):
        t = strip(t)
        if t is None:
            return None
        if t["k"] == "UnaryOperator" and t["op"] == "!":
            r = decide(t["c"][0])
            return None if r is None else not r
        k = _norm(resolve_key(f, t)).replace(" ", "")
        if k in want:
            return value
        return None
    return edpe_blocks(f, "?none", 0, extra_decide=decide)


def _reaches_simple(f, a, b):
    """Can statement b execute after statement a?"""
    pos = f.cfg.positions()
    if a["i"] not in pos or b["i"] not in pos:
        return True
    ab, ai = pos[a["i"]]
    bb, bi = pos[b["i"]]
    if ab == bb and bi > ai:
        return True
    seen, st = set(), list(f.cfg.blocks[ab].rsucc)
    while st:
        x = st.pop()
        if x in seen:
            continue
        seen.add(x)
        if x == bb:
            return True
        st.extend(f.cfg.blocks[x].rsucc)
    return False


def _count_changes(f, name, sign):
    out = []
    for x in f.walk():
        if x["k"] == "UnaryOperator" and x["op"] in (("post++", "pre++") if sign > 0 else ("post--", "pre--")) and key(x["c"][0]) == name:
            out.append(x)
        elif x["k"] == "CompoundAssignOperator" and x["op"] == ("+=" if sign > 0 else "-=") and key(x["c"][0]) == name and const_value(x["c"][1]) == 1:
            out.append(x)
        elif x["k"] == "BinaryOperator" and x["op"] == "=" and key(x["c"][0]) == name and \
                key(x["c"][1]).replace(" ", "") in ("(%s%s1)" % (name, "+" if sign > 0 else "-"), "(1+%s)" % name if sign > 0 else "?"):
            out.append(x)
    return out


def r_pool(P, chk):
    rid = "R-POOL"
    chk.rule(rid, "object pool: slab arithmetic consistent, bump allocation gated, slab aliases reset on drain, the shared pool "
                  "is drained/freed only at use count 0, and the CLI brackets every conversion between init and drain")
    if P.config != "default":
        raise AnalysisBroken("R-POOL needs the pool-enabled configuration")
    add = P.func("pool_add_slab", "object_pool.c")
    alloc = P.func("pool_allocate_object", "object_pool.c")
    drain = P.func("pool_drain", "object_pool.c")
    pfree = P.func("pool_free", "object_pool.c")
    p = add.params[0][0]

    def ob(desc, ok, k, where):
        chk.obligation(rid, desc, ok)
        if not ok:
            chk.violation(rid, k, where, "token pool protocol: " + desc + " - does not hold")

    # slab
    m = [c for c in add.calls("malloc")]
    last = [x for x in add.walk() if x["k"] == "BinaryOperator" and x["op"] == "=" and key(x["c"][0]) == p + "->last"]
    nxt = [x for x in add.walk() if x["k"] == "BinaryOperator" and x["op"] == "=" and key(x["c"][0]) == p + "->next"]
    ok = False
    if m and last:
        size = _norm(resolve_key(add, m[0]["c"][1]))
        r = strip(last[0]["c"][1])
        if r is not None and r["k"] == "BinaryOperator" and r["op"] == "+":
            ok = _norm(resolve_key(add, r["c"][1])) == size and key(r["c"][0]) in [key(x["c"][1]) for x in nxt]
    ob("pool_add_slab: `last` = slab + exactly the number of bytes allocated, `next` = slab", ok, "pool:slab", add.where())
    mult = m and _norm(resolve_key(add, m[0]["c"][1])).startswith(p + "->object_size*")
    ob("pool_add_slab: slab size is object_size x constant (next meets last exactly)", bool(mult), "pool:multiple", add.where())
    # allocate
    p2 = alloc.params[0][0]
    bumps = [x for x in alloc.walk() if x["k"] == "CompoundAssignOperator" and x["op"] == "+=" and key(x["c"][0]) == p2 + "->next"
             and _norm(key(x["c"][1])) == p2 + "->object_size"]
    bumps += [x for x in alloc.walk() if x["k"] == "BinaryOperator" and x["op"] == "=" and key(x["c"][0]) == p2 + "->next"
              and _norm(resolve_key(alloc, x["c"][1])) in ("%s->next+%s->object_size" % (p2, p2), "%s->object_size+%s->next" % (p2, p2))]
    allnext = [x for x in alloc.walk() if (x["k"] == "CompoundAssignOperator" or (x["k"] == "BinaryOperator" and x["op"] == "="))
               and key(x["c"][0]) == p2 + "->next"]
    pos_a = alloc.cfg.positions()
    Q = ["%s->next<%s->last" % (p2, p2)]
    noQ = _pred_blocks(alloc, Q, False)
    yesQ = _pred_blocks(alloc, Q, True)
    okb = bool(bumps) and len(allnext) == len(bumps) and all(
        b["i"] in pos_a and pos_a[b["i"]][0] not in noQ and pos_a[b["i"]][0] in yesQ for b in bumps)
    ob("pool_allocate_object: next advances by object_size only under next < last", okb, "pool:bump", alloc.where())
    adds = [c for c in alloc.calls("pool_add_slab")]
    R = ["%s->next==%s->last" % (p2, p2), "%s->last==%s->next" % (p2, p2)]
    noR = _pred_blocks(alloc, R, False)
    oka = bool(adds) and bool(bumps) and all(a["i"] in pos_a and pos_a[a["i"]][0] not in noR for a in adds) and \
        all(alloc.cfg.dominates(a["i"], b["i"]) or not _reaches_simple(alloc, b, a) for a in adds for b in bumps)
    ob("pool_allocate_object: a new slab is requested exactly when next == last, before the bump", oka, "pool:refill", alloc.where())
    # drain resets aliases
    p3 = drain.params[0][0]
    frees = [c for c in drain.calls("free")]
    resets = {key(x["c"][0]) for x in drain.walk() if x["k"] == "BinaryOperator" and x["op"] == "=" and
              (const_value(x["c"][1]) == 0) and any(drain.cfg.postdominates(x["i"], fr["i"]) for fr in frees)}
    okd = bool(frees) and {p3 + "->next", p3 + "->last"} <= resets
    ob("pool_drain: next and last are reset after the slabs are freed, on every path", okd, "pool:alias", drain.where())
    p4 = pfree.params[0][0]
    dr = [c for c in pfree.calls("pool_drain")]
    sf = [c for c in pfree.calls("stack_free")] + [c for c in pfree.calls("free")]
    okf = bool(dr) and bool(sf) and all(pfree.cfg.dominates(dr[0]["i"], s["i"]) for s in sf)
    ob("pool_free: drains before releasing the slab stack and the pool", okf, "pool:free-order", pfree.where())
    # count gating
    tinit = P.func("token_pool_init", "token.c")
    tdrain = P.func("token_pool_drain", "token.c")
    tfree = P.func("token_pool_free", "token.c")
    news = [c for c in tinit.calls("pool_new")]
    ob("token_pool_init: creates the pool only when none exists", bool(news) and all(
        _only_when(tinit, n, "token_pool", 0, (1,)) for n in news), "pool:init-null", tinit.where())
    incs = _count_changes(tinit, "token_pool_count", +1)
    ob("token_pool_init: increments the use count on every path", bool(incs) and tinit.cfg.block_postdominates(
        tinit.block_of(incs[0]), tinit.cfg.entry), "pool:init-count", tinit.where())
    decs = _count_changes(tdrain, "token_pool_count", -1)
    pd = [c for c in tdrain.calls("pool_drain")]
    ob("token_pool_drain: decrements, then really drains only at use count 0",
       bool(decs) and bool(pd) and all(_only_when(tdrain, d, "token_pool_count", 0, (1, 2)) for d in pd) and
       all(tdrain.cfg.dominates(decs[0]["i"], d["i"]) for d in pd), "pool:drain-count", tdrain.where())
    pf = [c for c in tfree.calls("pool_free")]
    nul = [x for x in tfree.walk() if x["k"] == "BinaryOperator" and x["op"] == "=" and key(x["c"][0]) == "token_pool" and const_value(x["c"][1]) == 0]
    ob("token_pool_free: frees only at use count 0 and forgets the pointer",
       bool(pf) and bool(nul) and all(_only_when(tfree, d, "token_pool_count", 0, (1, 2)) for d in pf) and
       all(tfree.cfg.dominates(pf[0]["i"], x["i"]) for x in nul), "pool:free-count", tfree.where())
    # ... and nowhere else: any other drain / free of the shared pool in token.c (e.g. "start clean" on a nested init) would
    # pull the slabs from under an outer user's tokens
    tu = P.units.get("token.c")
    for g in tu.funcs.values():
        for c in g.calls():
            if c.get("callee") in ("pool_drain", "pool_free") and len(c["c"]) > 1 and key(c["c"][1]) == "token_pool":
                gated = _only_when(g, c, "token_pool_count", 0, (1, 2))
                ob("%s: %s(token_pool) only at use count 0" % (g.name, c["callee"]), gated, "pool:gate:%s" % g.name, g.where(c))
    # token_new allocates from the pool
    tn = P.func("token_new", "token.c")
    def pool_alloc(fn, depth=0):
        if any(key(c["c"][1]) == "token_pool" for c in fn.calls("pool_allocate_object")):
            return True
        if depth < 2:
            for c in fn.calls():
                g = P.resolve(fn, c.get("callee") or "")
                if g is not None and g.unit is fn.unit and g is not fn and pool_alloc(g, depth + 1):
                    return True
        return False
    ob("token_new takes its storage from the shared pool", pool_alloc(tn), "pool:token_new", tn.where())
    # CLI bracket: counter abstraction over main's CFG
    main = P.func("main", "main.c")
    cfg = main.cfg
    nodes = main.nodes
    edges, _, _ = P.callgraph()
    tn_fid = P.fid(tn)
    # functions that can reach token_new
    users = set()
    rev = {}
    for a, bs in edges.items():
        for b in bs:
            rev.setdefault(b, set()).add(a)
    st = [tn_fid]
    while st:
        x = st.pop()
        if x in users:
            continue
        users.add(x)
        st.extend(rev.get(x, ()))
    state = {cfg.entry: frozenset([0])}
    work = [cfg.entry]
    problems = []
    n_conv = 0
    seen_sites = set()
    while work:
        b = work.pop()
        cur = set(state[b])
        for e in cfg.blocks[b].el:
            n = nodes.get(e) if e >= 0 else None
            if n is None or n["k"] != "CallExpr":
                continue
            c = n.get("callee")
            if c == "token_pool_init":
                cur = {min(v + 1, 6) for v in cur}
            elif c == "token_pool_drain":
                if 0 in cur and ("drain", n["l"]) not in seen_sites:
                    problems.append(("pool:cli:drain", main.where(n), "token_pool_drain can run with no matching init"))
                    seen_sites.add(("drain", n["l"]))
                cur = {max(v - 1, 0) for v in cur}
            elif c == "token_pool_free":
                if cur != {0} and ("free", n["l"]) not in seen_sites:
                    problems.append(("pool:cli:free", main.where(n), "token_pool_free reached with use count in %s" % sorted(cur)))
                    seen_sites.add(("free", n["l"]))
            else:
                g = P.resolve(main, c) if c else None
                if g is not None and P.fid(g) in users and c not in ("token_pool_init", "token_pool_drain", "token_pool_free"):
                    if ("use", n["l"]) not in seen_sites:
                        n_conv += 1
                        seen_sites.add(("use", n["l"]))
                        if 0 in cur:
                            problems.append(("pool:cli:use:%s" % c, main.where(n), "%s allocates tokens but can run outside an "
                                             "init..drain bracket" % c))
        for s in cfg.blocks[b].rsucc:
            old = state.get(s)
            new = frozenset(cur) | (old or frozenset())
            if new != old:
                state[s] = new
                work.append(s)
    chk.floor(rid, n_conv, 4, "token-allocating calls in main")
    ob("main: every token-allocating call (%d sites) runs with the pool initialised; drains are matched; free at count 0" % n_conv,
       not problems, "pool:cli", main.where())
    for k, where, msg in problems:
        chk.violation(rid, k, where, msg)
    # sizeof(token) fits the short parameter of pool_new
    tok = P.records.get("token")
    ob("sizeof(token) = %s fits pool_new(short size)" % (tok or {}).get("size"), bool(tok) and 0 < tok.get("size", 0) < 32768,
       "pool:size", tn.where())


# ---------------------------------------------------------------------------
# R-ENUM (compile-only witnesses) and R-LINK (C15)

def r_enum(P, chk):
    rid = "R-ENUM"
    chk.rule(rid, "compile-time relations between the published token kinds and the library's tables, as _Static_assert "
                  "witnesses generated from the current headers and compiled with -fsyntax-only")
    src = os.path.join(compdb.REPO, "src")
    terms = []
    for m in re.finditer(r"^\s*#\s*define\s+(\w+)\s+(\d+)\s*$", open(os.path.join(src, "parser.h")).read(), re.M):
        terms.append(m.group(1))
    if len(terms) < 30:
        raise AnalysisBroken("parser.h: terminals not found")
    tts = [n for n, _ in P.enumerators("token_types")]
    cms = [n for n, _ in P.enumerators("cm_types")] if "cm_types" in P.enums else []
    asserts = []

    def A(expr, name):
        asserts.append((expr, name))
    A("DOC_START_TOKEN == 0", "DOC_START_TOKEN is 0")
    for t in terms:
        A("%s < BLOCK_BLOCKQUOTE" % t, "parser terminal %s below the first token_types block value" % t)
        A("%s > 0" % t, "parser terminal %s is positive (0 is end of input)" % t)
    for t in tts:
        A("%s < kMaxTokenTypes" % t, "token type %s fits the type-indexed tables (kMaxTokenTypes)" % t)
    # families that the code does arithmetic on: any NAME1 used as an operand of + / - / += / -=
    used = set()
    for f in P.all_funcs:
        if not P.first_party(f):
            continue
        for x in f.walk():
            if x["k"] in ("BinaryOperator", "CompoundAssignOperator") and x["op"] in ("+", "-", "+=", "-="):
                for o in x["c"]:
                    for y in walk(o):
                        nm = None
                        if y["k"] == "DeclRefExpr" and y.get("dk") == "Enum":
                            nm = y["n"]
                        elif y.get("m") and re.match(r"^[A-Z_]+_?1$", y.get("m", "")):
                            nm = y["m"]
                        if nm and re.search(r"(^|_)[A-Z]*1$", nm):
                            used.add(nm)
    names = set(tts) | set(terms)
    fams = []
    for first in sorted(used):
        stem = first[:-1]
        members = [first]
        i = 2
        while stem + str(i) in names:
            members.append(stem + str(i))
            i += 1
        if len(members) > 1:
            fams.append(members)
            for a, b in zip(members, members[1:]):
                A("%s == %s + 1" % (b, a), "family %s* is consecutive (%s follows %s): the code computes types by offset" % (stem, b, a))
    # pairs of families mapped onto each other must have the same length
    lens = {m[0]: len(m) for m in fams}
    for grp in (("HASH1", "LINE_ATX_1", "MARKER_H1", "BLOCK_H1"), ("LINE_SETEXT_1", "MARKER_SETEXT_1", "BLOCK_SETEXT_1")):
        present = [g for g in grp if g in lens]
        ls = {g: lens.get(g, 1) for g in present}
        ok = len(set(ls.values())) <= 1
        chk.obligation(rid, "families %s have equal length %s" % (present, sorted(set(ls.values()))), ok)
        if not ok:
            chk.violation(rid, "enum:family-length:%s" % grp[0], "libMultiMarkdown.h", "families mapped onto each other by offset "
                          "arithmetic differ in length: %s" % ls)
    A("sizeof(token) <= 32767", "sizeof(token) fits pool_new(short size)")
    for t in cms:
        A("%s < kMaxTokenTypes" % t, "CriticMarkup type %s fits the type-indexed tables" % t)
    tu = ['#include "libMultiMarkdown.h"', '#include "token.h"', '#include "token_pairs.h"', '#include "parser.h"',
          '#include "critic_markup.h"']
    for i, (e, name) in enumerate(asserts):
        tu.append('_Static_assert(%s, "W%d");' % (e, i))
    work = os.path.join(compdb.WORK, "witness")
    os.makedirs(work, exist_ok=True)
    path = os.path.join(work, "enum_%d.c" % os.getpid())
    open(path, "w").write("\n".join(tu) + "\n")
    flags = [f for f in compdb.base_flags() if f != "-w"] + compdb.CONFIGS[P.config]
    r = subprocess.run(["clang", "-fsyntax-only", "-ferror-limit=0", "-Wno-everything"] + flags + [path], capture_output=True, text=True)
    os.unlink(path)
    failed = set(int(m.group(1)) for m in re.finditer(r'static_assert failed[^"]*"W(\d+)"', r.stderr))
    other = [l for l in r.stderr.splitlines() if "error:" in l and "static_assert failed" not in l]
    if other:
        raise AnalysisBroken("witness TU does not compile: " + other[0][:300])
    for i, (e, name) in enumerate(asserts):
        ok = i not in failed
        chk.obligation(rid, "%s  [%s]" % (name, e), ok, nontrivial=True, sample=(i % 60 == 0))
        if not ok:
            chk.violation(rid, "enum:%s" % e, "libMultiMarkdown.h", "compile-time relation broken: %s (%s)" % (name, e))
    chk.floor(rid, len(asserts), 250, "compile-time witnesses")
    chk.floor(rid, len(fams), 4, "offset-arithmetic families")
    chk.analysed[rid] = {"witnesses": len(asserts), "families": [m[0][:-1] + "*(%d)" % len(m) for m in fams], "terminals": len(terms)}


def r_link(P, chk):
    rid = "R-LINK"
    chk.rule(rid, "token chain discipline: every `A->next = B` is matched by `B->prev = A` in the same function; `mate` is only "
                  "written symmetrically or to NULL")
    n = 0
    for f in P.all_funcs:
        if not P.first_party(f) or f.unit.base in compdb.GENERATED_UNITS:
            continue
        stores = []
        for x in f.walk():
            if x["k"] == "BinaryOperator" and x["op"] == "=":
                l = strip(x["c"][0])
                if l is not None and l["k"] == "MemberExpr" and l.get("rec") == "token" and l["n"] in ("next", "prev", "mate", "tail"):
                    stores.append((l["n"], key(l["c"][0]), key(x["c"][1]), x, const_value(x["c"][1]) == 0))
        if not stores:
            continue
        prevs = {(b, r) for fld, b, r, x, z in stores if fld == "prev"}
        for fld, b, r, x, z in stores:
            if fld == "next" and not z:
                n += 1
                ok = (r, b) in prevs or (b + "->next", b) in prevs
                chk.obligation(rid, "%s %s: %s->next = %s has the matching prev store" % (f.where(x), f.name, b, r), ok, sample=False)
                if not ok:
                    chk.violation(rid, "link:%s:%s->next=%s" % (f.name, b, r), f.where(x),
                                  "%s links %s->next = %s without setting %s->prev = %s: the sibling chain is no longer "
                                  "consistently doubly linked" % (f.name, b, r, r, b))
            elif fld == "mate" and not z:
                n += 1
                mates = {(bb, rr) for ff, bb, rr, _, _ in stores if ff == "mate"}
                ok = (r, b) in mates or r.endswith("->mate") or b.endswith("->mate") or f.name == "token_copy"
                chk.obligation(rid, "%s %s: %s->mate = %s is symmetric" % (f.where(x), f.name, b, r), ok, sample=False)
                if not ok:
                    chk.violation(rid, "link:%s:%s->mate=%s" % (f.name, b, r), f.where(x),
                                  "%s sets %s->mate = %s without the reverse link" % (f.name, b, r))
    chk.floor(rid, n, 10, "next / mate stores")
    # tail: only ever stored on a chain head (or on a node for itself)
    nt = 0
    for f in P.all_funcs:
        if not P.first_party(f) or f.unit.base in compdb.GENERATED_UNITS:
            continue
        for x in f.walk():
            if x["k"] != "BinaryOperator" or x["op"] != "=":
                continue
            l = strip(x["c"][0])
            if l is None or l["k"] != "MemberExpr" or l.get("rec") != "token" or l["n"] != "tail":
                continue
            nt += 1
            tgt = strip(l["c"][0])
            tk = key(tgt)
            why = None
            if key(x["c"][1]) == tk:
                why = "a node's own tail"
            elif tgt["k"] == "MemberExpr" and tgt["n"] == "child":
                why = "first child = chain head"
            elif tgt["k"] == "DeclRefExpr" and tgt.get("dk") == "Parm":
                why = "parameter (head by the primitive's contract)"
            elif tgt["k"] == "DeclRefExpr" and tgt.get("dk") == "Var":
                # fresh node, first child, or the result of a walk to the head (while (v->prev) v = v->prev)
                for y in f.walk():
                    src = None
                    if y["k"] == "VarDecl" and y["n"] == tk and y.get("c") and y["c"][0] is not None:
                        src = strip(y["c"][0])
                    elif y["k"] == "BinaryOperator" and y["op"] == "=" and key(y["c"][0]) == tk:
                        src = strip(y["c"][1])
                    if src is None:
                        continue
                    if src["k"] == "CallExpr" and ((src.get("callee") or "").startswith("token_new") or src.get("callee") == "token_copy"):
                        why = "fresh node"
                    elif src["k"] == "CallExpr" and src.get("callee") and _returns_chain_head(f.unit.funcs.get(src["callee"])):
                        why = "result of %s, which walks prev links to the head" % src["callee"]
                    elif src["k"] == "MemberExpr" and src["n"] == "child":
                        why = "first child = chain head"
                # the node's own prev link is cut in this function: it is a head now
                for y in f.walk():
                    if y["k"] == "BinaryOperator" and y["op"] == "=" and key(y["c"][0]) == tk + "->prev" and const_value(y["c"][1]) == 0 \
                            and y["l"] <= x["l"]:
                        why = why or "its prev link was cut just before (head of the new chain)"
                for w in f.walk():
                    if w["k"] == "WhileStmt" and key(w["c"][0]) == tk + "->prev" and any(
                            z["k"] == "BinaryOperator" and z["op"] == "=" and key(z["c"][0]) == tk and key(z["c"][1]) == tk + "->prev"
                            for z in walk(w["c"][1])) and w["l"] < x["l"]:
                        why = "reached by walking prev links to the head"
                if why is None:
                    # any loop shape: the store is unreachable while `v->prev` is still non-NULL at the last test of it
                    from .prog import edpe_blocks as _edpe
                    nn = {tk + "->prev", tk + "->prev!=0"}
                    zz = {tk + "->prev==0", "!" + tk + "->prev"}

                    def decide(t, nn=nn, zz=zz):
                        t = strip(t)
                        if t is None:
                            return None
                        if t["k"] == "UnaryOperator" and t["op"] == "!":
                            r = decide(t["c"][0])
                            return None if r is None else not r
                        k2 = _norm(key(t)).replace(" ", "")
                        if k2 in nn:
                            return True
                        if k2 in zz:
                            return False
                        return None
                    tested = any(_norm(key(y)).replace(" ", "") in nn | zz for y in f.walk() if y["k"] in ("BinaryOperator", "MemberExpr", "ImplicitCastExpr"))
                    pos_ = f.cfg.positions()
                    if tested and x["i"] in pos_ and pos_[x["i"]][0] not in _edpe(f, "?none", 0, extra_decide=decide):
                        why = "only reached once %s->prev is NULL (head of the chain)" % tk
            chk.obligation(rid, "%s %s: %s->tail is stored on a chain head (%s)" % (f.where(x), f.name, tk, why), why is not None, sample=False)
            if why is None:
                chk.violation(rid, "link:tail:%s:%s" % (f.name, tk), f.where(x), "%s stores the tail pointer on `%s`, which is not "
                              "known to be the head of its chain (first child, a primitive's head parameter, a fresh node, or the end "
                              "of a walk over prev links): the real head keeps a stale tail, so appends and back-to-front walks start "
                              "at the wrong token" % (f.name, tk))
    chk.floor(rid, nt, 10, "tail stores")


# ---------------------------------------------------------------------------
# R-BYTECLASS (C16)

CTYPE = {"tolower", "toupper", "isalpha", "isdigit", "isalnum", "isspace", "ispunct", "isupper", "islower", "isprint", "isxdigit"}


def r_byteclass(P, chk):
    from .ub1 import UB1
    rid = "R-BYTECLASS"
    chk.rule(rid, "bytes >= 0x80 are neutral for the byte classifier and for every ctype call (two necessary conditions of "
                  "'multi-byte characters are never split or case-mapped bytewise')")
    u = P.units.get("char.c")
    if u is None:
        raise AnalysisBroken("char.c is gone")
    tab = [v for v in u.vars if v["name"] == "smart_char_type"]
    if not tab or not isinstance(tab[0]["init"], list) or len(tab[0]["init"]) != 256:
        raise AnalysisBroken("char.c: smart_char_type[256] initialiser not found")
    init = tab[0]["init"]
    bad = [i for i in range(128, 256) if init[i] != 0]
    # 0xA0 is what the lexer treats as a space; everything else >= 0x80 must be unclassified
    chk.obligation(rid, "smart_char_type[0x80..0xFF] are all 0 (no high byte is whitespace / punctuation / alpha)", not bad)
    for i in bad:
        chk.violation(rid, "byteclass:table:0x%02x" % i, "char.c", "smart_char_type[0x%02x] = %d: a UTF-8 lead or continuation byte is "
                      "classified (%s); byte-wise trimming / ambidextrous logic can cut a multi-byte character" % (i, init[i], init[i]))
    ascii_classified = sum(1 for i in range(128) if init[i])
    chk.floor(rid, ascii_classified, 60, "classified ASCII bytes in smart_char_type")
    n = 0
    for f in u.funcs.values():
        for x in f.walk():
            if x["k"] == "ArraySubscriptExpr" and key(x["c"][0]) == "smart_char_type":
                n += 1
                idx = x["c"][1]
                s = idx
                while s is not None and s["k"] in ("ParenExpr", "ImplicitCastExpr") :
                    s = s["c"][0]
                ok = s is not None and s["k"] == "CStyleCastExpr" and "unsigned char" in s.get("t", "")
                chk.obligation(rid, "%s %s: table index is (unsigned char)" % (f.where(x), f.name), ok, sample=False)
                if not ok:
                    chk.violation(rid, "byteclass:index:%s" % f.name, f.where(x), "%s indexes smart_char_type with a possibly negative "
                                  "char: bytes >= 0x80 read before the table" % f.name)
    chk.floor(rid, n, 10, "smart_char_type lookups")
    # ctype
    sl = []
    sites = []
    for f in P.all_funcs:
        if not P.first_party(f) and f.unit.base != "argtable3.c":
            continue
        for c in f.calls():
            if c.get("callee") == "setlocale":
                sl.append((f, c))
            if c.get("callee") in CTYPE and P.first_party(f) and f.unit.base not in compdb.GENERATED_UNITS:
                sites.append((f, c))
    ok = not [x for x in sl if x[0].unit.base != "argtable3.c"]
    chk.obligation(rid, "no first-party code calls setlocale: ctype functions run in the \"C\" locale, where they are the identity / "
                   "false on bytes >= 0x80", ok)
    for f, c in sl:
        if f.unit.base != "argtable3.c":
            chk.violation(rid, "byteclass:setlocale:%s" % f.name, f.where(c), "%s calls setlocale: tolower/toupper may now map bytes "
                          ">= 0x80 of UTF-8 sequences" % f.name)
    for f, c in sites:
        chk.obligation(rid, "%s %s: %s() (C locale)" % (f.where(c), f.name, c["callee"]), True, nontrivial=False, sample=False)
    chk.floor(rid, len(sites), 5, "ctype call sites")
    # label_from_string keeps multi-byte sequences together and only case-maps ASCII
    lf = P.func("label_from_string", "writer.c")

    def is_cont_test(e):
        """Is e the continuation-byte test - `(x & 0xC0) == 0x80` written inline, or a call of a one-argument predicate
        helper that is true exactly for 0x80..0xBF (decided per byte value by EDPE)?"""
        e = strip(e)
        if e is None:
            return False
        k = key(e).replace(" ", "")
        if re.match(r"^\(\(?\*?\w+(\[\w+\])?\)?&192\)==128$", k.strip("()") + "") or re.match(r"^\(\(\*\w+&192\)==128\)$", k):
            return True
        if e["k"] == "CallExpr" and len(e["c"]) == 2:
            h = P.resolve(lf, e.get("callee") or "")
            if h is not None and P.first_party(h):
                t = byte_pred_table(P, h)
                return t is not None and all(t[v] == (0x80 <= v <= 0xBF) for v in range(256))
        return False
    loops = [w for w in lf.walk() if w["k"] in ("WhileStmt", "IfStmt") and
             ("&192)==128" in key(w["c"][0]).replace(" ", "") or any(is_cont_test(y) for y in walk(w["c"][0]) if y["k"] == "CallExpr"))]
    # the copying loop runs for as long as continuation bytes follow: no other conjunct may end it earlier
    for w in loops:
        if w["k"] == "WhileStmt":
            exact = is_cont_test(w["c"][0])
            chk.obligation(rid, "label_from_string: the continuation-byte loop is bounded only by `(next & 0xC0) == 0x80`", exact)
            if not exact:
                chk.violation(rid, "byteclass:label:loopbound", lf.where(w), "label_from_string's continuation-byte loop has an extra stop "
                              "condition (`%s`): a long sequence (4-byte character) is cut and its tail bytes dropped" % key(w["c"][0])[:60])
    app_plain = False
    for w in loops:
        for x in walk(w["c"][1]):
            if x["k"] == "CallExpr" and x.get("callee") == "d_string_append_c":
                a = strip(x["c"][2])
                # the byte itself, unclassified: a dereference of a char pointer
                if a is not None and a["k"] == "UnaryOperator" and a["op"] == "*" and "char" in ((strip(a["c"][0]) or {}).get("t") or ""):
                    app_plain = True
    chk.obligation(rid, "label_from_string copies lead + continuation bytes ((b & 0xC0) == 0x80) without classification", bool(loops) and app_plain)
    if not (loops and app_plain):
        chk.violation(rid, "byteclass:label:continuation", lf.where(), "label_from_string no longer keeps continuation bytes "
                      "((b & 0xC0) == 0x80) with their lead byte")
    ub = UB1(lf)
    for c in lf.calls("tolower"):
        iv = ub.interval_at(c["c"][1], at=c)
        ok = iv is not None and 0 <= iv[0] and iv[1] <= 127
        if not ok:
            # guarded by a predicate helper that only accepts ASCII bytes
            ak = key(c["c"][1])
            cur = c
            for a in lf.ancestors(c):
                if a["k"] == "IfStmt" and a["c"][1] is not None and any(x is cur for x in walk(a["c"][1])):
                    for y in walk(a["c"][0]):
                        if y["k"] == "CallExpr" and len(y["c"]) == 2 and key(y["c"][1]) == ak:
                            h = P.resolve(lf, y.get("callee") or "")
                            t = byte_pred_table(P, h) if h is not None and P.first_party(h) else None
                            if t is not None and not any(t[v] for v in range(128, 256)) and strip(a["c"][0]) is strip(y):
                                ok = True
                                iv = "guarded by %s(), true for ASCII bytes only" % h.name
                cur = a
        chk.obligation(rid, "%s label_from_string: tolower() only sees ASCII (derived range %s)" % (lf.where(c), iv), ok)
        if not ok:
            chk.violation(rid, "byteclass:label:tolower", lf.where(c), "label_from_string applies tolower() to a byte that is not "
                          "range-checked as ASCII (range %s)" % (iv,))


def byte_pred_table(P, h):
    """[bool]*256 for a pure one-argument predicate over a char (`static bool is_x(char c) { ... }`), by EDPE over the
    256 byte values (plain char taken as signed, as on the build target); None if some return value cannot be decided."""
    from .prog import edpe_blocks, _cmp_decide, _eval_num
    if len(h.params) != 1 or h.params[0][1].replace("const ", "").strip() not in ("char", "unsigned char", "int"):
        return None
    if any(c.get("callee") for c in h.calls()):
        return None
    cache = getattr(P, "_bpt", None)
    if cache is None:
        cache = P._bpt = {}
    if P.fid(h) in cache:
        return cache[P.fid(h)]
    pn = h.params[0][0]
    unsigned = "unsigned" in h.params[0][1]
    out = []
    pos = h.cfg.positions()
    for v in range(256):
        sv = v if (v < 128 or unsigned) else v - 256
        blocks = edpe_blocks(h, pn, sv)
        vals = set()
        for r in h.walk():
            if r["k"] != "ReturnStmt" or not r.get("c") or r["c"][0] is None:
                continue
            z = r
            if z.get("i") not in pos:
                z = next((y for y in walk(r) if y.get("i") in pos), None)
            if z is None or pos[z["i"]][0] not in blocks:
                continue
            e = strip(r["c"][0])
            cv = const_value(e)
            if cv is not None:
                vals.add(bool(cv))
                continue

            def ev(t, depth=0):
                t = strip(t)
                if t is None or depth > 8:
                    return None
                if t["k"] == "UnaryOperator" and t["op"] == "!":
                    x = ev(t["c"][0], depth + 1)
                    return None if x is None else not x
                if t["k"] == "BinaryOperator" and t["op"] in ("&&", "||"):
                    x, y = ev(t["c"][0], depth + 1), ev(t["c"][1], depth + 1)
                    if t["op"] == "&&":
                        return False if (x is False or y is False) else (True if (x and y) else None)
                    return True if (x is True or y is True) else (False if (x is False and y is False) else None)
                d = _cmp_decide(t, {pn}, sv)
                if d is not None:
                    return d
                n2 = _eval_num(t, {pn}, sv)
                return None if n2 is None else bool(n2)
            vals.add(ev(e))
        if len(vals) != 1 or None in vals:
            cache[P.fid(h)] = None
            return None
        out.append(vals.pop())
    cache[P.fid(h)] = out
    return out


# ---------------------------------------------------------------------------
# R-SPAN/split (C15): pieces produced by the split primitives tile the original span

def _linear(f, n, depth=0):
    """Linear form {atom key: coef, 1: const} of an integer expression, substituting locals that are
    initialised once and never reassigned.  None if not linear."""
    s = strip(n)
    if s is None:
        return None
    cv = const_value(s)
    if cv is not None:
        return {1: cv}
    k = s["k"]
    if k == "BinaryOperator" and s["op"] in ("+", "-"):
        a, b = _linear(f, s["c"][0], depth), _linear(f, s["c"][1], depth)
        if a is None or b is None:
            return None
        out = dict(a)
        for kk, v in b.items():
            out[kk] = out.get(kk, 0) + (v if s["op"] == "+" else -v)
        return {kk: v for kk, v in out.items() if v != 0 or kk == 1}
    if k == "BinaryOperator" and s["op"] == "*":
        ca, cb = const_value(s["c"][0]), const_value(s["c"][1])
        if ca is not None or cb is not None:
            other = _linear(f, s["c"][1] if ca is not None else s["c"][0], depth)
            m = ca if ca is not None else cb
            if other is not None:
                return {kk: v * m for kk, v in other.items() if v * m != 0 or kk == 1}
    if k == "DeclRefExpr" and s.get("dk") == "Var" and depth < 4:
        inits = [x for x in f.walk() if x["k"] == "VarDecl" and x.get("did") == s.get("did") and x.get("c") and x["c"][0] is not None]
        assigns = [x for x in f.walk() if (x["k"] == "BinaryOperator" and x["op"] == "=" or x["k"] == "CompoundAssignOperator"
                                          or (x["k"] == "UnaryOperator" and x["op"] in ("post++", "pre++", "post--", "pre--")))
                   and (strip(x["c"][0]) or {}).get("did") == s.get("did")]
        if len(inits) == 1 and not assigns:
            return _linear(f, inits[0]["c"][0], depth + 1)
    return {key(s): 1}


def _returns_chain_head(h):
    """h returns a token only once its prev link is NULL: every `return v;` is unreachable while `v->prev` is decided non-null."""
    from .prog import edpe_blocks as _edpe
    if h is None:
        return False
    rets = [r for r in h.walk() if r["k"] == "ReturnStmt" and r.get("c") and r["c"][0] is not None]
    if not rets:
        return False
    pos_ = h.cfg.positions()
    for r in rets:
        v = strip(r["c"][0])
        if v is None or v["k"] != "DeclRefExpr":
            return False
        tk = v["n"]
        nn = {tk + "->prev", tk + "->prev!=0"}
        zz = {tk + "->prev==0", "!" + tk + "->prev"}

        def decide(t, nn=nn, zz=zz):
            t = strip(t)
            if t is None:
                return None
            k2 = _norm(key(t)).replace(" ", "")
            if k2 in nn:
                return True
            if k2 in zz:
                return False
            return None
        z = r
        while z is not None and z.get("i") not in pos_:
            z = next((y for y in walk(z) if y.get("i") in pos_ and y is not z), None)
        if z is None or pos_[z["i"]][0] in _edpe(h, "?none", 0, extra_decide=decide):
            return False
    return True


def r_span_split(P, chk):
    rid = "R-SPAN/split"
    chk.rule(rid, "the continuation piece created by a token split ends exactly where the original token ended "
                  "(start + len of the new token == start + len of the split token, by linear arithmetic)")
    n = 0
    for fn in ("token_split_on_char", "token_split"):
        f = P.func(fn, "token.c")
        tok = f.params[0][0]
        for c in f.calls("token_new"):
            if key(c["c"][1]) != tok + "->type":
                continue
            n += 1
            a = _linear(f, c["c"][2])
            b = _linear(f, c["c"][3])
            ok = False
            if a is not None and b is not None:
                tot = dict(a)
                for kk, v in b.items():
                    tot[kk] = tot.get(kk, 0) + v
                tot = {kk: v for kk, v in tot.items() if v != 0}
                ok = tot == {tok + "->start": 1, tok + "->len": 1}
            chk.obligation(rid, "%s %s: token_new(%s, %s, %s) ends at %s->start + %s->len" % (
                f.where(c), fn, key(c["c"][1]), key(c["c"][2]), key(c["c"][3]), tok, tok), ok)
            if not ok:
                chk.violation(rid, "span:split:%s" % fn, f.where(c), "%s creates the remainder token with start `%s` and length `%s`, whose "
                              "end is not the end of the token being split: the piece overlaps its successor or runs past the source" % (
                                  fn, f.src(c["c"][2]), f.src(c["c"][3])))
    chk.floor(rid, n, 3, "remainder tokens created by the split primitives")


# ---------------------------------------------------------------------------
# R-LINK/mate (C15): only unmatched tokens are paired

def _conjuncts(e):
    e = strip(e)
    if e is None:
        return []
    if e["k"] == "BinaryOperator" and e["op"] == "&&":
        return _conjuncts(e["c"][0]) + _conjuncts(e["c"][1])
    return [e]


def _guarded_unmatched(f, node, var):
    """Is `node` inside the then-branch of an `if` one of whose conjuncts is `var->unmatched` (or `var->mate == NULL`)?"""
    cur = node
    for a in f.ancestors(node):
        if a["k"] == "IfStmt" and a["c"][1] is not None and any(x is cur for x in walk(a["c"][1])):
            for cj in _conjuncts(a["c"][0]):
                k = key(cj).replace(" ", "")
                if k == var + "->unmatched" or k in ("(%s->mate==0)" % var, "!%s->mate" % var):
                    return True
        cur = a
    return False


def r_mate_guard(P, chk):
    rid = "R-LINK"
    n = 0
    for f in P.all_funcs:
        if not P.first_party(f):
            continue
        for c in f.calls("token_pair_mate"):
            n += 1
            a, b = key(c["c"][1]), key(c["c"][2])
            for var in (a, b):
                # either guarded directly, or taken from a stack whose pushes are all guarded
                ok = _guarded_unmatched(f, c, var)
                src = None
                if not ok:
                    for x in f.walk():
                        if x["k"] == "BinaryOperator" and x["op"] == "=" and key(x["c"][0]) == var:
                            r = strip(x["c"][1])
                            if r is not None and r["k"] == "CallExpr" and r.get("callee") in ("stack_peek_index", "stack_peek", "stack_pop"):
                                src = key(r["c"][1])
                    if src is not None:
                        pushes = [p for p in f.calls("stack_push") if key(p["c"][1]) == src]
                        ok = bool(pushes) and all(_guarded_unmatched(f, p, key(p["c"][2])) for p in pushes)
                chk.obligation(rid, "%s %s: token_pair_mate operand `%s` is known to be unmatched (%s)" % (
                    f.where(c), f.name, var, "guard" if src is None else "every push onto %s is guarded" % src), ok=ok)
                if not ok:
                    chk.violation(rid, "link:mate-guard:%s:%s" % (f.name, var), f.where(c),
                                  "%s pairs `%s` without testing that it is still unmatched: a token that already has a mate is "
                                  "paired again and its old partner keeps pointing at it (asymmetric mates)" % (f.name, var))
    chk.floor(rid, n, 1, "token_pair_mate call sites")



# ---------------------------------------------------------------------------
# R-HIGHBYTE (C16): hand-written code never looks at a single byte >= 0x80 as if it were a character

def r_highbyte(P, chk):
    rid = "R-HIGHBYTE"
    chk.rule(rid, "outside the UTF-8 validator, a byte of text is compared with a constant >= 0x80 only in mask form "
                  "`(c & M) == K` (UTF-8 structure test); a bare `c == 0xA0` style test treats the last byte of many multi-byte "
                  "characters as a character of its own")
    n = 0

    def text_byte(e):
        e0 = e
        e = strip(e)
        if e is None:
            return False
        t = (e.get("t") or "").replace("const ", "").strip()
        if e["k"] == "ArraySubscriptExpr" or (e["k"] == "UnaryOperator" and e["op"] == "*"):
            return t in ("char", "unsigned char", "signed char")
        if e["k"] == "DeclRefExpr" and e.get("dk") in ("Parm", "Var"):
            return t in ("char", "unsigned char", "signed char")      # a byte handed to a predicate helper
        return False
    for f in P.all_funcs:
        if not P.first_party(f) or f.unit.base in compdb.GENERATED_UNITS or f.unit.base in ("miniz.c", "argtable3.c"):
            continue
        if f.name == "utf8_check":
            continue
        for x in f.walk():
            if x["k"] != "BinaryOperator" or x["op"] not in ("==", "!=", "<", ">", "<=", ">="):
                continue
            for a, b in ((x["c"][0], x["c"][1]), (x["c"][1], x["c"][0])):
                cv = const_value(b)
                if cv is not None and cv >= 1 << 31:
                    cv -= 1 << 32          # '\xA0' as a (sign-extended) int constant
                if cv is None or not (128 <= cv <= 255 or -128 <= cv < 0):
                    continue
                sa = strip(a)
                if sa is None:
                    continue
                if sa["k"] == "BinaryOperator" and sa["op"] == "&" and (text_byte(sa["c"][0]) or text_byte(sa["c"][1])):
                    n += 1
                    chk.obligation(rid, "%s %s: %s (mask form)" % (f.where(x), f.name, key(x)[:50]), True, sample=False)
                elif text_byte(a):
                    n += 1
                    chk.obligation(rid, "%s %s: %s" % (f.where(x), f.name, key(x)[:50]), False)
                    chk.violation(rid, "highbyte:%s:%s:%d" % (f.unit.base, f.name, cv & 0xff), f.where(x),
                                  "%s compares a single text byte with 0x%02x: bytes >= 0x80 are parts of multi-byte characters, not "
                                  "characters" % (f.name, cv & 0xff))
        # the switch form of the same test: `switch (*str) { case '\xC2': ..`
        for x in f.walk():
            if x["k"] != "SwitchStmt" or not text_byte(x["c"][0]):
                continue
            for y in walk(x["c"][1]):
                if y["k"] != "CaseStmt" or y.get("v") is None:
                    continue
                own = next((a for a in f.ancestors(y) if a["k"] == "SwitchStmt"), None)
                cv = y["v"]
                if cv >= 1 << 31:
                    cv -= 1 << 32
                if own is x and (128 <= cv <= 255 or -128 <= cv < 0):
                    n += 1
                    chk.obligation(rid, "%s %s: case 0x%02x on a text byte" % (f.where(y), f.name, cv & 0xff), False)
                    chk.violation(rid, "highbyte:%s:%s:%d" % (f.unit.base, f.name, cv & 0xff), f.where(y),
                                  "%s has a case for the single text byte 0x%02x: bytes >= 0x80 are parts of multi-byte characters, not "
                                  "characters" % (f.name, cv & 0xff))
    chk.floor(rid, n, 1, "comparisons of text bytes with high constants")


# ---------------------------------------------------------------------------
# R-PUSHPOP/canonical (C13): the name the cycle guard compares must not grow from one level of the recursion to the next

CANONICALISERS = {"realpath", "absolute_path_for_argument"}


def r_canonkey(P, chk):
    """The visited-stack guard compares path *strings*.  It can only ever match if the string built for a file at level
    n+1 is not derived, by appending, from the string pushed at level n: otherwise a file that includes itself gets a
    longer name each time round.  Dataflow: the pushed name K is handed to the recursive call as some parameter p; no
    definition derived from p may reach the construction of K at the next level except through a canonicaliser
    (realpath: its failure means the folder does not exist, so nothing below it can be read and the recursion stops)."""
    from .prog import edpe_blocks, single_assignment_locals
    rid = "R-PUSHPOP/canonical"
    chk.rule(rid, "mmd_transclude_source: the name pushed on the stack of files being expanded is not built, at the next level "
                  "of the recursion, from the previous level's name except through realpath (a name that grows per level never "
                  "matches the membership test)")
    f = P.func("mmd_transclude_source", "transclude.c")
    rec = list(f.calls("mmd_transclude_source"))
    pidx = [i for i, q in enumerate(f.params) if "stack" in q[1]]
    if not rec or not pidx:
        raise AnalysisBroken("mmd_transclude_source no longer recurses with a stack: R-PUSHPOP/canonical needs re-reading")
    stk = key(rec[0]["c"][1 + pidx[0]])
    pushes = [c for c in f.calls("stack_push") if key(c["c"][1]) == stk]
    if not pushes:
        raise AnalysisBroken("mmd_transclude_source: nothing is pushed on %s" % stk)
    roots = set()
    for q in pushes:
        m = re.match(r"[\(\*&]*([A-Za-z_]\w*)", key(q["c"][2]))
        if m:
            roots.add(m.group(1))
    names = lambda e: {y["n"] for y in walk(e) if y["k"] == "DeclRefExpr" and y.get("dk") in ("Var", "Parm", "ParmVar")}
    carried = set()
    for r in rec:
        for i, a in enumerate(r["c"][1:]):
            if i < len(f.params) and names(a) & roots:
                carried.add(f.params[i][0])
    pos = f.cfg.positions()

    def stmt_of(n):
        z = n
        while z is not None and z.get("i") not in pos:
            z = f.parent(z)
        return z

    def top_call(e):
        e = strip(e)
        return e.get("callee") if e is not None and e["k"] == "CallExpr" else None

    # definitions: (variable, statement, right-hand side names, is-canonicalised)
    defs = []
    for x in f.walk():
        if x["k"] == "BinaryOperator" and x["op"] == "=":
            l = strip(x["c"][0])
            if l is not None and l["k"] == "DeclRefExpr":
                defs.append((l["n"], x, names(x["c"][1]), top_call(x["c"][1]) in CANONICALISERS))
        elif x["k"] == "VarDecl" and x.get("c") and x["c"][0] is not None:
            defs.append((x["n"], x, names(x["c"][0]), top_call(x["c"][0]) in CANONICALISERS))
        elif x["k"] == "CallExpr" and x.get("callee"):
            outs = [strip(a["c"][0])["n"] for a in map(strip, x["c"][1:]) if a is not None and a["k"] == "UnaryOperator" and a["op"] == "&"
                    and strip(a["c"][0]) is not None and strip(a["c"][0])["k"] == "DeclRefExpr"]
            if outs:
                ins = set()
                for a in x["c"][1:]:
                    sa = strip(a)
                    if not (sa is not None and sa["k"] == "UnaryOperator" and sa["op"] == "&"):
                        ins |= names(a)
                for o in outs:
                    defs.append((o, x, ins, x["callee"] in CANONICALISERS))
            elif x["callee"].startswith(("d_string_append", "d_string_insert", "d_string_prepend", "strcat", "strncat")) and len(x["c"]) > 2:
                t = strip(x["c"][1])
                if t is not None and t["k"] == "DeclRefExpr":
                    defs.append((t["n"], x, names(x["c"][2]) | {t["n"]}, False))
    # locals that hold the result of a canonicaliser: `if (canonical)` is decided true (failure = folder does not exist)
    canon = {nm for nm, init in single_assignment_locals(f).items() if top_call(init) in CANONICALISERS}

    def decide(t):
        t = strip(t)
        if t is None:
            return None
        if t["k"] == "DeclRefExpr" and t["n"] in canon:
            return True
        if t["k"] == "BinaryOperator" and t["op"] in ("!=", "=="):
            a, b = strip(t["c"][0]), strip(t["c"][1])
            for u, w in ((a, b), (b, a)):
                if u is not None and u["k"] == "DeclRefExpr" and u["n"] in canon and const_value(w) == 0:
                    return t["op"] == "!="
        return None
    edges = set()
    edpe_blocks(f, "?none", 0, extra_decide=decide, edges_out=edges)
    succ = {}
    for a, b in edges:
        succ.setdefault(a, []).append(b)

    def reaches(a, b, var):
        """statement b can run after statement a with no other definition of var in between (pruned CFG)"""
        sa, sb = stmt_of(a), stmt_of(b)
        if sa is None or sb is None:
            return True
        ab, ai = pos[sa["i"]]
        bb, bi = pos[sb["i"]]
        cut = {}
        for v, d, _, _ in defs:
            if v == var and d is not a and d is not b:
                sd = stmt_of(d)
                if sd is not None:
                    cut.setdefault(pos[sd["i"]][0], []).append(pos[sd["i"]][1])
        if ab == bb and bi > ai and not any(ai < ci < bi for ci in cut.get(ab, ())):
            return True
        if any(ci > ai for ci in cut.get(ab, ())):
            return False
        seen, st = set(), list(succ.get(ab, ()))
        while st:
            x = st.pop()
            if x in seen:
                continue
            seen.add(x)
            cs = cut.get(x, ())
            if x == bb and not any(ci < bi for ci in cs):
                return True
            if cs:
                continue
            st.extend(succ.get(x, ()))
        return False

    tainted = {}          # id(def statement), var -> chain description
    changed = True
    while changed:
        changed = False
        for v, d, ins, can in defs:
            if (id(d), v) in tainted or can:
                continue
            why = None
            for u in ins:
                if u in carried:
                    why = "parameter %s (the previous level's %s)" % (u, "/".join(sorted(roots)))
                    break
                for v2, d2, _, _ in defs:
                    if v2 == u and (id(d2), v2) in tainted and d2 is not d and reaches(d2, d, u):
                        why = tainted[(id(d2), v2)] + " -> %s at %s" % (u, f.where(d2))
                        break
                    if v2 == u and d2 is d and (id(d2), v2) in tainted:
                        continue
                if why:
                    break
            if why:
                tainted[(id(d), v)] = why
                changed = True
    # ... and realpath fails (NULL) for a folder that does not exist: on that outcome its result must not replace the name in use
    # (a NULL search folder makes the function give up before it has looked at a single marker, absolute ones included)
    def decide_null(t):
        r = decide(t)
        return None if r is None else not r
    dead = edpe_blocks(f, "?none", 0, extra_decide=decide_null)
    for x in f.walk():
        if x["k"] == "BinaryOperator" and x["op"] == "=":
            r_ = strip(x["c"][1])
            if r_ is not None and r_["k"] == "DeclRefExpr" and r_["n"] in canon:
                sx = stmt_of(x)
                ok = sx is None or pos[sx["i"]][0] not in dead
                chk.obligation(rid, "%s: `%s` runs only where %s is known to be non-NULL" % (f.where(x), f.src(x)[:60], r_["n"]), ok)
                if not ok:
                    chk.violation(rid, "pushpop:canonical-null:%s" % key(x["c"][0]), f.where(x),
                                  "`%s` is reachable with %s == NULL (realpath failed: the folder does not exist): the name in use is "
                                  "replaced by NULL, the function gives up before scanning for markers and includes that do not depend "
                                  "on the folder (absolute paths) are left unsubstituted" % (f.src(x)[:60], r_["n"]))
    sinks = [(v, d) for v, d, _, _ in defs if v in roots]
    chk.floor(rid, len(sinks), 2, "statements that build the pushed name")
    chk.obligation(rid, "the recursive call carries the pushed name into parameter(s) %s" % (sorted(carried) or "none"), True, nontrivial=bool(carried))
    for v, d in sinks:
        w = tainted.get((id(d), v))
        chk.obligation(rid, "%s: `%s` is not derived from the previous level's name" % (f.where(d), f.src(d)[:70]), w is None)
        if w is not None:
            chk.violation(rid, "pushpop:growing-name", f.where(d),
                          "the name compared by the cycle guard is built from the previous level's name without being canonicalised "
                          "(%s -> %s): with a transclude base such as `.` a self-including file gets a longer path at every level, the "
                          "guard never matches and expansion does not terminate" % (w, v))
    chk.analysed[rid] = {"definitions": len(defs), "carried_params": sorted(carried), "canonical_locals": sorted(canon),
                         "tainted_definitions": len(tainted)}


# ---------------------------------------------------------------------------
# R-RANGEBASE: a (text, start, len) range is scanned from text + start, never from text

BOUNDED_SCANNERS = {"memchr": (0, 2), "memrchr": (0, 2), "strncmp": (0, 2), "memcmp": (0, 2), "strnlen": (0, 1), "strncpy": (1, 2),
                    "memcpy": (1, 2), "my_strndup": (0, 1), "strndup": (0, 1), "strncasecmp": (0, 2)}


def range_triples(P):
    """{function id: (text parameter, start parameter, length parameter)}: functions that take a text pointer together with
    a start offset and a length, found from what they do - they index `text[start + ..]` / form `&text[start]`, `text + start`
    - or from handing exactly these three parameters on to such a function (fixpoint over the call graph)."""
    if hasattr(P, "_range_triples"):
        return P._range_triples
    ints = ("size_t", "int", "long", "unsigned int", "unsigned long", "short")
    trip = {}
    cands = []
    for f in P.all_funcs:
        if not P.first_party(f) or f.unit.base in ("miniz.c", "argtable3.c"):
            continue
        ptrs = [i for i, q in enumerate(f.params) if q[1].replace("const", "").replace(" ", "") in ("char*", "unsignedchar*")]
        nums = [i for i, q in enumerate(f.params) if q[1].replace("const", "").strip() in ints]
        if ptrs and len(nums) >= 2:
            cands.append((f, ptrs, nums))
    for f, ptrs, nums in cands:
        for ip in ptrs:
            S = f.params[ip][0]
            for ia in nums:
                A = f.params[ia][0]
                used = False
                # cursors: locals that start out as the start offset (`size_t counter = start;`)
                cursors = {A}
                for x in f.walk():
                    if x["k"] == "VarDecl" and x.get("c") and x["c"][0] is not None and key(x["c"][0]) == A:
                        cursors.add(x["n"])
                    elif x["k"] == "BinaryOperator" and x["op"] == "=" and key(x["c"][1]) == A:
                        cursors.add(key(x["c"][0]))
                for x in f.walk():
                    if x["k"] == "ArraySubscriptExpr" and key(x["c"][0]) == S:
                        lf = _linear(f, x["c"][1])
                        if lf and (lf.get(A) == 1 or any(lf.get(cu) == 1 for cu in cursors)):
                            used = True
                        ix = strip(x["c"][1])
                        if ix is not None and ix["k"] == "UnaryOperator" and ix["op"] in ("post++", "pre++") and key(ix["c"][0]) in cursors:
                            used = True
                    elif x["k"] == "BinaryOperator" and x["op"] == "+" and key(x["c"][0]) == S:
                        lf = _linear(f, x["c"][1])
                        if lf and lf.get(A) == 1:
                            used = True
                if not used:
                    continue
                # the length: an integer parameter added to the start (`start + len`) somewhere
                for ib in nums:
                    if ib == ia:
                        continue
                    B = f.params[ib][0]
                    for x in f.walk():
                        if x["k"] == "BinaryOperator" and x["op"] == "+":
                            lf = _linear(f, x)
                            if lf and lf.get(A) == 1 and lf.get(B) == 1:
                                trip[P.fid(f)] = (ip, ia, ib)
    changed = True
    while changed:
        changed = False
        for f, ptrs, nums in cands:
            if P.fid(f) in trip:
                continue
            names = {q[0]: i for i, q in enumerate(f.params)}
            for c in f.calls():
                g = P.resolve(f, c.get("callee") or "")
                if g is None or P.fid(g) not in trip:
                    continue
                ip, ia, ib = trip[P.fid(g)]
                args = c["c"][1:]
                if max(ip, ia, ib) >= len(args):
                    continue
                ks = [key(args[ip]), key(args[ia]), key(args[ib])]
                if all(k_ in names for k_ in ks) and len(set(ks)) == 3:
                    trip[P.fid(f)] = (names[ks[0]], names[ks[1]], names[ks[2]])
                    changed = True
                    break
    P._range_triples = trip
    return trip


def r_rangebase(P, chk, units=None):
    rid = "R-RANGEBASE"
    chk.rule(rid, "a function that works on the range (text, start, len) hands a length-bounded libc routine `text + start`, never the "
                  "bare `text` with a bound taken from len (that would examine the first len bytes of the whole string)")
    trip = range_triples(P)
    chk.floor(rid, len(trip), 4, "functions taking a (text, start, length) range")
    n = 0
    for fid, (ip, ia, ib) in sorted(trip.items()):
        f = P.by_fid(fid)
        if units is not None and f.unit.base not in units:
            continue
        S, A, B = f.params[ip][0], f.params[ia][0], f.params[ib][0]
        bad = None
        for c in f.calls():
            spec = BOUNDED_SCANNERS.get(c.get("callee"))
            if not spec or len(c["c"]) <= 1 + max(spec):
                continue
            n += 1
            ptr, bound = c["c"][1 + spec[0]], c["c"][1 + spec[1]]
            lf = _linear(f, bound)
            if resolve_key(f, ptr).replace("(", "").replace(")", "") == S and lf and lf.get(B):
                bad = c
                break
        chk.obligation(rid, "%s(%s, %s, %s): no bounded scan from the bare text pointer" % (f.name, S, A, B), bad is None)
        if bad is not None:
            chk.violation(rid, "rangebase:%s:%s" % (f.name, bad.get("callee")), f.where(bad),
                          "%s works on the range (%s, %s, %s) but calls %s on `%s` itself with a bound taken from `%s`: it looks at the "
                          "first %s bytes of the whole string, not at the range" % (f.name, S, A, B, bad.get("callee"), S, B, B))
    chk.analysed[rid] = {"range_functions": sorted(P.by_fid(k).name for k in trip), "bounded_calls_seen": n}


# ---------------------------------------------------------------------------
# R-ONCE (C13 path resolution): a buffer that is created from a string does not get the same string appended again

def r_once(P, chk):
    rid = "R-ONCE"
    chk.rule(rid, "on no CFG path is the string a DString was created from (`D = d_string_new(x)`, x not a literal) appended to that "
                  "same DString again (`d_string_append(D, x)`) without D or x being reassigned in between: the component would "
                  "occur twice (path resolution: `/t/lib` + `/t/lib`)")
    n = 0
    for f in P.all_funcs:
        if not P.first_party(f) or f.unit.base in compdb.GENERATED_UNITS or f.unit.base in ("miniz.c", "argtable3.c"):
            continue
        pos = f.cfg.positions()
        news = []
        for x in f.walk():
            tgt = rhs = node = None
            if x["k"] == "VarDecl" and x.get("c") and x["c"][0] is not None:
                tgt, rhs, node = x["n"], x["c"][0], f.parent(x)
            elif x["k"] == "BinaryOperator" and x["op"] == "=":
                tgt, rhs, node = key(x["c"][0]), x["c"][1], x
            r = strip(rhs) if rhs is not None else None
            if r is None or r["k"] != "CallExpr" or r.get("callee") != "d_string_new" or node is None or node.get("i") not in pos:
                continue
            a = strip(r["c"][1])
            if a is None or a["k"] == "StringLiteral":
                continue
            news.append((tgt, key(a), node))
        for D, src, node in news:
            n += 1
            apps = [c for c in f.calls("d_string_append") if key(c["c"][1]) == D and key(c["c"][2]) == src and c["i"] in pos]
            cuts = [y for y in f.walk() if y["k"] == "BinaryOperator" and y["op"] == "=" and key(y["c"][0]) in (D, src) and y is not node and y.get("i") in pos]
            from .rules_mem import _reaches
            bad = [c for c in apps if _reaches(f, pos, node, c, cuts)]
            chk.obligation(rid, "%s %s: %s = d_string_new(%s) - %s not appended again" % (f.where(node), f.name, D, src, src), ok=not bad)
            if bad:
                chk.violation(rid, "once:%s:%s:%s" % (f.unit.base, f.name, src), f.where(bad[0]),
                              "%s creates %s from `%s` and appends `%s` to it again at %s" % (f.name, D, src, src, f.where(bad[0])))
    chk.floor(rid, n, 8, "DStrings created from a non-literal string")
    chk.analysed[rid] = {"sites": n}
