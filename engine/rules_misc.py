"""Smaller structural rules: R-PUSHPOP (C13), R-POOL (C18), R-ENUM / R-LINK (C15), R-BYTECLASS (C16)."""
import os
import re
import subprocess

from . import compdb
from .prog import AnalysisBroken, key, strip, strip_parens, walk, const_value, enum_name


def _pushpop(P):
    """Returns list of (description, ok, key, where)."""
    f = P.func("mmd_transclude_source", "transclude.c")
    out = []
    rec = [c for c in f.calls("mmd_transclude_source")]
    if not rec:
        raise AnalysisBroken("mmd_transclude_source no longer recurses: R-PUSHPOP needs re-reading")
    # the stack variable handed to the recursive call
    pidx = [i for i, p in enumerate(f.params) if "stack" in p[1]]
    if not pidx:
        raise AnalysisBroken("mmd_transclude_source: no stack parameter")
    stk = key(rec[0]["c"][1 + pidx[0]])
    pushes = [c for c in f.calls("stack_push") if key(c["c"][1]) == stk]
    pops = [c for c in f.calls("stack_pop") if key(c["c"][1]) == stk]
    for r in rec:
        ok = any(f.cfg.dominates(p["i"], r["i"]) for p in pushes)
        out.append(("recursive call at %s is dominated by stack_push(%s, file)" % (f.where(r), stk), ok, "pushpop:push", f.where(r)))
        ok = any(f.cfg.postdominates(p["i"], r["i"]) for p in pops)
        out.append(("stack_pop(%s) follows the recursive call on every path" % stk, ok, "pushpop:pop", f.where(r)))
    for p in pushes:
        ok = any(f.cfg.postdominates(q["i"], p["i"]) for q in pops) and len(pops) == 1
        out.append(("every path after stack_push passes exactly one stack_pop", ok, "pushpop:balance", f.where(p)))
    # membership loop
    loop_ok = False
    loop_where = f.where()
    for n in f.walk():
        if n["k"] != "ForStmt" or n["c"][1] is None:
            continue
        cond = strip(n["c"][1])
        if cond is None or cond["k"] != "BinaryOperator" or cond["op"] != "<":
            continue
        bound = strip(cond["c"][1])
        peeks = [c for c in walk(n["c"][3]) if c["k"] == "CallExpr" and c.get("callee") == "stack_peek_index" and key(c["c"][1]) == stk]
        cmps = [c for c in walk(n["c"][3]) if c["k"] == "CallExpr" and c.get("callee") == "strcmp"]
        if not peeks or not cmps:
            continue
        # bound is the stack's size at entry (or its current size)
        bk = key(bound)
        bound_ok = bk == stk + "->size"
        if not bound_ok and bound is not None and bound["k"] == "DeclRefExpr":
            for v in f.walk():
                if v["k"] == "VarDecl" and v["n"] == bound["n"] and v.get("c") and v["c"][0] is not None and key(v["c"][0]) == stk + "->size":
                    bound_ok = True
        # the hit branch leaves without reaching the recursive call
        skip_ok = False
        for i in walk(n["c"][3]):
            if i["k"] == "IfStmt" and any(c in list(walk(i["c"][0])) for c in cmps):
                for g in walk(i["c"][1]):
                    if g["k"] == "GotoStmt":
                        lab = [l for l in f.walk() if l["k"] == "LabelStmt" and l["n"] == g["n"]]
                        if lab and all(lab[0]["l"] > r["l"] for r in rec):
                            skip_ok = True
                    if g["k"] in ("ReturnStmt",):
                        skip_ok = True
        dom_ok = all(f.cfg.dominates(n["c"][1]["i"], r["i"]) for r in rec)
        loop_ok = bound_ok and skip_ok and dom_ok
        loop_where = f.where(n)
        if loop_ok:
            break
    out.append(("a loop over %s[0..size at entry) compares the file against every file being expanded, dominates the recursive "
                "call, and its hit branch skips the recursion" % stk, loop_ok, "pushpop:visited", loop_where))
    for r in rec:
        ok = key(r["c"][1 + pidx[0]]) == stk
        out.append(("the recursive call hands on the same stack", ok, "pushpop:arg", f.where(r)))
    # exit restores the stack
    restores = [x for x in f.walk() if x["k"] == "BinaryOperator" and x["op"] == "=" and key(x["c"][0]) == stk + "->size"]
    frees = [c for c in f.calls("stack_free") if key(c["c"][1]) == stk]
    out.append(("on exit the temporary stack is freed or the caller's depth restored", bool(restores) and bool(frees),
                "pushpop:exit", f.where()))
    return out


def pushpop_ok(P):
    return all(ok for _, ok, _, _ in _pushpop(P))


def r_pushpop(P, chk):
    rid = "R-PUSHPOP"
    chk.rule(rid, "mmd_transclude_source: the recursive call is bracketed by push/pop of the file on the stack of files being "
                  "expanded and guarded by a membership test over that stack")
    for desc, ok, k, where in _pushpop(P):
        chk.obligation(rid, desc, ok)
        if not ok:
            chk.violation(rid, k, where, "transclusion cycle guard broken: " + desc + " does not hold")
