"""R-FORMATPAIR (C09): a package format and its flat twin take the same decisions in the rendering code."""
from .prog import key, strip, walk, enum_name, edpe_blocks, block_nodes, assigned_keys, is_assign

# (package format, plain twin).  EPUB/HTML is not listed: the two are distinguished on purpose by
# documented metadata keys (epubheaderlevel / htmlheaderlevel) and raw filters ({=epub} / {=html}).
PAIRS = [("FORMAT_ODT", "FORMAT_FODT")]

# functions of the packaging layer, where the pair must differ (one builds a ZIP, the other a flat XML file)
PACKAGE_LAYER = {
    ("mmd.c", "mmd_engine_convert_to_data"): "ODT -> zip archive, FODT -> flat text",
    ("opendocument.c", "opendocument_manifest_file"): "manifest exists for the package only",
    ("opendocument.c", "opendocument_core_zip"): "mimetype member of the package",
    ("opendocument.c", "opendocument_content_file"): "content.xml wrapper of the package (office:text element)",
    ("opendocument.c", "opendocument_core_flat_create"): "office:mimetype attribute of the flat file",
    ("main.c", "main"): "output file naming / binary output",
}
# in the exporter the only allowed difference is that the package stores its assets
ALLOWED_DIFF_FIELDS = {"store_assets"}


def _format_dkeys(f):
    out = set()
    for w in f.walk():
        if w["k"] == "BinaryOperator" and w["op"] in ("==", "!="):
            for a, b in ((w["c"][0], w["c"][1]), (w["c"][1], w["c"][0])):
                en = enum_name(b)
                if en and en.startswith("FORMAT_"):
                    out.add(key(a))
        elif w["k"] == "SwitchStmt":
            for x in walk(w):
                if x["k"] == "CaseStmt" and (x.get("en") or "").startswith("FORMAT_"):
                    out.add(key(w["c"][0]))
                    break
    return out


def r_formatpair(P, chk):
    rid = "R-FORMATPAIR"
    chk.rule(rid, "outside the packaging layer every branch on the output format decides the package format and its flat twin "
                  "(ODT/FODT) alike (EDPE of each dispatching function for both values; only `store_assets` may differ)")
    vals = dict(P.enumerators("output_format"))
    n = 0
    used_exempt = set()
    for f in P.all_funcs:
        if not P.first_party(f):
            continue
        dkeys = _format_dkeys(f)
        if not dkeys:
            continue
        fid = (f.unit.base, f.name)
        for dk in sorted(dkeys):
            for pk, fl in PAIRS:
                n += 1
                if fid[0] == "main.c" and fid not in PACKAGE_LAYER:
                    # the command line: choosing file names / extensions per format is packaging, not rendering
                    used_exempt.add(("main.c", "main"))
                    chk.obligation(rid, "%s:%s on %s: command-line layer (output naming)" % (fid[0], fid[1], dk), nontrivial=False)
                    continue
                if fid in PACKAGE_LAYER:
                    used_exempt.add(fid)
                    chk.obligation(rid, "%s:%s on %s: packaging layer (%s)" % (fid[0], fid[1], dk, PACKAGE_LAYER[fid]), nontrivial=False)
                    continue
                A = edpe_blocks(f, dk, vals[pk])
                B = edpe_blocks(f, dk, vals[fl])
                diff = A ^ B
                bad = []
                for node in block_nodes(f, diff):
                    # conditions / case labels themselves carry no effect; report effects only
                    if node["k"] in ("CallExpr",) or is_assign(node) or (node["k"] == "UnaryOperator" and node["op"] in ("post++", "pre++", "post--", "pre--")) \
                            or node["k"] == "ReturnStmt":
                        if is_assign(node):
                            l = strip(node["c"][0])
                            if l is not None and l["k"] == "MemberExpr" and l["n"] in ALLOWED_DIFF_FIELDS:
                                continue
                        bad.append(node)
                chk.obligation(rid, "%s:%s on %s: %s == %s" % (fid[0], fid[1], dk, pk, fl), ok=not bad)
                if bad:
                    chk.violation(rid, "formatpair:%s:%s:%s" % (fid[0], fid[1], dk), f.where(bad[0]),
                                  "%s and %s are decided differently on %s: `%s` runs for one of them only" % (pk, fl, dk, f.src(bad[0])[:80]))
    for fid in PACKAGE_LAYER:
        if fid not in used_exempt:
            chk.notes.append("R-FORMATPAIR: packaging-layer entry %s:%s no longer dispatches on the format" % fid)
    chk.floor(rid, n, 8, "format dispatch sites")
    chk.analysed[rid] = {"dispatch_sites": n, "packaging_layer": sorted("%s:%s" % k for k in PACKAGE_LAYER)}


# ---------------------------------------------------------------------------
# R-EDITDELTA (C09): in-place rewriting of asset paths keeps later token positions valid

DELTA_FUNCS = {"d_string_replace_text_in_range": 0}      # name -> index of the DString argument

_STMT_PARENTS = ("CompoundStmt", "IfStmt", "ForStmt", "WhileStmt", "DoStmt", "CaseStmt", "DefaultStmt", "LabelStmt", "SwitchStmt")


def r_editdelta(P, chk):
    rid = "R-EDITDELTA"
    chk.rule(rid, "the length delta returned by an in-place DString replacement is consumed (accumulated) whenever the same buffer "
                  "is used again afterwards on some CFG path - token offsets computed before the edit are stale otherwise")
    n = 0
    for name in DELTA_FUNCS:
        g = P.func(name)
        if g is None or g.ret.strip() == "void":
            chk.fail_broken("R-EDITDELTA: %s is gone or no longer returns the delta" % name)
    for f in P.all_funcs:
        if not P.first_party(f):
            continue
        for c in f.calls():
            cal = c.get("callee")
            if cal not in DELTA_FUNCS:
                continue
            n += 1
            buf = key(c["c"][1 + DELTA_FUNCS[cal]])
            # is the value used?
            x, p = c, f.parent(c)
            while p is not None and p["k"] in ("ParenExpr", "ImplicitCastExpr", "CStyleCastExpr"):
                x, p = p, f.parent(p)
            discarded = p is None or (p["k"] in _STMT_PARENTS and not (
                (p["k"] in ("IfStmt", "WhileStmt", "SwitchStmt") and p["c"][0] is x) or (p["k"] in ("ForStmt", "DoStmt") and p["c"][1] is x)))
            if not discarded:
                chk.obligation(rid, "%s:%s: delta of %s on %s consumed" % (f.unit.base, f.name, cal, buf))
                continue
            pos = f.cfg.positions()
            here = pos.get(c["i"])
            later = None
            if here is not None:
                after = set()
                for s in f.cfg.blocks[here[0]].rsucc:
                    after |= f.cfg.reachable(start=s)
                for y in f.walk():
                    if y is c or y["k"] != "DeclRefExpr" or y["n"] != buf.split("->")[0].split("[")[0].lstrip("*&("):
                        continue
                    # climb to the enclosing CFG element
                    z = y
                    while z is not None and z["i"] not in pos:
                        z = f.parent(z)
                    if z is None or z is c or any(a is c for a in f.ancestors(y)):
                        continue
                    b, i = pos[z["i"]]
                    if b in after or (b == here[0] and i > here[1]):
                        later = y
                        break
            ok = later is None
            chk.obligation(rid, "%s:%s: delta of %s on %s discarded, %s" % (f.unit.base, f.name, cal, buf,
                                                                        "buffer not used afterwards" if ok else "buffer used afterwards"), ok=ok)
            if not ok:
                chk.violation(rid, "editdelta:%s:%s:%s" % (f.unit.base, f.name, buf), f.where(c),
                              "the length change of %s(%s, ...) is dropped although %s is used again at line %d: positions taken from the "
                              "token tree before the edit no longer match" % (cal, buf, buf, later["l"]))
    chk.floor(rid, n, 2, "in-place replacement call sites")
    chk.analysed[rid] = {"call_sites": n}


def r_rawformat(P, chk):
    """A writer decides whether a `{=format}` raw-source filter addresses it by asking raw_filter_text_matches / raw_filter_matches
    with *its own* format constant.  The package formats (EPUB, TextBundle) reuse the HTML writer and have no arm (or another
    arm) in that function, so passing the run-time output format instead drops `{=html}` source from the packaged document only."""
    from .prog import edpe_blocks, block_nodes, const_value, strip, key
    rid = "R-RAWFORMAT"
    chk.rule(rid, "every raw-filter test in a writer passes a constant output format, and all tests of one unit select the same arm of "
                  "raw_filter_text_matches (the packaged document must be the plain rendering)")
    rf = P.func("raw_filter_text_matches", "writer.c")
    fmts = dict(P.enumerators("output_format"))
    inv = {v: k for k, v in fmts.items()}

    def arm(v):
        blocks = edpe_blocks(rf, "format", v)
        lits = set()
        for n in block_nodes(rf, blocks):
            if n["k"] == "CallExpr" and n.get("callee") == "strstr":
                l = strip(n["c"][2])
                if l is not None and l["k"] == "StringLiteral":
                    lits.add(l["s"])
        return frozenset(lits)
    n = 0
    per_unit = {}
    for f in P.all_funcs:
        if not P.first_party(f) or f.unit.base == "writer.c":
            continue
        for c in f.calls():
            if c.get("callee") not in ("raw_filter_text_matches", "raw_filter_matches"):
                continue
            n += 1
            a = c["c"][-1]
            vals = set()
            cv = const_value(a)
            if cv is not None:
                vals.add(cv)
            else:
                sa = strip(a)
                if sa is not None and sa["k"] == "DeclRefExpr" and sa.get("dk") == "Parm" and f.static:
                    pi = [i for i, q in enumerate(f.params) if q[0] == sa["n"]]
                    for g in f.unit.funcs.values():
                        for c2 in g.calls(f.name):
                            v2 = const_value(c2["c"][1 + pi[0]]) if pi and 1 + pi[0] < len(c2["c"]) else None
                            vals.add(v2)
                else:
                    vals.add(None)
            ok = bool(vals) and None not in vals
            chk.obligation(rid, "%s %s: %s(.., %s) names a constant format" % (f.where(c), f.name, c["callee"],
                           "/".join(inv.get(v, str(v)) for v in sorted(v for v in vals if v is not None)) or key(a)), ok)
            if not ok:
                chk.violation(rid, "rawformat:%s:%s" % (f.unit.base, f.name), f.where(c),
                              "%s asks %s with `%s`, a run-time value: when this writer renders the main document of a package "
                              "(EPUB, TextBundle) the filter is judged for the package format and `{=%s}` raw source disappears from "
                              "the packaged document" % (f.name, c["callee"], f.src(a)[:40], "html"))
                continue
            per_unit.setdefault(f.unit.base, []).append((f, c, {arm(v) for v in vals}))
    if not any(a3 for items in per_unit.values() for _, _, a2 in items for a3 in a2):
        # raw_filter_text_matches no longer decides by strstr on literals (a table, a helper): the arm comparison has nothing to
        # read; the constant-format obligation above still stands
        chk.notes.append("R-RAWFORMAT: arms of raw_filter_text_matches not readable (no strstr literals reached); only constness checked")
        per_unit = {}
    for unit, items in sorted(per_unit.items()):
        arms = set()
        for _, _, a2 in items:
            arms |= a2
        ok = len(arms) == 1 and all(arms)
        chk.obligation(rid, "%s: all raw-filter tests select the arm %s" % (unit, sorted(next(iter(arms))) if arms else "?"), ok)
        if not ok:
            f0, c0, _ = items[0]
            chk.violation(rid, "rawformat:arm:%s" % unit, f0.where(c0), "the raw-filter tests of %s select different (or no) arms of "
                          "raw_filter_text_matches: %s" % (unit, [sorted(x) for x in arms]))
    chk.floor(rid, n, 6, "raw-filter tests in the writers")
