"""R-DUAL (C12): accept and reject are mirror images under ADD<->DEL; writers agree."""
from .prog import (AnalysisBroken, key, strip, walk, const_value, enum_name, edpe_blocks, block_nodes, tok_dkey, tok_param, single_assignment_locals)


def _swap(name):
    return name.replace("_ADD", "_@@").replace("_DEL", "_ADD").replace("_@@", "_DEL")


def _switch_block(f, dkey=None):
    """CFG block that ends in the (outermost) switch on dkey (or on a local alias of it); the function entry if the
    dispatch is written as an if-chain."""
    dkey = dkey or tok_dkey(f)
    al = {dkey} | {nm for nm, init in single_assignment_locals(f).items() if key(init) == dkey}
    best = None
    for b in f.cfg.blocks.values():
        if b.tk == "SwitchStmt" and b.term is not None and b.term >= 0:
            t = f.nodes.get(b.term)
            if t is not None and key(t["c"][0]) in al:
                if best is None or t["l"] < best[1]:
                    best = (b.id, t["l"])
    if best is None:
        return f.cfg.entry
    return best[0]


def _class(f, v, prefix):
    """Effect class of handler f on critic type v."""
    blocks = edpe_blocks(f, tok_dkey(f), v)
    calls = []
    def norm(c):
        return "<mode>_" + c[len(prefix):] if c.startswith(prefix) else c
    prog = getattr(f.unit, "prog", None)
    for n in block_nodes(f, blocks):
        if n["k"] == "CallExpr" and n.get("callee"):
            c = n["callee"]
            other = "reject_" if prefix == "accept_" else "accept_"
            one_sided = c.startswith(prefix) and (other + c[len(prefix):]) not in f.unit.funcs and c in f.unit.funcs
            if not one_sided:
                calls.append(norm(c))
            # a static helper of this unit that has no counterpart on the other side - mode-neutral, or extracted on one
            # side only (one level): what it calls counts as called here, so a shared helper cannot hide a call into the
            # wrong side and a one-sided extraction does not look like a different effect
            if prog is not None and (one_sided or not c.startswith(("accept_", "reject_"))):
                h = f.unit.funcs.get(c)
                if h is not None and h is not f:
                    for hc in h.calls():
                        if hc.get("callee"):
                            calls.append(norm(hc["callee"]))
    # is the exit reachable (still deciding every branch on the type) without executing any call?
    # (conditional effect, e.g. "only if mated")
    cfg = f.cfg
    pos = cfg.positions()
    call_blocks = set()
    for n in block_nodes(f, blocks):
        if n["k"] == "CallExpr" and n["i"] in pos:
            call_blocks.add(pos[n["i"]][0])
    free_path = cfg.exit in edpe_blocks(f, tok_dkey(f), v, blocked=call_blocks)
    return (tuple(sorted(set(calls))), free_path)


def r_dual(P, chk):
    rid = "R-DUAL"
    chk.rule(rid, "accept_token and reject_token implement the same table under the renaming ADD<->DEL (EDPE over every "
                  "cm_types enumerator); handlers are driven back to front; the writers' inline accept/reject agree and mirror")
    cms = P.enumerators("cm_types")
    acc = P.func("accept_token", "critic_markup.c")
    rej = P.func("reject_token", "critic_markup.c")
    byname = dict(cms)
    # types the tokenizer / pairing can produce
    produced = set()
    cu = P.units.get("critic_markup.c")
    if cu is None:
        raise AnalysisBroken("critic_markup.c is gone")
    for f in cu.funcs.values():
        for c in f.calls():
            if c.get("callee") in ("trie_insert", "token_pair_engine_add_pairing", "token_new"):
                for a in c["c"][1:]:
                    en = enum_name(a)
                    if en in byname:
                        produced.add(en)
    chk.floor(rid, len(produced), 15, "critic token types produced by the tokenizer / pairing")
    ta, tr = {}, {}
    for name, v in cms:
        ta[name] = _class(acc, v, "accept_")
        tr[name] = _class(rej, v, "reject_")
    for name, v in cms:
        sw = _swap(name)
        if sw not in byname:
            continue
        ok = ta[name] == tr[sw]
        chk.obligation(rid, "accept(%s) = %s  mirrors  reject(%s) = %s" % (name, _fmt(ta[name]), sw, _fmt(tr[sw])), ok,
                       nontrivial=bool(ta[name][0]) or bool(tr[sw][0]))
        if not ok:
            chk.violation(rid, "dual:%s" % name, acc.where(), "accept_token treats %s as %s but reject_token treats %s as %s: "
                          "accepting a text must equal rejecting it with additions and deletions swapped" % (
                              name, _fmt(ta[name]), sw, _fmt(tr[sw])))
    # an addition must be kept by accept and removed by reject (the two tables are not simply identical)
    for name in ("CM_ADD_PAIR", "CM_DEL_PAIR"):
        if name in byname:
            ok = ta[name] != tr[name]
            chk.obligation(rid, "%s is treated differently by accept and reject" % name, ok)
            if not ok:
                chk.violation(rid, "dual:same:%s" % name, acc.where(), "accept and reject treat %s identically" % name)
    for name in sorted(produced):
        ok = name in ta
        chk.obligation(rid, "produced type %s has a defined class in both tables" % name, ok, nontrivial=False)
    # back-to-front iteration
    n_loops = 0
    for f in cu.funcs.values():
        fn = f.name
        if not (fn.startswith("accept_") or fn.startswith("reject_")):
            continue
        tp = tok_param(f)
        for w in f.walk():
            if w["k"] not in ("WhileStmt", "ForStmt", "DoStmt"):
                continue
            body = w["c"][1] if w["k"] == "WhileStmt" else (w["c"][3] if w["k"] == "ForStmt" else w["c"][0])
            adv = [key(x["c"][1]) for x in walk(w) if x["k"] == "BinaryOperator" and x["op"] == "=" and key(x["c"][0]) == tp]
            acts = [x for x in walk(body) if x["k"] == "CallExpr" and (x.get("callee") or "").split("_")[0] in ("accept", "reject", "d")]
            if not acts:
                continue
            n_loops += 1
            ok = bool(adv) and all(a == tp + "->prev" for a in adv)
            chk.obligation(rid, "%s %s: loop that edits the text walks %s = %s->prev (earlier offsets stay valid)" % (f.where(w), fn, tp, tp), ok)
            if not ok:
                chk.violation(rid, "dual:direction:%s" % fn, f.where(w), "%s edits the string while advancing with %s: offsets of "
                              "tokens still to be processed become stale" % (fn, adv))
    chk.floor(rid, n_loops, 4, "editing loops")
    for fn, tree in (("mmd_critic_markup_accept_range", "accept_token_tree"), ("mmd_critic_markup_reject_range", "reject_token_tree")):
        f = P.func(fn, "critic_markup.c")
        cs = list(f.calls(tree))
        ok = bool(cs) and all(key(c["c"][2]).endswith("->tail") for c in cs)
        chk.obligation(rid, "%s starts at the last token (child->tail)" % fn, ok)
        if not ok:
            chk.violation(rid, "dual:start:%s" % fn, f.where(), "%s does not start the back-to-front walk at the tail" % fn)
    # substitution helpers: accept erases the old side (after the divider when walking backwards), reject the new side
    asub = P.func("accept_token_tree_sub", "critic_markup.c")
    rsub = P.func("reject_token_tree_sub", "critic_markup.c")
    def erase_conditions(f):
        out = []
        for c in f.calls("d_string_erase"):
            conds = []
            for a in f.ancestors(c):
                if a["k"] in ("IfStmt", "WhileStmt"):
                    conds.append(key(a["c"][0]))
                elif a["k"] == "ForStmt" and a["c"][1] is not None:
                    conds.append(key(a["c"][1]))
            out.append(conds)
        return out
    div = byname.get("CM_SUB_DIV")
    ea, er = erase_conditions(asub), erase_conditions(rsub)
    ok = bool(ea) and any(any("t->type==CM_SUB_DIV" in c.replace("(", "").replace(")", "") for c in conds) for conds in ea)
    chk.obligation(rid, "accept: the substitution's old text (before `~>`) is what gets erased", ok)
    if not ok:
        chk.violation(rid, "dual:sub:accept", asub.where(), "accept_token_tree_sub no longer erases from the divider backwards")
    ok = bool(er) and any(any("t->type!=CM_SUB_DIV" in c.replace("(", "").replace(")", "") for c in conds) for conds in er)
    chk.obligation(rid, "reject: the substitution's new text (after `~>`) is what gets erased", ok)
    if not ok:
        chk.violation(rid, "dual:sub:reject", rsub.where(), "reject_token_tree_sub no longer erases up to the divider")
    # writer side
    ext = P.enum_consts
    modes = {"accept": ext["EXT_CRITIC"] | ext["EXT_CRITIC_ACCEPT"], "reject": ext["EXT_CRITIC"] | ext["EXT_CRITIC_REJECT"]}
    tt = dict(P.enumerators("token_types"))
    ptypes = [n for n in tt if n.startswith("PAIR_CRITIC_")]
    writers = {"html": P.func("mmd_export_token_html", "html.c"), "latex": P.func("mmd_export_token_latex", "latex.c"),
               "odf": P.func("mmd_export_token_opendocument", "opendocument-content.c")}
    table = {}
    for w, f in writers.items():
        for mode, bits in modes.items():
            def decide(expr, bits=bits):
                s = strip(expr)
                if s is not None and s["k"] == "BinaryOperator" and s["op"] == "&" and key(s["c"][0]).endswith("->extensions"):
                    b = const_value(s["c"][1])
                    if b is not None:
                        return bool(bits & b)
                return None
            for pt in ptypes:
                blocks = edpe_blocks(f, tok_dkey(f), tt[pt], extra_decide=decide)
                pos = f.cfg.positions()
                emit_blocks = {pos[n["i"]][0] for n in block_nodes(f, blocks) if n["k"] == "CallExpr" and n["i"] in pos
                               and (n.get("callee") or "").startswith("mmd_export_token_tree")}
                # must-emit: no path to the exit that avoids exporting the children
                avoid = edpe_blocks(f, tok_dkey(f), tt[pt], extra_decide=decide, blocked=emit_blocks, start=_switch_block(f))
                table[(w, mode, pt)] = bool(emit_blocks) and f.cfg.exit not in avoid
    for pt in ptypes:
        for mode in modes:
            vals = {w: table[(w, mode, pt)] for w in writers}
            ok = len(set(vals.values())) == 1
            chk.obligation(rid, "writers agree: %s under %s -> %s" % (pt, mode, "always emitted" if vals["html"] else "can be suppressed"), ok)
            if not ok:
                chk.violation(rid, "dual:writers:%s:%s" % (pt, mode), writers["html"].where(), "writers disagree on %s under --%s: %s" % (pt, mode, vals))
        sw = _swap(pt)
        if sw in tt:
            for w in writers:
                ok = table[(w, "accept", pt)] == table[(w, "reject", sw)]
                chk.obligation(rid, "%s writer: %s under accept mirrors %s under reject" % (w, pt, sw), ok)
                if not ok:
                    chk.violation(rid, "dual:writer-mirror:%s:%s" % (w, pt), writers[w].where(), "%s writer: %s under --accept is %s but %s "
                                  "under --reject is %s" % (w, pt, table[(w, "accept", pt)], sw, table[(w, "reject", sw)]))
    for w in writers:
        for pt in ("PAIR_CRITIC_ADD", "PAIR_CRITIC_SUB_ADD"):
            if pt in tt:
                ok = table[(w, "accept", pt)] and not table[(w, "reject", pt)]
                chk.obligation(rid, "%s writer: %s is emitted under accept and suppressed under reject" % (w, pt), ok)
                if not ok:
                    chk.violation(rid, "dual:writer-sense:%s:%s" % (w, pt), writers[w].where(), "%s writer emits/suppresses %s the wrong way round" % (w, pt))
    chk.analysed[rid] = {"critic_types": len(cms), "produced": sorted(produced), "writer_cells": len(table)}


def _fmt(c):
    calls, free = c
    if not calls:
        return "untouched"
    return "%s%s" % ("+".join(calls), " (conditionally)" if free else "")
