"""R-ESCPAIR (C14) and escaper completeness (C08)."""
from .prog import (AnalysisBroken, key, strip, walk, const_value, edpe_blocks, block_nodes)


def escaper_table(f, dkey=None, signed=True):
    """byte -> emitted literal (str) or None for pass-through, by EDPE over the dispatched character.
    Works on a `switch (c)` (the table is the switch arm) as well as on an if-chain over a `char` parameter
    (the table is the whole function body)."""
    if dkey is None:
        for n in f.walk():
            if n["k"] == "SwitchStmt":
                dkey = key(n["c"][0])
                break
    start = None
    if dkey is None:
        # no switch: dispatch on the function's `char` parameter, from the entry
        for p in f.params:
            if p[1].replace("const ", "").strip() == "char":
                dkey = p[0]
                break
    if dkey is None:
        # the per-character decision was extracted: the loop hands each byte (`*cursor`, `s[i]`) to one same-unit helper that
        # has a `char` parameter - the table is that helper's
        helpers = []
        for c in f.calls():
            h = f.unit.funcs.get(c.get("callee") or "")
            if h is None or h is f:
                continue
            for i, p in enumerate(h.params):
                if p[1].replace("const ", "").strip() == "char" and i + 1 < len(c["c"]):
                    a = strip(c["c"][1 + i])
                    if a is not None and (a["k"] == "ArraySubscriptExpr" or (a["k"] == "UnaryOperator" and a["op"] == "*")) \
                            and any(x["k"] in ("WhileStmt", "ForStmt", "DoStmt") for x in f.ancestors(c)) and h not in helpers:
                        helpers.append(h)
        if len(helpers) == 1:
            return escaper_table(helpers[0], signed=signed)
        raise AnalysisBroken("%s: no switch on a character and no char parameter" % f.name)
    # start at the switch so that the loop / function prologue does not blur the table
    for b in f.cfg.blocks.values():
        if b.tk == "SwitchStmt" and b.term is not None and b.term >= 0:
            t = f.nodes.get(b.term)
            if t is not None and key(t["c"][0]) == dkey:
                start = b.id
                break
    table = {}
    for v in range(256):
        sv = v if (v < 128 or not signed) else v - 256      # plain char is signed on this target; `signed=False` models the other ABI
        blocks = edpe_blocks(f, dkey, sv, start=start, blocked=())
        # only the blocks between the switch and the loop back edge: stop at the first block that leaves the switch
        lits, passthru, other = [], False, []
        arm = _switch_arm(f, start, blocks, dkey, sv) if start is not None else blocks
        for n in block_nodes(f, arm):
            if n["k"] != "CallExpr":
                continue
            c = n.get("callee")
            if c in ("d_string_append", "d_string_append_c_array"):
                a = strip(n["c"][2])
                if a is not None and a["k"] == "StringLiteral":
                    lits.append(a["s"])
                else:
                    other.append(c)
            elif c == "d_string_append_c":
                a = strip(n["c"][2])
                if const_value(n["c"][2]) is not None:
                    lits.append(chr(const_value(n["c"][2]) & 0xff))
                else:
                    passthru = True
            elif c:
                other.append(c)
        table[v] = ("".join(lits) if lits else None, passthru, other)
    return table, dkey


def _switch_arm(f, start, blocks, dkey, v):
    """Blocks executed for value v from the switch up to (not including) the statement after the switch."""
    cfg = f.cfg
    sw = f.nodes.get(cfg.blocks[start].term)
    inside = set()
    for x in walk(sw["c"][1]):
        i = x.get("i")
        if i is not None:
            p = cfg.positions().get(i)
            if p:
                inside.add(p[0])
    return [b for b in blocks if b in inside]


def unescaper_table(f):
    """entity text after '&' -> (byte, strncmp length, cursor advance, case char) from print_xml_as_text."""
    out = {}
    for n in f.walk():
        if n["k"] != "IfStmt":
            continue
        cond = strip(n["c"][0])
        if cond is None or cond["k"] != "BinaryOperator" or cond["op"] != "==" or const_value(cond["c"][1]) != 0:
            continue
        call = strip(cond["c"][0])
        if call is None or call["k"] != "CallExpr" or call.get("callee") != "strncmp":
            continue
        lit = strip(call["c"][2])
        ln = const_value(call["c"][3])
        if lit is None or lit["k"] != "StringLiteral":
            continue
        byte = adv = None
        for x in walk(n["c"][1]):
            if x["k"] == "CallExpr" and x.get("callee") == "d_string_append_c" and const_value(x["c"][2]) is not None:
                byte = const_value(x["c"][2]) & 0xff
            if x["k"] == "CompoundAssignOperator" and x["op"] == "+=":
                adv = const_value(x["c"][1])
        # governing case label: the closest preceding `case` in source order (statements after the first one
        # of a case are siblings of the CaseStmt in the switch body, not its children)
        case = None
        best = -1
        for a in f.walk():
            if a["k"] == "CaseStmt" and best < a["l"] <= n["l"]:
                best, case = a["l"], a.get("v")
        out[lit["s"]] = (byte, ln, adv, case, n["l"])
    return out


def r_escpair(P, chk):
    rid = "R-ESCPAIR"
    chk.rule(rid, "OPML/ITMZ escaper table (EDPE over *c for all 256 bytes) and the XML unescaper's entity table are inverse: "
                  "every escaped byte has an unescape entry giving the same byte, with consistent compare length and cursor advance")
    un = P.func("print_xml_as_text", "xml.c")
    U = unescaper_table(un)
    if len(U) < 6:
        # second style: the raw text is appended and then decoded by one replace pass per entity
        passes = []
        for c in un.calls("d_string_replace_text_in_range"):
            if len(c["c"]) < 6:
                continue
            a, b = strip(c["c"][4]), strip(c["c"][5])
            if a is not None and b is not None and a["k"] == "StringLiteral" and b["k"] == "StringLiteral" and \
                    a["s"].startswith("&") and a["s"].endswith(";") and len(b["s"]) == 1:
                passes.append((a["s"][1:], ord(b["s"]) & 0xff, c))
        if len(passes) >= 6:
            pos = un.cfg.positions()
            U = {ent: (byte, len(ent), len(ent), ord(ent[0]), c["l"]) for ent, byte, c in passes}
            amp = [c for ent, byte, c in passes if ent == "amp;"]
            others = [c for ent, byte, c in passes if ent != "amp;"]
            ok = bool(amp) and all(un.cfg.dominates(o["i"], amp[0]["i"]) for o in others)
            chk.obligation(rid, "print_xml_as_text (replace-pass style): `&amp;` is decoded after every other entity", ok)
            if not ok:
                chk.violation(rid, "unesc:order:amp", un.where(amp[0]) if amp else un.where(), "print_xml_as_text decodes `&amp;` before "
                              "other entities: text that was escaped as `&amp;lt;` (a literal `&lt;` in the document) is decoded twice "
                              "and comes back as `<`")
    if len(U) < 6:
        raise AnalysisBroken("print_xml_as_text: only %d entity patterns recognised (helper rewritten?)" % len(U))
    for fname, unit in (("mmd_print_source_opml", "opml.c"), ("mmd_print_source_itmz", "itmz.c")):
        f = P.func(fname, unit)
        E, dkey = escaper_table(f)
        n_esc = 0
        for b in range(256):
            lit, passthru, other = E[b]
            if lit is None:
                ok = passthru and not other
                chk.obligation(rid, "%s: byte 0x%02x passes through unchanged" % (fname, b), ok, nontrivial=False, sample=(b == 0x41))
                if not ok:
                    chk.violation(rid, "esc:%s:drop:0x%02x" % (fname, b), f.where(), "%s neither copies nor escapes byte 0x%02x" % (fname, b))
                continue
            n_esc += 1
            ent = lit
            ok = ent.startswith("&") and ent.endswith(";") and not passthru
            u = U.get(ent[1:]) if ok else None
            good = ok and u is not None and u[0] == b and u[1] == len(ent) - 1 and u[2] == len(ent) - 1 and u[3] == ord(ent[1])
            chk.obligation(rid, "%s: byte %r -> %s, unescaper maps %s back (%s)" % (fname, chr(b), ent, ent[1:], u), good)
            if not good:
                chk.violation(rid, "esc:%s:0x%02x" % (fname, b), f.where(),
                              "%s escapes byte %r as %r but print_xml_as_text %s" % (
                                  fname, chr(b), ent, "has no entry for it" if u is None else
                                  "maps it to byte %r with compare length %s / advance %s under case %r" % (
                                      chr(u[0]) if u[0] is not None else None, u[1], u[2], chr(u[3]) if u[3] else None)))
        chk.floor(rid, n_esc, 5, "%s escaped bytes" % fname)
        for must in "&<>\"":
            ok = E[ord(must)][0] is not None
            chk.obligation(rid, "%s escapes %r (reserved in XML attribute values)" % (fname, must), ok)
            if not ok:
                chk.violation(rid, "esc:%s:raw:%s" % (fname, must), f.where(), "%s writes %r unescaped into an XML attribute value" % (fname, must))
    # unescaper self-consistency
    lits = sorted(U)
    for a in lits:
        byte, ln, adv, case, line = U[a]
        ok = ln == len(a) == adv and case == ord(a[0]) and byte is not None
        chk.obligation(rid, "print_xml_as_text: entity %r compares %s bytes, advances %s, under case %r" % (a, ln, adv, chr(case) if case else None), ok)
        if not ok:
            chk.violation(rid, "unesc:%s" % a, "xml.c:%d" % line, "print_xml_as_text entry for %r is inconsistent (length %s, advance %s, case %r)" % (
                a, ln, adv, chr(case) if case else None))
        for b in lits:
            if a != b and b.startswith(a):
                chk.violation(rid, "unesc:prefix:%s" % a, "xml.c:%d" % line, "entity %r is a prefix of %r: ambiguous" % (a, b))
    chk.analysed[rid] = {"unescaper_entities": lits}


def r_escaper_complete(P, chk, formats=("html", "odf")):
    rid = "R-ESCAPER"
    chk.rule(rid, "each format's character escaper maps every reserved character of the target to an escaped form (EDPE over all bytes)")
    specs = {
        "html": ("mmd_print_char_html", "html.c", {"&": "&amp;", "<": "&lt;", ">": "&gt;", '"': "&quot;"}),
        "odf": ("mmd_print_char_opendocument", "opendocument-content.c", {"&": "&amp;", "<": "&lt;", ">": "&gt;", '"': "&quot;"}),
        "latex": ("mmd_print_char_latex", "latex.c", {c: None for c in "\\{}$%&#_^~"}),
    }
    for fmt in formats:
        fn, unit, need = specs[fmt]
        f = P.func(fn, unit)
        E, dk = escaper_table(f)
        for ch, want in need.items():
            lit, passthru, other = E[ord(ch)]
            if want is not None:
                ok = lit is not None and want in lit and not passthru
            else:
                # LaTeX: either a replacement literal, or an escape prefix followed by the character
                ok = lit is not None and (not passthru or lit.endswith("\\") or lit.startswith("$"))
            chk.obligation(rid, "%s: %r -> %r%s" % (fn, ch, lit, " + char" if passthru else ""), ok)
            if not ok:
                chk.violation(rid, "escaper:%s:%s" % (fn, ch), f.where(), "%s does not escape %r (emits %r%s)" % (
                    fn, ch, lit, " followed by the raw character" if passthru else ""))
    # bytes >= 0x80 (UTF-8 lead / continuation bytes) pass through untouched whatever the signedness of plain char:
    # no replacement text and no numeric character reference built from the (possibly negative) byte value
    for fmt in formats:
        fn, unit, need = specs[fmt]
        f = P.func(fn, unit)
        for signed in (True, False):
            E, dk = escaper_table(f, signed=signed)
            bad = [v for v in range(128, 256) if E[v][0] is not None or [o for o in E[v][2] if o != "ran_num_next"] or not E[v][1]]
            chk.obligation(rid, "%s: bytes 0x80..0xFF pass through unchanged (plain char %s)" % (fn, "signed" if signed else "unsigned"), not bad)
            if bad:
                lit, passthru, other = E[bad[0]]
                chk.violation(rid, "escaper:%s:highbyte" % fn, f.where(), "%s does not pass byte 0x%02x through unchanged when plain char is %s "
                              "(emits %r, calls %s): multi-byte UTF-8 text is rewritten byte-wise, e.g. into a numeric character "
                              "reference of a negative value" % (fn, bad[0], "signed" if signed else "unsigned", lit, other))
    printers = {"html": ("mmd_print_string_html", "html.c"), "odf": ("mmd_print_string_opendocument", "opendocument-content.c"),
                "latex": ("mmd_print_string_latex", "latex.c")}
    for fmt in formats:
        fn, unit = printers[fmt]
        f = P.func(fn, unit)
        if f is None:
            raise AnalysisBroken("%s is gone" % fn)
        target = fn.replace("string", "char")
        ok = any(True for _ in f.calls(target))
        chk.obligation(rid, "%s prints bytes through %s" % (fn, target), ok)
        if not ok:
            chk.violation(rid, "escaper:%s:bypass" % fn, f.where(), "%s no longer routes characters through %s" % (fn, target))
        # a fast path may copy a run of the string raw only if the run is delimited by a set that contains every byte the
        # character escaper does not pass through unchanged (strcspn / strpbrk with a literal set)
        raw = [c for c in f.calls() if c.get("callee") in ("d_string_append", "d_string_append_c_array") and len(c["c"]) > 2
               and (strip(c["c"][2]) or {}).get("k") != "StringLiteral"]
        if raw:
            cf = P.func(target, unit)
            esc = set()
            for signed in (True, False):
                E, _dk = escaper_table(cf, signed=signed)
                esc |= {v for v in range(1, 256) if E[v][0] is not None or not E[v][1] or [o for o in E[v][2] if o != "ran_num_next"]}
            sets = []
            for c in f.calls():
                if c.get("callee") in ("strcspn", "strpbrk") and len(c["c"]) > 2:
                    lit = strip(c["c"][2])
                    if lit is not None and lit["k"] == "StringLiteral":
                        sets.append({ord(ch) & 0xff for ch in lit["s"]})
            missing = sorted(esc - set().union(*sets)) if sets else sorted(esc)
            okr = bool(sets) and not missing
            chk.obligation(rid, "%s: raw run copies are delimited by a set covering all %d escaped bytes" % (fn, len(esc)), okr)
            if not okr:
                chk.violation(rid, "escaper:%s:rawrun" % fn, f.where(raw[0]), "%s copies part of the string without escaping; the "
                              "delimiting set misses %s, which %s escapes" % (
                                  fn, ", ".join(repr(chr(b)) for b in missing[:8]) or "everything (no delimiting set)", target))


# ---------------------------------------------------------------------------
# R-WSFLAG (C11): whitespace-collapsing loops keep their "last output was whitespace" flag in step with what they append

WS = (9, 10, 13, 32)


def r_wsflag(P, chk):
    from .prog import edpe_blocks
    rid = "R-WSFLAG"
    chk.rule(rid, "in a character loop that collapses runs of whitespace with a boolean flag (`if (!flag) append(' ')`), every path "
                  "through the switch that appends a non-whitespace character leaves the flag false and every path that appends "
                  "whitespace leaves it true (per byte value by EDPE, per path through the arm) - otherwise the blank after such a "
                  "character is swallowed")
    n_funcs = n_paths = 0
    for f in P.all_funcs:
        if not P.first_party(f) or f.unit.base in ("miniz.c", "argtable3.c"):
            continue
        # the flag: a local read as `!flag` in an if that guards an append of a whitespace constant
        flag = None
        for x in f.walk():
            if x["k"] != "IfStmt":
                continue
            c = strip(x["c"][0])
            if c is None or c["k"] != "UnaryOperator" or c["op"] != "!":
                continue
            v = strip(c["c"][0])
            if v is None or v["k"] != "DeclRefExpr" or v.get("dk") != "Var":
                continue
            if any(y["k"] == "CallExpr" and y.get("callee") == "d_string_append_c" and const_value(y["c"][2]) in WS for y in walk(x["c"][1])):
                flag = v["n"]
        if flag is None:
            continue
        sw = None
        for b in f.cfg.blocks.values():
            if b.tk == "SwitchStmt" and b.term is not None and b.term >= 0:
                t = f.nodes.get(b.term)
                if t is not None and any(a["k"] in ("WhileStmt", "ForStmt") for a in f.ancestors(t)):
                    sw, start, dkey = t, b.id, key(t["c"][0])
                    break
        pos = f.cfg.positions()
        if sw is None:
            # the dispatch written as an if-chain over the current character: `current = *str; if (current == '\\') .. else if ..`
            loop = None
            for x in f.walk():
                if x["k"] == "IfStmt" and any(y["k"] == "DeclRefExpr" and y["n"] == flag for y in walk(x["c"][0])):
                    loop = next((a for a in f.ancestors(x) if a["k"] in ("WhileStmt", "ForStmt")), None)
                    if loop is not None:
                        break
            if loop is None:
                continue
            body = loop["c"][1] if loop["k"] == "WhileStmt" else loop["c"][3]
            counts = {}
            firsts = {}
            for x in walk(body):
                if x["k"] == "BinaryOperator" and x["op"] == "==" and const_value(x["c"][1]) is not None and x.get("i") in pos:
                    k2 = key(x["c"][0])
                    t2 = ((strip(x["c"][0]) or {}).get("t") or "").replace("const ", "").strip()
                    if t2 in ("char", "unsigned char", "int") and "->" not in k2:
                        counts[k2] = counts.get(k2, 0) + 1
                        firsts.setdefault(k2, x)
            if not counts or max(counts.values()) < 3:
                continue
            dkey = max(counts, key=lambda k2: counts[k2])
            start = pos[firsts[dkey]["i"]][0]
            n_funcs += 1
            inside = {pos[x["i"]][0] for x in walk(body) if x.get("i") in pos}
            head = loop["c"][0] if loop["k"] == "WhileStmt" else loop["c"][1]
            if head is not None and head.get("i") in pos:
                inside.discard(pos[head["i"]][0])
            sw = body
        else:
            n_funcs += 1
            inside = {pos[x["i"]][0] for x in walk(sw["c"][1]) if x.get("i") in pos}
        reported = set()
        for v in range(1, 256):
            sv = v if v < 128 else v - 256
            blocks = edpe_blocks(f, dkey, sv, start=start)
            arm = [b for b in blocks if b in inside]
            if not arm:
                continue
            armset = set(arm)
            # entry blocks of the arm: successors of the switch block that are in the arm (if-chain form: the head itself)
            entries = [s for s in f.cfg.blocks[start].rsucc if s in armset] if f.cfg.blocks[start].tk == "SwitchStmt" else \
                ([start] if start in armset else [])
            # enumerate acyclic paths
            stack = [(e, (e,)) for e in entries]
            while stack:
                b, path = stack.pop()
                succ = [s for s in f.cfg.blocks[b].rsucc if s in armset and s not in path]
                if succ and len(path) < 40:
                    for s in succ:
                        stack.append((s, path + (s,)))
                    # a block may also leave the arm directly (break): that is a complete path too
                    if all(s in armset for s in f.cfg.blocks[b].rsucc):
                        continue
                n_paths += 1
                last_app = None
                fl = None
                for pb in path:
                    for e in f.cfg.blocks[pb].el:
                        n = f.nodes.get(e) if e >= 0 else None
                        if n is None:
                            continue
                        if n["k"] == "CallExpr" and n.get("callee") == "d_string_append_c":
                            cv = const_value(n["c"][2])
                            if cv is not None:
                                last_app = "ws" if (cv & 0xff) in WS else "char"
                            else:
                                last_app = "ws" if v in WS else "char"
                            app_node = n
                        elif n["k"] == "BinaryOperator" and n["op"] == "=" and key(n["c"][0]) == flag and const_value(n["c"][1]) is not None:
                            fl = bool(const_value(n["c"][1]))
                if last_app is None:
                    continue
                want = last_app == "ws"
                if last_app == "ws" and fl is None:
                    continue       # appended under `!flag`; nothing to say if the path leaves it as it was... it must set it
                ok = fl is not None and fl == want
                if not ok:
                    kk = (f.name, "ws" if want else "char", v if v < 128 else 0x80)
                    if kk in reported:
                        continue
                    reported.add(kk)
                    chk.violation(rid, "wsflag:%s:%s:0x%02x" % (f.name, flag, v), f.where(app_node),
                                  "%s: for input byte 0x%02x a path appends %s but leaves `%s` %s: the next blank is %s" % (
                                      f.name, v, "a non-blank character" if not want else "whitespace", flag,
                                      "unset" if fl is None else str(fl).lower(), "swallowed" if not want else "doubled"))
        chk.obligation(rid, "%s: `%s` follows every append on every path of the switch (255 byte values)" % (f.name, flag),
                       ok=not [k2 for k2 in reported if k2[0] == f.name])
    chk.floor(rid, n_funcs, 1, "whitespace-collapsing character loops")
    chk.analysed[rid] = {"loops": n_funcs, "paths": n_paths}
