#!/bin/sh
# Builds the clang-14 frontend plugin (offline; links nothing: symbols resolve in the clang driver process).
set -e
cd "$(dirname "$0")"
mkdir -p ../.work
if [ ! -f ../.work/mmdfacts.so ] || [ mmdfacts.cc -nt ../.work/mmdfacts.so ]; then
  clang++ $(llvm-config-14 --cxxflags) -fno-rtti -fPIC -shared -O1 mmdfacts.cc -o ../.work/mmdfacts.so.tmp
  mv ../.work/mmdfacts.so.tmp ../.work/mmdfacts.so
fi
echo "mmdfacts.so ready"
