"""Value-origin resolution: which compile-time constants can flow into an expression
(flow-insensitive within a function, call-site union for parameters, return union for calls)."""
from .prog import key, strip, const_value, walk
from .lalr import rhs_constants


class Origins:
    def __init__(self, P, copy_field=("token", "type")):
        self.P = P
        self.copy_field = copy_field
        self._callsites = None
        self.memo = {}
        self.unknown = []   # (where, why)

    def callsites(self):
        if self._callsites is None:
            cs = {}
            for f in self.P.all_funcs:
                for c in f.calls():
                    g = self.P.resolve(f, c.get("callee")) if c.get("callee") else None
                    if g is not None:
                        cs.setdefault(self.P.fid(g), []).append((f, c))
            self._callsites = cs
        return self._callsites

    def field_stores(self, rec, field):
        if not hasattr(self, "_fs"):
            self._fs = {}
            for g in self.P.all_funcs:
                if not self.P.first_party(g):
                    continue
                for x in g.walk():
                    if x["k"] == "BinaryOperator" and x["op"] == "=":
                        l = strip(x["c"][0])
                        while l is not None and l["k"] == "ArraySubscriptExpr":
                            l = strip(l["c"][0])
                        if l is not None and l["k"] == "MemberExpr" and l.get("rec"):
                            self._fs.setdefault((l["rec"], l["n"]), []).append((g, x))
        return self._fs.get((rec, field), [])

    def of(self, n, f, depth=0, seen=None):
        """Set of ints that may flow into expression n of function f.  Unknown sources are appended
        to self.unknown and contribute nothing."""
        seen = seen if seen is not None else set()
        s = strip(n)
        if s is None:
            return set()
        cs = rhs_constants(s)
        if cs:
            return set(cs)
        k = s["k"]
        if k == "MemberExpr" and (s.get("rec"), s["n"]) == self.copy_field:
            return set()     # copy of an existing value of the same field: inductive
        if k == "ArraySubscriptExpr":
            b = strip(s["c"][0])
            while b is not None and b["k"] == "ArraySubscriptExpr":
                b = strip(b["c"][0])
            if b is not None and b["k"] == "MemberExpr":
                s = b
                k = "MemberExpr"
        if k == "MemberExpr" and s.get("rec"):
            tag = ("field", s["rec"], s["n"])
            if tag in seen:
                return set()
            seen = seen | {tag}
            if tag in self.memo:
                return self.memo[tag]
            out = set()
            n_st = 0
            for g, x in self.field_stores(s["rec"], s["n"]):
                n_st += 1
                out |= self.of(x["c"][1], g, depth + 1, seen)
            if not n_st:
                self.unknown.append((f.where(s), "field %s.%s has no visible store" % (s["rec"], s["n"])))
            self.memo[tag] = out
            return out
        if k == "ConditionalOperator":
            return self.of(s["c"][1], f, depth, seen) | self.of(s["c"][2], f, depth, seen)
        if k == "BinaryOperator" and s["op"] == ",":
            return self.of(s["c"][1], f, depth, seen)
        if k == "BinaryOperator" and s["op"] == "=":
            return self.of(s["c"][1], f, depth, seen)
        if k == "DeclRefExpr" and s.get("dk") in ("Var", "Parm") and not s.get("g"):
            tag = (self.P.fid(f), s["n"], s.get("did"))
            if tag in seen:
                return set()
            seen = seen | {tag}
            if tag in self.memo:
                return self.memo[tag]
            out = set()
            if s["dk"] == "Parm":
                idx = [i for i, p in enumerate(f.params) if p[0] == s["n"]]
                sites = self.callsites().get(self.P.fid(f), [])
                if not idx or depth > 6:
                    self.unknown.append((f.where(s), "parameter %s of %s: call sites not resolvable" % (s["n"], f.name)))
                else:
                    if not sites and not f.static:
                        # externally callable with no internal caller: API parameter
                        self.unknown.append((f.where(s), "parameter %s of API function %s" % (s["n"], f.name)))
                    for g, c in sites:
                        args = c["c"][1:]
                        if idx[0] < len(args):
                            out |= self.of(args[idx[0]], g, depth + 1, seen)
            # all assignments to the variable inside f (parameters can be reassigned too)
            for x in f.walk():
                if x["k"] == "VarDecl" and x["n"] == s["n"] and x.get("did") == s.get("did") and x.get("c") and x["c"][0] is not None:
                    out |= self.of(x["c"][0], f, depth, seen)
                elif x["k"] == "BinaryOperator" and x["op"] == "=":
                    l = strip(x["c"][0])
                    if l is not None and l["k"] == "DeclRefExpr" and l.get("did") == s.get("did"):
                        out |= self.of(x["c"][1], f, depth, seen)
                elif x["k"] == "CompoundAssignOperator" or (x["k"] == "UnaryOperator" and x["op"] in ("post++", "pre++", "post--", "pre--")):
                    l = strip(x["c"][0])
                    if l is not None and l["k"] == "DeclRefExpr" and l.get("did") == s.get("did"):
                        self.unknown.append((f.where(x), "%s is modified arithmetically in %s" % (s["n"], f.name)))
            self.memo[tag] = out
            return out
        if k == "CallExpr":
            g = self.P.resolve(f, s.get("callee")) if s.get("callee") else None
            if g is not None and depth <= 6:
                tag = ("ret", self.P.fid(g))
                if tag in seen:
                    return set()
                seen = seen | {tag}
                out = set()
                for x in g.walk():
                    if x["k"] == "ReturnStmt" and x["c"] and x["c"][0] is not None:
                        out |= self.of(x["c"][0], g, depth + 1, seen)
                return out
        self.unknown.append((f.where(s), "expression `%s` in %s" % (key(s)[:60], f.name)))
        return set()
