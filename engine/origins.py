"""Value-origin resolution: which compile-time constants can flow into an expression
(flow-insensitive within a function, call-site union for parameters, return union for calls)."""
from .prog import key, strip, const_value, walk
from .lalr import rhs_constants


class Origins:
    def __init__(self, P, copy_field=("token", "type")):
        self.P = P
        self.copy_field = copy_field
        self._callsites = None
        self.memo = {}
        self.unknown = []   # (where, why)

    def callsites(self):
        if self._callsites is None:
            cs = {}
            for f in self.P.all_funcs:
                for c in f.calls():
                    g = self.P.resolve(f, c.get("callee")) if c.get("callee") else None
                    if g is not None:
                        cs.setdefault(self.P.fid(g), []).append((f, c))
            self._callsites = cs
        return self._callsites

    def field_stores(self, rec, field):
        if not hasattr(self, "_fs"):
            self._fs = {}
            for g in self.P.all_funcs:
                if not self.P.first_party(g):
                    continue
                for x in g.walk():
                    if x["k"] == "BinaryOperator" and x["op"] == "=":
                        l = strip(x["c"][0])
                        while l is not None and l["k"] == "ArraySubscriptExpr":
                            l = strip(l["c"][0])
                        if l is not None and l["k"] == "MemberExpr" and l.get("rec"):
                            self._fs.setdefault((l["rec"], l["n"]), []).append((g, x))
                    elif x["k"] == "VarDecl" and x.get("c") and x["c"][0] is not None and x["c"][0]["k"] == "InitListExpr":
                        # aggregate initialiser of a (static) table of records: row i, column j initialises field j
                        self._init_rows(g, x)
            # file-scope tables of records with constant initialisers
            import re as _re
            for u in self.P.units.values():
                for v in u.vars:
                    init = v.get("init")
                    m = _re.search(r"struct (\w+)", v.get("type") or "")
                    if not m or not isinstance(init, list):
                        continue
                    fields = self._record_fields(m.group(1))
                    if not fields:
                        continue
                    rows = init if (init and all(isinstance(r, list) for r in init)) else [init]
                    g0 = next(iter(u.funcs.values()), None)
                    for row in rows:
                        for j, cell in enumerate(row):
                            if j < len(fields) and isinstance(cell, int) and g0 is not None:
                                self._fs.setdefault((m.group(1), fields[j]), []).append(
                                    (g0, {"k": "BinaryOperator", "op": "=", "c": [None, {"k": "IntegerLiteral", "v": cell, "c": []}]}))
        return self._fs.get((rec, field), [])

    def _record_fields(self, tname):
        if not hasattr(self, "_recs"):
            self._recs = {}
            for u in self.P.units.values():
                for r in u.records:
                    self._recs.setdefault(r["name"], [fl[0] for fl in r["fields"]])
        return self._recs.get(tname)

    def _init_rows(self, g, vd):
        import re as _re
        t = vd.get("t") or ""
        m = _re.search(r"struct (\w+)", t)
        rec = m.group(1) if m else None
        fields = self._record_fields(rec) if rec else None
        if not fields:
            return
        init = vd["c"][0]
        rows = [r for r in (init.get("c") or ()) if r is not None]
        if rows and all(r["k"] != "InitListExpr" for r in rows):
            rows = [init]          # a single record
        for row in rows:
            if row["k"] != "InitListExpr":
                continue
            for j, cell in enumerate(row.get("c") or ()):
                if cell is not None and j < len(fields):
                    self._fs.setdefault((rec, fields[j]), []).append((g, {"k": "BinaryOperator", "op": "=", "c": [None, cell]}))

    def of(self, n, f, depth=0, seen=None):
        """Set of ints that may flow into expression n of function f.  Unknown sources are appended
        to self.unknown and contribute nothing."""
        seen = seen if seen is not None else set()
        s = strip(n)
        if s is None:
            return set()
        cs = rhs_constants(s)
        if cs:
            return set(cs)
        k = s["k"]
        if k == "MemberExpr" and (s.get("rec"), s["n"]) == self.copy_field:
            return set()     # copy of an existing value of the same field: inductive
        if k == "ArraySubscriptExpr":
            b = strip(s["c"][0])
            while b is not None and b["k"] == "ArraySubscriptExpr":
                b = strip(b["c"][0])
            if b is not None and b["k"] == "MemberExpr":
                s = b
                k = "MemberExpr"
        if k == "MemberExpr" and s.get("rec"):
            tag = ("field", s["rec"], s["n"])
            if tag in seen:
                return set()
            seen = seen | {tag}
            if tag in self.memo:
                return self.memo[tag]
            out = set()
            n_st = 0
            for g, x in self.field_stores(s["rec"], s["n"]):
                n_st += 1
                out |= self.of(x["c"][1], g, depth + 1, seen)
            if not n_st:
                self.unknown.append((f.where(s), "field %s.%s has no visible store" % (s["rec"], s["n"])))
            self.memo[tag] = out
            return out
        if k == "ConditionalOperator":
            return self.of(s["c"][1], f, depth, seen) | self.of(s["c"][2], f, depth, seen)
        if k == "BinaryOperator" and s["op"] == ",":
            return self.of(s["c"][1], f, depth, seen)
        if k == "BinaryOperator" and s["op"] == "=":
            return self.of(s["c"][1], f, depth, seen)
        if k == "DeclRefExpr" and s.get("dk") in ("Var", "Parm") and not s.get("g"):
            tag = (self.P.fid(f), s["n"], s.get("did"))
            if tag in seen:
                return set()
            seen = seen | {tag}
            if tag in self.memo:
                return self.memo[tag]
            out = set()
            if s["dk"] == "Parm":
                idx = [i for i, p in enumerate(f.params) if p[0] == s["n"]]
                sites = self.callsites().get(self.P.fid(f), [])
                if not idx or depth > 6:
                    self.unknown.append((f.where(s), "parameter %s of %s: call sites not resolvable" % (s["n"], f.name)))
                else:
                    if not sites and not f.static:
                        # externally callable with no internal caller: API parameter
                        self.unknown.append((f.where(s), "parameter %s of API function %s" % (s["n"], f.name)))
                    for g, c in sites:
                        args = c["c"][1:]
                        if idx[0] < len(args):
                            out |= self.of(args[idx[0]], g, depth + 1, seen)
            # all assignments to the variable inside f (parameters can be reassigned too)
            for x in f.walk():
                if x["k"] == "VarDecl" and x["n"] == s["n"] and x.get("did") == s.get("did") and x.get("c") and x["c"][0] is not None:
                    out |= self.of(x["c"][0], f, depth, seen)
                elif x["k"] == "BinaryOperator" and x["op"] == "=":
                    l = strip(x["c"][0])
                    if l is not None and l["k"] == "DeclRefExpr" and l.get("did") == s.get("did"):
                        out |= self.of(x["c"][1], f, depth, seen)
                elif x["k"] == "CompoundAssignOperator" or (x["k"] == "UnaryOperator" and x["op"] in ("post++", "pre++", "post--", "pre--")):
                    l = strip(x["c"][0])
                    if l is not None and l["k"] == "DeclRefExpr" and l.get("did") == s.get("did"):
                        self.unknown.append((f.where(x), "%s is modified arithmetically in %s" % (s["n"], f.name)))
            self.memo[tag] = out
            return out
        if k == "CallExpr":
            g = self.P.resolve(f, s.get("callee")) if s.get("callee") else None
            if g is not None and depth <= 6:
                tag = ("ret", self.P.fid(g))
                if tag in seen:
                    return set()
                seen = seen | {tag}
                out = set()
                for x in g.walk():
                    if x["k"] == "ReturnStmt" and x["c"] and x["c"][0] is not None:
                        out |= self.of(x["c"][0], g, depth + 1, seen)
                return out
        self.unknown.append((f.where(s), "expression `%s` in %s" % (key(s)[:60], f.name)))
        return set()
