"""R-RESET, R-SRCCONST (C05)."""
import re
from . import compdb
from .prog import AnalysisBroken, key, strip, walk, const_value, resolve_key, single_assignment_locals
from .rules_cg import conversion_roots

DSTRING_MUTATORS = {"d_string_append", "d_string_append_c", "d_string_append_c_array", "d_string_append_printf",
                    "d_string_prepend", "d_string_insert", "d_string_insert_c", "d_string_insert_c_array",
                    "d_string_insert_printf", "d_string_erase", "d_string_replace_text_in_range", "d_string_free"}

# documented in-place replacement of an OPML / ITMZ source by its converted text
SRC_EXCEPT = {"mmd_convert_opml_string", "mmd_convert_itmz_string", "mmd_engine_convert_opml_to_text",
              "mmd_engine_convert_itmz_to_text"}
# functions whose documented purpose is to edit the engine's text (not conversions)
SRC_EDITORS = {"mmd_engine_update_metavalue_for_key", "mmd_engine_free"}


def r_reset(P, chk):
    rid = "R-RESET"
    chk.rule(rid, "every container field of struct mmd_engine is cleared by mmd_engine_reset, which dominates tokenizing in "
                  "mmd_engine_parse_substring; per-parse flags are re-assigned before use")
    rec = P.records.get("mmd_engine")
    if rec is None:
        raise AnalysisBroken("struct mmd_engine is gone")
    reset = P.func("mmd_engine_reset", "mmd.c")
    n = 0

    array_drains = {}

    def cleared_in(fn):
        """Access paths (resolved through local aliases) that fn empties: `X->size = 0`, pop-until-empty loops,
        NULL/0 stores, uthash delete iteration."""
        out = set()
        for x in fn.walk():
            if x["k"] == "BinaryOperator" and x["op"] == "=":
                l = resolve_key(fn, x["c"][0])
                if l.endswith("->size") and const_value(x["c"][1]) == 0:
                    out.add(l[:-len("->size")])
                elif const_value(x["c"][1]) == 0:
                    out.add(l)
                if x.get("m", "").startswith("HASH_DEL"):
                    out.add(l)
            elif x["k"] == "CallExpr" and x.get("callee") == "stack_pop":
                tgt = resolve_key(fn, x["c"][1])
                ma = re.match(r"^\(?(\w+)\[\w+\]\)?$", tgt.replace(" ", ""))
                if ma:
                    # a local array of containers drained in a loop over its index: every element that was stored in it
                    elems = [resolve_key(fn, y["c"][1]) for y in fn.walk() if y["k"] == "BinaryOperator" and y["op"] == "=" and
                             re.match(r"^\(?%s\[\d+\]\)?$" % re.escape(ma.group(1)), key(y["c"][0]).replace(" ", ""))]
                    for y in fn.walk():
                        if y["k"] == "VarDecl" and y.get("n") == ma.group(1) and y.get("c") and y["c"][0] is not None and y["c"][0]["k"] == "InitListExpr":
                            elems += [resolve_key(fn, z) for z in (y["c"][0].get("c") or ()) if z is not None]
                    for a in fn.ancestors(x):
                        cond = a["c"][0] if a["k"] == "WhileStmt" else (a["c"][1] if a["k"] == "ForStmt" else None)
                        if cond is not None and resolve_key(fn, cond).replace("(", "").replace(" ", "").startswith(tgt.replace(" ", "").strip("()") + "->size"):
                            out.update(elems)
                            array_drains.setdefault(id(fn), {}).update({e2: x for e2 in elems})
                    continue
                for a in fn.ancestors(x):
                    cond = None
                    if a["k"] == "WhileStmt":
                        cond = a["c"][0]
                    elif a["k"] == "ForStmt":
                        cond = a["c"][1]
                    if cond is not None and resolve_key(fn, cond).replace("(", "").startswith(tgt + "->size"):
                        out.add(tgt)
        return out

    keys_cleared = cleared_in(reset)
    # helpers that empty the container they are handed
    for c in reset.calls():
        h = P.resolve(reset, c.get("callee")) if c.get("callee") else None
        if h is None or not P.first_party(h) or h is reset:
            continue
        hc = cleared_in(h)
        for i, q in enumerate(h.params):
            if q[0] in hc and i < len(c["c"]) - 1:
                keys_cleared.add(resolve_key(reset, c["c"][1 + i]))
    pname = reset.params[0][0]
    for fld in rec["fields"]:
        name, ty = fld[0], fld[1]
        t = ty.replace(" ", "")
        container = t in ("stack*", "structstack*") or name.endswith("_hash") or name == "root"
        if not container:
            continue
        n += 1
        k = "%s->%s" % (pname, name)
        ok = k in keys_cleared
        chk.obligation(rid, "mmd_engine.%s (%s) is cleared by mmd_engine_reset" % (name, ty), ok)
        if not ok:
            chk.violation(rid, "reset:mmd_engine.%s" % name, reset.where(),
                          "container field mmd_engine.%s is not cleared by mmd_engine_reset: entries from an earlier parse "
                          "survive into the next conversion on a reused engine" % name)
            continue
        # ... on every path: with "the container is not empty" decided true, the function cannot be left except through a
        # statement that empties it (pop-until-empty loops never exit under that decision)
        from .prog import edpe_blocks
        rpos = reset.cfg.positions()
        clear_blocks = set()
        for x in reset.walk():
            hit = False
            if x["k"] == "BinaryOperator" and x["op"] == "=" and const_value(x["c"][1]) == 0:
                l = resolve_key(reset, x["c"][0])
                hit = l == k or l == k + "->size"
            if x.get("m", "").startswith("HASH_DEL") and x["k"] == "BinaryOperator" and resolve_key(reset, x["c"][0]) == k:
                hit = True
            if hit:
                z = x
                while z is not None and z.get("i") not in rpos:
                    z = reset.parent(z)
                if z is not None:
                    clear_blocks.add(rpos[z["i"]][0])

        for c in reset.calls():
            h = P.resolve(reset, c.get("callee")) if c.get("callee") else None
            if h is None or not P.first_party(h) or h is reset or c.get("i") not in rpos:
                continue
            hc = cleared_in(h)
            for i, q in enumerate(h.params):
                if q[0] in hc and i < len(c["c"]) - 1 and resolve_key(reset, c["c"][1 + i]) == k:
                    clear_blocks.add(rpos[c["i"]][0])      # a helper that empties the container it is handed

        ad = array_drains.get(id(reset), {}).get(k)
        if ad is not None:
            z = ad
            while z is not None and z.get("i") not in rpos:
                z = reset.parent(z)
            if z is not None:
                clear_blocks.add(rpos[z["i"]][0])      # drained through a local array of containers
            # the counted loop over the array always runs (constant bounds): the path formulation has nothing more to say
            chk.obligation(rid, "mmd_engine.%s is drained through a local array of containers" % name, True, nontrivial=False)
            continue

        def nonempty(t_, k=k):
            t2 = strip(t_)
            if t2 is None:
                return None
            rk = resolve_key(reset, t2).replace("(", "").replace(")", "").replace(" ", "")
            if t2["k"] in ("MemberExpr", "DeclRefExpr") and rk in (k, k + "->size"):
                return True
            if t2["k"] == "BinaryOperator" and t2["op"] in ("!=", "==", ">") and const_value(t2["c"][1]) == 0:
                lk = resolve_key(reset, t2["c"][0]).replace("(", "").replace(")", "").replace(" ", "")
                if lk in (k, k + "->size"):
                    return t2["op"] != "=="
            return None
        if name.endswith("_hash"):
            continue          # emptied by a uthash iteration macro: its loop structure is the macro's
        escapes = reset.cfg.exit in edpe_blocks(reset, "?none", 0, extra_decide=nonempty, blocked=clear_blocks)
        chk.obligation(rid, "mmd_engine.%s is emptied on every path through mmd_engine_reset" % name, not escapes)
        if escapes:
            chk.violation(rid, "reset:path:mmd_engine.%s" % name, reset.where(),
                          "mmd_engine_reset can return while mmd_engine.%s still holds entries (an early return or a skipped branch): "
                          "what an earlier metadata query or parse left there is still present after the next parse" % name)
    chk.floor(rid, n, 10, "container fields of struct mmd_engine")
    ps = P.func("mmd_engine_parse_substring", "mmd.c")
    rs = list(ps.calls("mmd_engine_reset"))
    tk = list(ps.calls("mmd_tokenize_string"))
    ok = bool(rs) and bool(tk) and all(any(ps.cfg.dominates(r["i"], t["i"]) for r in rs) for t in tk)
    chk.obligation(rid, "mmd_engine_parse_substring resets the engine before tokenizing", ok)
    if not ok:
        chk.violation(rid, "reset:order", ps.where(), "mmd_engine_reset does not dominate mmd_tokenize_string in "
                      "mmd_engine_parse_substring")
    # every parse entry goes through parse_substring
    tz = P.func("mmd_tokenize_string", "mmd.c")
    st = [x for x in tz.walk() if x["k"] == "BinaryOperator" and x["op"] == "=" and key(x["c"][0]).endswith("->allow_meta")]
    firstcall = None
    for x in tz.walk():
        if x["k"] == "CallExpr" and x.get("callee") in ("scan", "token_new", "mmd_assign_line_type"):
            firstcall = x
            break
    # every path from the entry to the first scanning call assigns allow_meta (one store, or one in each branch of a chain)
    ok = False
    if st and firstcall is not None:
        pos = tz.cfg.positions()
        sblocks = {}
        for s_ in st:
            if s_["i"] in pos:
                sblocks.setdefault(pos[s_["i"]][0], []).append(pos[s_["i"]][1])
        fb, fi = pos.get(firstcall["i"], (None, None))
        seen, stack, leak = set(), [tz.cfg.entry], False
        while stack and fb is not None:
            b = stack.pop()
            if b in seen:
                continue
            seen.add(b)
            if b == fb and not any(i < fi for i in sblocks.get(b, ())):
                leak = True
                break
            if b in sblocks:
                continue
            stack.extend(tz.cfg.blocks[b].rsucc)
        ok = fb is not None and not leak
    chk.obligation(rid, "mmd_tokenize_string re-derives allow_meta from the extensions before scanning", ok)
    if not ok:
        chk.violation(rid, "reset:allow_meta", tz.where(), "allow_meta is not re-assigned at the start of mmd_tokenize_string: "
                      "a reused engine keeps the value the previous parse left")


def dstring_mutation_summary(P):
    """function id -> indices of the DString parameters it (transitively) mutates"""
    if hasattr(P, "_dstr_mut"):
        return P._dstr_mut
    mut = {}
    changed = True
    rounds = 0
    while changed and rounds < 8:
        changed = False
        rounds += 1
        for g in P.all_funcs:
            if not P.first_party(g) or g.unit.base == "d_string.c":
                continue
            gid = P.fid(g)
            pnames = {q[0]: i for i, q in enumerate(g.params) if "DString" in q[1]}
            if not pnames:
                continue
            for c in g.calls():
                cal = c.get("callee")
                if not cal:
                    continue
                args = c["c"][1:]
                if cal in DSTRING_MUTATORS:
                    idxs = [0]
                else:
                    h = P.resolve(g, cal)
                    idxs = sorted(mut.get(P.fid(h), ())) if h is not None else []
                for i in idxs:
                    if i < len(args):
                        k = key(args[i])
                        if k in pnames and pnames[k] not in mut.setdefault(gid, set()):
                            mut[gid].add(pnames[k])
                            changed = True
    P._dstr_mut = mut
    return mut


def r_srcconst(P, chk):
    rid = "R-SRCCONST"
    chk.rule(rid, "no function in the conversion cone mutates the engine's source DString or stores through a non-const "
                  "alias of its bytes (documented OPML/ITMZ import excepted)")
    roots = [r for r in conversion_roots(P) if r[1] not in SRC_EDITORS and "critic_markup" not in r[1]
             and "update_metavalue" not in r[1] and "transclude" not in r[1] and not r[1].startswith("d_string_")
             and not r[1].startswith("token_") and not r[1].startswith("stack_")]
    pred = P.reach(roots, stop=tuple(SRC_EXCEPT | SRC_EDITORS))
    mut = dstring_mutation_summary(P)
    changed = False
    rounds = 0
    while changed and rounds < 8:
        changed = False
        rounds += 1
        for g in P.all_funcs:
            if not P.first_party(g) or g.unit.base == "d_string.c":
                continue
            gid = P.fid(g)
            pnames = {q[0]: i for i, q in enumerate(g.params) if "DString" in q[1]}
            if not pnames:
                continue
            for c in g.calls():
                cal = c.get("callee")
                if not cal:
                    continue
                args = c["c"][1:]
                if cal in DSTRING_MUTATORS:
                    idxs = [0]
                else:
                    h = P.resolve(g, cal)
                    idxs = sorted(mut.get(P.fid(h), ())) if h is not None else []
                for i in idxs:
                    if i < len(args):
                        k = key(args[i])
                        if k in pnames and pnames[k] not in mut.setdefault(gid, set()):
                            mut[gid].add(pnames[k])
                            changed = True
    n = 0
    for fid in sorted(pred):
        f = P.by_fid(fid)
        if not P.first_party(f) or f.unit.base in ("d_string.c",):
            continue
        # aliases of the source bytes / the source DString in this function
        str_alias, ds_alias = set(), set()
        for x in f.walk():
            init = None
            name = None
            if x["k"] == "VarDecl" and x.get("c") and x["c"][0] is not None:
                name, init, ty = x["n"], x["c"][0], x.get("t", "")
            elif x["k"] == "BinaryOperator" and x["op"] == "=":
                l = strip(x["c"][0])
                if l is not None and l["k"] == "DeclRefExpr":
                    name, init, ty = l["n"], x["c"][1], l.get("t", "")
            if init is None:
                continue
            ik = key(init)
            if ik.endswith("->dstr->str") or ik.endswith("dstr->str"):
                if "const" not in ty.split("*")[0]:
                    str_alias.add(name)
            elif ik.endswith("->dstr"):
                ds_alias.add(name)
        for x in f.walk():
            if x["k"] == "CallExpr" and x.get("callee") and x.get("callee") not in DSTRING_MUTATORS:
                h = P.resolve(f, x["callee"])
                if h is not None and h.name not in SRC_EXCEPT and h.name not in SRC_EDITORS:
                    for i in sorted(mut.get(P.fid(h), ())):
                        args = x["c"][1:]
                        if i < len(args):
                            a = key(args[i])
                            if a.endswith("->dstr") or a in ds_alias:
                                chain = " -> ".join(y[1] for y in P.chain(pred, fid))
                                chk.obligation(rid, "%s %s(%s)" % (f.where(x), x["callee"], a), False)
                                chk.violation(rid, "srcconst:%s:%s" % (f.name, x["callee"]), f.where(x),
                                              "%s hands the engine's source DString to %s, which (transitively) edits its argument in "
                                              "place, during a conversion (via %s): the caller's source text is modified" % (
                                                  f.name, x["callee"], chain))
            if x["k"] == "CallExpr" and x.get("callee") in DSTRING_MUTATORS and len(x["c"]) > 1:
                a = key(x["c"][1])
                n += 1
                if a.endswith("->dstr") or a in ds_alias:
                    chain = " -> ".join(y[1] for y in P.chain(pred, fid))
                    chk.obligation(rid, "%s %s(%s)" % (f.where(x), x["callee"], a), False)
                    chk.violation(rid, "srcconst:%s:%s" % (f.name, x["callee"]), f.where(x),
                                  "%s applies %s() to the engine's source DString during a conversion (via %s)" % (
                                      f.name, x["callee"], chain))
            elif x["k"] == "BinaryOperator" and x["op"] == "=" or x["k"] == "CompoundAssignOperator":
                l = strip(x["c"][0])
                base = None
                if l is not None and l["k"] == "ArraySubscriptExpr":
                    base = key(l["c"][0])
                elif l is not None and l["k"] == "UnaryOperator" and l["op"] == "*":
                    base = key(l["c"][0])
                if base is None:
                    continue
                if base in str_alias or base.endswith("dstr->str"):
                    chk.obligation(rid, "%s store through %s" % (f.where(x), base), False)
                    chk.violation(rid, "srcconst:%s:store:%s" % (f.name, base), f.where(x),
                                  "%s writes into the caller's source text through `%s` during a conversion" % (f.name, base))
    nf = sum(1 for fid in pred if P.first_party(P.by_fid(fid)))
    chk.obl[rid][0] += nf
    chk.obl[rid][1] += nf
    chk.obligation(rid, "%d functions of the conversion cone scanned for source mutation (%d DString mutator calls seen, none "
                   "on the source)" % (nf, n), True)
    chk.floor(rid, nf, 250, "functions in the conversion cone")
    for e in sorted(SRC_EXCEPT):
        chk.notes.append("R-SRCCONST exception %s: documented in-place replacement of an OPML/ITMZ source" % e)


# ---------------------------------------------------------------------------
# R-OUTVAL: a value received through `&v` from a function that stores it only on some paths

def _out_summary(P):
    """(function id, parameter index) -> 'always' | 'sometimes' for pointer parameters the function stores through
    (`*p = ..`, `p[0] = ..`): 'always' if every path from the entry to the exit passes such a store (tests of the pointer
    itself decided non-null)."""
    from .prog import edpe_blocks
    if hasattr(P, "_out_summary"):
        return P._out_summary
    out = {}
    for g in P.all_funcs:
        if not P.first_party(g) or g.unit.base in compdb.GENERATED_UNITS or g.unit.base in ("miniz.c", "argtable3.c"):
            continue
        for i, prm in enumerate(g.params):
            if not prm[1].rstrip().endswith("*") or prm[1].count("*") != 1:
                continue
            base = prm[1].replace("const", "").replace("*", "").strip()
            if base not in ("size_t", "short", "int", "long", "unsigned int", "unsigned short", "unsigned long", "bool", "_Bool"):
                continue
            pn = prm[0]
            pos = g.cfg.positions()
            stores = [x for x in g.walk() if x["k"] == "BinaryOperator" and x["op"] == "=" and key(x["c"][0]).replace("(", "").replace(")", "")
                      in ("*" + pn, pn + "[0]") and x.get("i") in pos]
            if not stores:
                continue
            sb = {pos[x["i"]][0] for x in stores}

            def nonnull(t_, pn=pn):
                t2 = strip(t_)
                if t2 is None:
                    return None
                if t2["k"] == "DeclRefExpr" and t2["n"] == pn:
                    return True
                if t2["k"] == "BinaryOperator" and t2["op"] in ("!=", "==") and key(t2["c"][0]) == pn and const_value(t2["c"][1]) == 0:
                    return t2["op"] == "!="
                return None
            reach = edpe_blocks(g, "?none", 0, extra_decide=nonnull, blocked=sb)
            out[(P.fid(g), i)] = "sometimes" if g.cfg.exit in reach else "always"
    P._out_summary = out
    return out


def r_outval(P, chk, only_units=None):
    from .prog import edpe_blocks, reaching_defs
    from .rules_mem import _reaches
    rid = "R-OUTVAL"
    chk.rule(rid, "a local filled through `&v` by a function that stores the result only on some of its paths, and that may still "
                  "hold what an earlier such call stored (the same call round a loop included), is read only where the call's result "
                  "has been tested true")
    summ = _out_summary(P)
    n = 0
    for f in P.all_funcs:
        if not P.first_party(f) or f.unit.base in compdb.GENERATED_UNITS or f.unit.base in ("miniz.c", "argtable3.c"):
            continue
        if only_units is not None and f.unit.base not in only_units:
            continue
        pos = f.cfg.positions()
        sites = []
        for c in f.calls():
            g = P.resolve(f, c.get("callee") or "")
            if g is None or c.get("i") not in pos:
                continue
            for i, a in enumerate(c["c"][1:]):
                sa = strip(a)
                if sa is not None and sa["k"] == "UnaryOperator" and sa["op"] == "&":
                    v = strip(sa["c"][0])
                    if v is not None and v["k"] == "DeclRefExpr" and v.get("dk") == "Var" and (P.fid(g), i) in summ:
                        sites.append((c, v["n"], summ[(P.fid(g), i)], g))
        for c, v, how, g in sites:
            if how != "sometimes":
                continue
            n += 1
            # definitions of v: assignments, initialiser, and calls that always store through &v
            kills = [x for x in f.walk() if (x["k"] == "BinaryOperator" and x["op"] == "=" and key(x["c"][0]) == v) and x.get("i") in pos]
            kills += [c2 for c2, v2, h2, _ in sites if v2 == v and h2 == "always"]
            # what can v hold when the call is made?
            # (another such call, or this one again round a loop, with no assignment to v in between)
            other_calls = [c2 for c2, v2, h2, _ in sites if v2 == v and h2 == "sometimes" and _reaches(f, pos, c2, c, kills)]
            const_before = not other_calls
            al = {nm for nm, init in single_assignment_locals(f).items() if strip(init) is not None and strip(init).get("i") == c["i"]}

            def decide(t_, cid=c["i"], al=al):
                t2 = strip(t_)
                if t2 is None:
                    return None
                if t2.get("i") == cid or (t2["k"] == "DeclRefExpr" and t2["n"] in al):
                    return False
                return None
            fail_blocks = edpe_blocks(f, "?none", 0, extra_decide=decide)
            bad = None
            for x in f.walk():
                if x["k"] != "DeclRefExpr" or x.get("n") != v:
                    continue
                par = f.parent(x)
                if par is not None and par["k"] == "UnaryOperator" and par["op"] == "&":
                    continue
                if par is not None and par["k"] == "BinaryOperator" and par["op"] == "=" and strip(par["c"][0]) is x:
                    continue
                z = x
                while z is not None and z.get("i") not in pos:
                    z = f.parent(z)
                if z is None or z is c or any(y is c for y in f.ancestors(x)):
                    continue
                if not _reaches(f, pos, c, z, kills):
                    continue
                if pos[z["i"]][0] not in fail_blocks:
                    continue          # only runs when the call returned true
                if const_before:
                    continue
                # an accumulator: the call sits in a loop, the value is read after the loop ("the last one that was set wins",
                # e.g. header-level metadata) - what an earlier iteration stored is the intended value there
                loop = next((a for a in f.ancestors(c) if a["k"] in ("WhileStmt", "ForStmt", "DoStmt")), None)
                if loop is not None and not any(a is loop for a in f.ancestors(x)):
                    continue
                bad = x
                break
            chk.obligation(rid, "%s %s: `%s` filled by %s (stores it only on some paths)%s" % (
                f.where(c), f.name, v, g.name, " - no earlier such call can have left a value in it" if const_before else ""), bad is None)
            if bad is not None:
                chk.violation(rid, "outval:%s:%s:%s" % (f.name, g.name, v), f.where(bad),
                              "%s reads `%s` at line %d although %s (line %d) stores it only on some paths and its result is not "
                              "tested there; the value left by an earlier call is used" % (f.name, v, bad["l"], g.name, c["l"]))
    chk.floor(rid, n, 3, "calls that fill a local through a conditionally stored out-parameter")


# ---------------------------------------------------------------------------
# R-ENGCONF (C05): a conversion does not change the engine's configuration

ENGCONF_REVIEWED = {
    "random_seed_base_labels": "by design: the label seed the export used is kept so that a later export of the same parse "
                               "generates the same random labels; it is derived from the engine's own value",
}


def r_engconf(P, chk):
    rid = "R-ENGCONF"
    chk.rule(rid, "no function reachable from parsing or exporting writes a scalar field of struct mmd_engine that survives the "
                  "conversion: such a write is an increment/decrement pair (R-INCDEC), is saved and restored in the same function, "
                  "re-assigned before use on every parse (R-RESET), or reviewed")
    rec = P.records.get("mmd_engine")
    if rec is None:
        raise AnalysisBroken("struct mmd_engine is gone")
    scalars = {fl[0] for fl in rec["fields"] if not (fl[1].replace(" ", "") in ("stack*", "structstack*", "DString*", "token*") or
                                                    fl[0].endswith("_hash") or "*" in fl[1])}
    chk.floor(rid, len(scalars), 5, "scalar fields of struct mmd_engine")
    roots = [("mmd.c", "mmd_engine_parse_substring"), ("writer.c", "mmd_engine_export_token_tree")]
    pred = P.reach(roots)
    reset = P.func("mmd_engine_reset", "mmd.c")
    tz = P.func("mmd_tokenize_string", "mmd.c")
    per_parse = set()
    for g in (reset, tz):
        for x in g.walk():
            if x["k"] == "BinaryOperator" and x["op"] == "=":
                l = strip(x["c"][0])
                if l is not None and l["k"] == "MemberExpr" and l.get("rec") == "mmd_engine" and \
                        g.cfg.block_postdominates(g.block_of(x), g.cfg.entry):
                    per_parse.add(l["n"])
    n = 0
    for f in P.all_funcs:
        if not P.first_party(f) or P.fid(f) not in pred:
            continue
        for x in f.walk():
            l = None
            kind = None
            if x["k"] == "BinaryOperator" and x["op"] == "=" or x["k"] == "CompoundAssignOperator":
                l, kind = strip(x["c"][0]), "store"
            elif x["k"] == "UnaryOperator" and x["op"] in ("post++", "pre++", "post--", "pre--"):
                l, kind = strip(x["c"][0]), "incdec"
            if l is None or l["k"] != "MemberExpr" or l.get("rec") != "mmd_engine" or l["n"] not in scalars:
                continue
            n += 1
            fld = l["n"]
            desc = "%s %s writes mmd_engine.%s" % (f.where(x), f.name, fld)
            if kind == "incdec":
                chk.obligation(rid, desc + " as an increment / decrement (balanced: R-INCDEC)", True, nontrivial=False)
                continue
            if fld in per_parse or fld == "allow_meta":
                chk.obligation(rid, desc + ", which every parse re-assigns before use", True)
                continue
            # save / restore in the same function: `old = e->F; ... e->F = old;` with the restore on every path to the exit
            lk = key(x["c"][0])
            saves = {nm for nm, init in single_assignment_locals(f).items() if key(init) == lk}
            restores = [y for y in f.walk() if y["k"] == "BinaryOperator" and y["op"] == "=" and key(y["c"][0]) == lk and key(y["c"][1]) in saves]
            def all_paths_restore():
                fp = f.cfg.positions()
                if x.get("i") not in fp:
                    return False
                rb = {fp[r["i"]][0] for r in restores if r.get("i") in fp}
                b0 = fp[x["i"]][0]
                if b0 in rb:
                    return True
                seen, st = set(), list(f.cfg.blocks[b0].rsucc)
                while st:
                    b = st.pop()
                    if b in seen or b in rb:
                        continue
                    seen.add(b)
                    if b == f.cfg.exit:
                        return False
                    st.extend(f.cfg.blocks[b].rsucc)
                return True
            if restores and (x in restores or any(f.cfg.postdominates(r["i"], x["i"]) for r in restores) or all_paths_restore()):
                chk.obligation(rid, desc + ", saved before and restored on every path out", True)
                continue
            if fld in ENGCONF_REVIEWED:
                chk.obligation(rid, desc + " - reviewed: " + ENGCONF_REVIEWED[fld], True)
                note = "R-ENGCONF reviewed mmd_engine.%s: %s" % (fld, ENGCONF_REVIEWED[fld])
                if note not in chk.notes:
                    chk.notes.append(note)
                continue
            chain = " -> ".join(c[1] for c in P.chain(pred, P.fid(f)))
            chk.obligation(rid, desc, False)
            chk.violation(rid, "engconf:%s:%s" % (f.name, fld), f.where(x),
                          "%s, reached from a conversion (%s), writes mmd_engine.%s, which nothing resets: the value set while "
                          "converting one document is still in force when the same engine converts the next" % (f.name, chain, fld))
    chk.floor(rid, n, 4, "writes to scalar engine fields inside the conversion cone")


# ---------------------------------------------------------------------------
# R-INCDEC (C05, C07): a counter field raised on entry is lowered again on every path out

def r_incdec(P, chk):
    rid = "R-INCDEC"
    chk.rule(rid, "a field of the engine / scratch pad that a function both increments and decrements (depth counters, skip "
                  "counters) is decremented on every CFG path from each increment to the function's exit: no early return "
                  "leaks an increment into the next conversion")
    n = 0
    for f in P.all_funcs:
        if not P.first_party(f) or f.unit.base in compdb.GENERATED_UNITS:
            continue
        incs, decs = {}, {}
        for x in f.walk():
            k = None
            if x["k"] == "UnaryOperator" and x["op"] in ("post++", "pre++", "post--", "pre--"):
                t = strip(x["c"][0])
                if t is not None and t["k"] == "MemberExpr":
                    (incs if "++" in x["op"] else decs).setdefault(key(t), []).append(x)
            elif x["k"] == "CompoundAssignOperator" and x["op"] in ("+=", "-=") and const_value(x["c"][1]) == 1:
                t = strip(x["c"][0])
                if t is not None and t["k"] == "MemberExpr":
                    (incs if x["op"] == "+=" else decs).setdefault(key(t), []).append(x)
        both = set(incs) & set(decs)
        if not both:
            continue
        cfg = f.cfg
        pos = cfg.positions()

        def where_of(x):
            z = x
            while z is not None and z["i"] not in pos:
                z = f.parent(z)
            return pos[z["i"]] if z is not None else None
        for k in sorted(both):
            dpos = {}
            for d in decs[k]:
                w = where_of(d)
                if w is not None:
                    dpos.setdefault(w[0], []).append(w[1])
            for inc in incs[k]:
                w = where_of(inc)
                if w is None:
                    continue
                n += 1
                b0, i0 = w
                leak = False
                if not any(i > i0 for i in dpos.get(b0, ())):
                    seen, st = set(), list(cfg.blocks[b0].rsucc)
                    while st:
                        b = st.pop()
                        if b in seen:
                            continue
                        seen.add(b)
                        if b in dpos:
                            continue
                        if b == cfg.exit:
                            leak = True
                            break
                        st.extend(cfg.blocks[b].rsucc)
                chk.obligation(rid, "%s %s: %s++ is matched by %s-- on every path to the exit" % (f.where(inc), f.name, k, k), ok=not leak)
                if leak:
                    chk.violation(rid, "incdec:%s:%s:%s" % (f.unit.base, f.name, k), f.where(inc),
                                  "%s is incremented here but some path to the function's exit (an early return) never decrements "
                                  "it: the counter drifts across calls / conversions" % k)
    chk.floor(rid, n, 4, "paired counter increments")
    chk.analysed[rid] = {"paired_increments": n}
