"""Call-graph / effect rules: R-NOEXIT (C02), R-GLOBAL (C05, C17)."""
from . import compdb
from .prog import key, strip, walk, AnalysisBroken

TERMINATORS = {"exit", "_exit", "_Exit", "abort", "quick_exit", "__assert_fail", "__builtin_trap", "__builtin_abort"}

# R-NOEXIT reviewed exceptions: (unit, function, callee) -> reason
NOEXIT_EXCEPT = {
    ("d_string.c", "ensureStringBufferCanHold", "exit"):
        "realloc failure = resource exhaustion, not an input shape; outside the property's quantifier",
}

POOL_API = {"token_pool_init", "token_pool_drain", "token_pool_free"}


def library_roots(P):
    """API roots = functions declared in the public headers that the library defines (never `main`)."""
    roots = []
    for n in P.api_roots():
        f = P.funcs[n]
        if f.unit.base in compdb.OPAQUE_UNITS or f.unit.base == "main.c":
            continue
        roots.append(P.fid(f))
    if len(roots) < 40:
        raise AnalysisBroken("only %d API roots found in the public headers" % len(roots))
    return roots


def r_noexit(P, chk):
    rid = "R-NOEXIT"
    chk.rule(rid, "no process-terminating call is reachable from any public API function")
    roots = library_roots(P)
    pred = P.reach(roots)
    edges, ext, sites = P.callgraph()
    n_sites = 0
    for fid in sorted(pred):
        f = P.by_fid(fid)
        if not P.first_party(f):
            continue
        for c in f.calls():
            cal = c.get("callee")
            if cal in TERMINATORS and P.resolve(f, cal) is None:
                n_sites += 1
                reason = NOEXIT_EXCEPT.get((fid[0], fid[1], cal))
                if c.get("m") == "uthash_fatal":
                    reason = "uthash out-of-memory handler (uthash_fatal): resource exhaustion, not an input shape"
                chain = " -> ".join(x[1] for x in P.chain(pred, fid))
                if reason:
                    chk.obligation(rid, "%s calls %s (tabled: %s)" % (f.where(c), cal, reason), True)
                    note = "R-NOEXIT exception %s:%s %s: %s" % (fid[0], fid[1], cal, reason)
                    if note not in chk.notes:
                        chk.notes.append(note)
                    continue
                chk.obligation(rid, "%s calls %s" % (f.where(c), cal), False)
                chk.violation(rid, "%s:%s:%s" % (fid[0], fid[1], cal), f.where(c),
                              "library function %s calls %s(); reachable from the API via %s" % (fid[1], cal, chain),
                              {"chain": chain})
    # every reachable first-party function counts as one examined instance
    nf = sum(1 for fid in pred if P.first_party(P.by_fid(fid)))
    for fid in sorted(pred)[:3]:
        chk.obligation(rid, "function %s:%s reachable from API, scanned for terminators" % fid, True, nontrivial=False)
    chk.obl[rid][0] += nf
    chk.obl[rid][1] += nf
    chk.analysed["R-NOEXIT"] = {"api_roots": len(roots), "reachable_functions": nf, "terminator_call_sites": n_sites}
    chk.floor(rid, nf, 300, "functions reachable from the API")


# ---------------------------------------------------------------------------

def classify_global_refs(f):
    """For each reference to a global-storage variable in f: (node, name, did, mode)
    with mode in {'read','write','addr'}."""
    out = []
    for n in f.walk():
        if n["k"] != "DeclRefExpr" or not n.get("g"):
            continue
        mode = "read"
        cur = n
        while True:
            p = f.parent(cur)
            if p is None:
                break
            pk = p["k"]
            if pk in ("ParenExpr",):
                cur = p
                continue
            if pk == "MemberExpr" and not p.get("arrow"):
                cur = p
                continue
            if pk == "MemberExpr" and p.get("arrow"):
                # global pointer dereferenced: the pointee is not the global itself
                break
            if pk == "ArraySubscriptExpr":
                if p["c"][0] is cur or strip(p["c"][0]) is cur:
                    # g[i]: stays an lvalue of g only if g is an array (decay below handles it)
                    cur = p
                    continue
                break
            if pk == "ImplicitCastExpr":
                ck = p.get("ck")
                if ck == "ArrayToPointerDecay":
                    pp = f.parent(p)
                    if pp is not None and pp["k"] == "ArraySubscriptExpr" and pp["c"][0] is p:
                        cur = p
                        continue
                    # array decays to a pointer that goes somewhere else
                    if "const" in p.get("t", "").split("*")[0]:
                        mode = "read"
                    else:
                        mode = "addr"
                    break
                if ck == "LValueToRValue":
                    break
                cur = p
                continue
            if pk == "UnaryOperator":
                op = p["op"]
                if op in ("post++", "post--", "pre++", "pre--"):
                    mode = "write"
                elif op == "&":
                    mode = "addr"
                break
            if pk == "BinaryOperator" and p["op"] == "=" or pk == "CompoundAssignOperator":
                if p["c"][0] is cur:
                    mode = "write"
                break
            break
        out.append((n, n["n"], mode))
    return out


STATEFUL_LIBC = {
    "rand": "hidden generator state", "srand": "hidden generator state", "random": "hidden generator state",
    "srandom": "hidden generator state", "drand48": "hidden generator state", "lrand48": "hidden generator state",
    "time": "wall clock", "clock": "cpu clock", "gettimeofday": "wall clock", "clock_gettime": "wall clock",
    "localtime": "static result buffer + wall clock", "gmtime": "static result buffer", "ctime": "static result buffer",
    "asctime": "static result buffer", "strtok": "static cursor", "setlocale": "process locale", "getenv": "environment",
    "tmpnam": "static buffer", "getpid": "process identity",
}

RANDOM_BITS = {"EXT_RANDOM_FOOT", "EXT_RANDOM_LABELS"}

# Functions whose whole purpose is an identifier / seed, not rendering: (unit, fn) -> reason
LIBC_TABLE_C05 = {
    ("uuid.c", "uuid_new"): "names of packaged assets and the EPUB/ITMZ identifier (identifiers, not rendering)",
    ("uuid.c", "custom_seed_rand"): "seeds the generator for uuids and for the requested random anchors",
    ("epub.c", "epub_package_document"): "EPUB dcterms:modified fallback date when the document gives none "
                                         "(depends on the calendar day, not on conversion history)",
}


def under_random_guard(f, n, depth=0):
    """Name of an EXT_RANDOM_* bit if call n is only reachable while some such bit is set: with every test of the
    form `X & EXT_RANDOM_*` decided false the call is unreachable (if / ternary / early return alike; the tested
    word may be a local copy of the extensions).  A static helper inherits the guard of its call sites when every one
    of them (and every reference to it) is guarded."""
    from .prog import edpe_blocks, strip, const_value
    r = _under_random_guard_local(f, n)
    if r is None and f.static and depth < 2:
        sites = [(g, c) for g in f.unit.funcs.values() if g is not f for c in g.calls(f.name)]
        refs = sum(1 for g in f.unit.funcs.values() for x in g.walk() if x["k"] == "DeclRefExpr" and x.get("n") == f.name)
        if sites and refs == len(sites):
            rs = [under_random_guard(g, c, depth + 1) for g, c in sites]
            if all(rs):
                return rs[0]
    return r


def _under_random_guard_local(f, n):
    from .prog import edpe_blocks, strip, const_value
    bits = set()

    def off(t):
        t = strip(t)
        if t is not None and t["k"] == "BinaryOperator" and t["op"] == "&":
            for a in t["c"]:
                for x in walk(a):
                    if x["k"] == "DeclRefExpr" and x.get("dk") == "Enum" and x["n"] in RANDOM_BITS:
                        bits.add(x["n"])
                        return False
        return None
    pos = f.cfg.positions()
    z = n
    while z is not None and z.get("i") not in pos:
        z = f.parent(z)
    if z is None:
        return None
    blocks = edpe_blocks(f, "?none", 0, extra_decide=off)
    if bits and pos[z["i"]][0] not in blocks:
        return sorted(bits)[0]
    return None


def _contains(tree, n):
    for x in walk(tree):
        if x is n:
            return True
    return False


def conversion_roots(P, include_pool_api=False):
    roots = []
    for fid in library_roots(P):
        if fid[1] in POOL_API and not include_pool_api:
            continue
        roots.append(fid)
    return roots


def r_global(P, chk, prop):
    """prop = 'C05' (history independence; token pool allowed) or 'C17' (no shared mutable state at all,
    run on the DISABLE_OBJECT_POOL configuration)."""
    rid = "R-GLOBAL"
    chk.rule(rid, "no mutable process-global object and no stateful libc call is reachable from a conversion entry point"
                  + (" (token pool excepted)" if prop == "C05" else " (pool disabled: empty allow list)"))
    roots = conversion_roots(P)
    pred = P.reach(roots)
    # 1. inventory of global-storage objects defined in first-party code
    globs = {}
    for u in P.units.values():
        if u.base in compdb.OPAQUE_UNITS or u.base == "main.c":
            continue
        for v in u.vars:
            if not v["def"]:
                continue
            globs.setdefault((v["name"], v["file"], v["line"]), v)
    byname = {}
    for (name, file, line), v in globs.items():
        byname.setdefault(name, []).append(v)
    # 2. all accesses
    acc = {}   # name -> list of (fid, node, mode)
    for f in P.all_funcs:
        if not P.first_party(f) or f.unit.base == "main.c":
            continue
        for n, name, mode in classify_global_refs(f):
            acc.setdefault(name, []).append((f, n, mode))
    n_mut = 0
    for name in sorted(byname):
        vs = byname[name]
        v = vs[0]
        a = acc.get(name, [])
        writers = [(f, n, m) for f, n, m in a if m in ("write", "addr")]
        if v["const"] and not writers:
            chk.obligation(rid, "global %s (%s) is const" % (name, v["type"]), True, nontrivial=False)
            continue
        if not writers:
            chk.obligation(rid, "global %s (%s) is never written or aliased after initialisation (%d reads)" % (
                name, v["type"], len(a)), True)
            continue
        n_mut += 1
        base = v["file"].rsplit("/", 1)[-1]
        if prop == "C05" and base == "token.c" and name in ("token_pool", "token_pool_count"):
            chk.obligation(rid, "global %s: the token pool, allowed by the property's own terms" % name, True)
            continue
        bad = [(f, n, m) for f, n, m in a if P.fid(f) in pred]
        wbad = [(f, n, m) for f, n, m in writers if P.fid(f) in pred]
        if not wbad:
            chk.obligation(rid, "global %s written only outside the conversion cone" % name, True)
            continue
        for f, n, m in wbad:
            chain = " -> ".join(x[1] for x in P.chain(pred, P.fid(f)))
            chk.obligation(rid, "global %s %s in %s" % (name, m, f.name), False)
            chk.violation(rid, "global:%s:%s" % (base, name), f.where(n),
                          "mutable process-global `%s` (%s) is %s by %s, reachable from a conversion via %s" % (
                              name, v["type"], "written" if m == "write" else "aliased (address escapes)", f.name, chain),
                          {"chain": chain, "global": name})
    # 3. stateful libc
    n_libc = 0
    for fid in sorted(pred):
        f = P.by_fid(fid)
        if not P.first_party(f):
            continue
        for c in f.calls():
            cal = c.get("callee")
            if cal not in STATEFUL_LIBC or P.resolve(f, cal) is not None:
                continue
            n_libc += 1
            g = under_random_guard(f, c)
            chain = " -> ".join(x[1] for x in P.chain(pred, fid))
            desc = "%s: %s() in %s" % (f.where(c), cal, f.name)
            if g:
                chk.obligation(rid, desc + " under a test of %s (random anchors requested)" % g, True)
                continue
            if prop == "C17" and cal in ("rand", "srand") and fid in LIBC_TABLE_C05:
                chk.obligation(rid, desc + " (identifier generation; libc serialises rand())", True)
                continue
            if prop == "C05" and fid in LIBC_TABLE_C05:
                chk.obligation(rid, desc + " (tabled: %s)" % LIBC_TABLE_C05[fid], True)
                chk.notes.append("R-GLOBAL libc exception %s:%s: %s" % (fid[0], fid[1], LIBC_TABLE_C05[fid]))
                continue
            if prop == "C17" and cal in ("time", "clock"):
                chk.obligation(rid, desc + " (reads a clock; no shared memory)", True)
                continue
            chk.obligation(rid, desc, False)
            chk.violation(rid, "libc:%s:%s:%s" % (fid[0], fid[1], cal), f.where(c),
                          "%s() (%s) called by %s outside any EXT_RANDOM_* guard; reachable via %s" % (
                              cal, STATEFUL_LIBC[cal], f.name, chain), {"chain": chain})
    chk.analysed[rid] = {"config": P.config, "conversion_roots": len(roots), "reachable_functions": len(pred),
                         "global_objects": len(byname), "mutable_globals": n_mut, "stateful_libc_sites": n_libc}
    chk.floor(rid, len(byname), 10, "global-storage objects inventoried")
    chk.floor(rid, n_libc, 8, "stateful libc call sites in the conversion cone")
    if prop == "C17":
        # the configuration itself: no pool objects, token_new reaches malloc
        if "token_pool" in byname:
            chk.violation(rid, "config:token_pool", "token.c", "DISABLE_OBJECT_POOL still defines the token pool objects")
        tn = P.func("token_new", "token.c")
        def mallocs(fn, depth=0):
            if any(c.get("callee") == "malloc" for c in fn.calls()):
                return True
            if depth < 2:
                for c in fn.calls():
                    g = P.resolve(fn, c.get("callee") or "")
                    if g is not None and g.unit is fn.unit and g is not fn and mallocs(g, depth + 1):
                        return True
            return False
        ok = mallocs(tn)
        chk.obligation(rid, "token_new allocates with malloc when the pool is disabled", ok)
        if not ok:
            chk.violation(rid, "config:token_new:malloc", tn.where(), "token_new does not call malloc with the pool disabled")
