"""R-DSTR (C19): structural discipline of d_string.c and of DString field writes elsewhere."""
from .prog import AnalysisBroken, key, strip, strip_parens, walk, const_value, resolve_key
from .ub1 import UB1, INF

BUF_WRITERS = {"memcpy": 0, "memmove": 0, "strncpy": 0, "strncat": 0, "strcpy": 0, "strcat": 0, "memset": 0, "sprintf": 0,
               "vsnprintf": 0, "snprintf": 0}

# Binary hand-offs documented in d_string.h ("DString as a container for a block of data and length")
HANDOFF_OK = {"mz_zip_writer_finalize_heap_archive"}


def _dstring_param(f):
    for p in f.params:
        if p[1].replace(" ", "") in ("DString*", "structDString*"):
            return p[0]
    return None


def _buffer_writes(f, b):
    """Writes into b->str (also through local aliases such as `char * gap = b->str + pos`):
    (node, kind, destination expression)."""
    out = []
    pre = b + "->str"
    for x in f.walk():
        if x["k"] == "BinaryOperator" and x["op"] == "=":
            l = strip(x["c"][0])
            if l is not None and l["k"] == "ArraySubscriptExpr" and pre in resolve_key(f, l["c"][0]):
                out.append((x, "store", l))
            elif l is not None and l["k"] == "UnaryOperator" and l["op"] == "*" and pre in resolve_key(f, l["c"][0]):
                out.append((x, "store", l))
        elif x["k"] == "CallExpr" and x.get("callee") in BUF_WRITERS and len(x["c"]) > 1:
            d = x["c"][1 + BUF_WRITERS[x["callee"]]]
            if pre in resolve_key(f, d):
                out.append((x, x["callee"], d))
    return out


def _len_stores(f, b):
    out = []
    k = b + "->currentStringLength"
    for x in f.walk():
        if (x["k"] == "BinaryOperator" and x["op"] == "=" or x["k"] == "CompoundAssignOperator") and key(x["c"][0]) == k:
            out.append(x)
        elif x["k"] == "UnaryOperator" and x["op"] in ("post++", "pre++", "post--", "pre--") and key(x["c"][0]) == k:
            out.append(x)
    return out


def _var_init(f, name):
    for x in f.walk():
        if x["k"] == "VarDecl" and x["n"] == name and x.get("c") and x["c"][0] is not None:
            return x["c"][0]
    return None


def _grows(f, b, s):
    """Does length store s possibly increase the length?"""
    lk = b + "->currentStringLength"
    if s["k"] == "UnaryOperator":
        return "++" in s["op"]
    if s["k"] == "CompoundAssignOperator":
        return s["op"] == "+="
    r = strip(s["c"][1])
    if r is None:
        return True
    if r["k"] == "DeclRefExpr" and r.get("dk") == "Parm":
        return False      # `= pos` under a pos <= length guard (checked by the clamping obligation)
    rk = resolve_key(f, r)
    return lk in rk and "+" in rk


def _clampers(u):
    """Static helpers `size_t H(DString * s, size_t p)` whose every return value is <= s->currentStringLength
    (interval analysis with the relational fact p <= s->len at each `return p`)."""
    out = {}
    for h in u.funcs.values():
        if not h.static or len(h.params) != 2:
            continue
        di = [i for i, q in enumerate(h.params) if "DString" in q[1]]
        pi = [i for i, q in enumerate(h.params) if "size_t" in q[1]]
        if len(di) != 1 or len(pi) != 1:
            continue
        s, p = h.params[di[0]][0], h.params[pi[0]][0]
        lk = s + "->currentStringLength"
        rets = [n for n in h.walk() if n["k"] == "ReturnStmt" and n["c"] and n["c"][0] is not None]
        if not rets:
            continue
        ub = UB1(h)
        ok = True
        for r in rets:
            k = key(r["c"][0])
            if k == lk:
                continue
            st = ub.state_at(r["c"][0]) or ub.state_at(r)
            if not (k == p and st is not None and st.get("?rel:%s<%s" % (p, lk)) in ((0, 0), (0, 1))):
                ok = False
        if ok:
            out[h.name] = (di[0], "currentStringLength")
    return out


def r_dstr(P, chk):
    rid = "R-DSTR"
    chk.rule(rid, "d_string.c: capacity is ensured (for the very length that is stored) before every growing write; the "
                  "buffer is re-terminated after every length change; positions are clamped before use; -1 lengths are "
                  "tested first; outside d_string.c DString fields are only written coherently")
    u = P.units.get("d_string.c")
    if u is None:
        raise AnalysisBroken("d_string.c is gone")
    mods = P.mods
    # call sites that use the documented "to the end" form: a constant -1 for a size_t parameter of a d_string.c function
    minus1_callers = {}
    for g in P.all_funcs:
        if not P.first_party(g):
            continue
        for c in g.calls():
            h = u.funcs.get(c.get("callee") or "")
            if h is None:
                continue
            for i, a in enumerate(c["c"][1:]):
                if i < len(h.params) and "size_t" in h.params[i][1] and const_value(a) in (-1, 2 ** 64 - 1):
                    minus1_callers.setdefault((h.name, i), []).append("%s %s" % (g.where(c), g.name))
    clampers = _clampers(u)
    n_funcs = 0
    for f in u.funcs.values():
        b = _dstring_param(f)
        if b is None or f.name == "ensureStringBufferCanHold":
            continue
        # (P0) module convention, unanimous on the pinned tree: every d_string.c function with a `size_t len` / `bytes`
        #      parameter accepts -1 ("to the end" / "use strlen") and therefore compares it with -1
        for p in f.params:
            if p[0] in ("len", "bytes") and ("size_t" in p[1] or "unsigned" in p[1]):
                tests = [x for x in f.walk() if x["k"] == "BinaryOperator" and x["op"] in ("==", "!=")
                         and key(x["c"][0]) == p[0] and const_value(x["c"][1]) in (-1, 2 ** 64 - 1)]
                chk.obligation(rid, "%s: `%s` is compared with -1 (every length parameter of d_string.c has the 'to the end' form)" % (
                    f.name, p[0]), bool(tests))
                if not tests:
                    chk.violation(rid, "dstr:minus1:%s" % f.name, f.where(), "%s no longer tests its length parameter `%s` for -1; "
                                  "with the documented 'to the end' value the position arithmetic wraps" % (f.name, p[0]))
        bw = _buffer_writes(f, b)
        ls = _len_stores(f, b)
        if not bw and not ls:
            continue
        n_funcs += 1
        lk = b + "->currentStringLength"
        ens = [c for c in f.calls("ensureStringBufferCanHold") if key(c["c"][1]) == b]
        grow = [s for s in ls if _grows(f, b, s)]
        # (E) ensure-before-write
        if grow:
            ok = bool(ens)
            chk.obligation(rid, "%s: growing function calls ensureStringBufferCanHold(%s, ..)" % (f.name, b), ok)
            if not ok:
                chk.violation(rid, "dstr:noensure:%s" % f.name, f.where(), "%s increases the length of %s but never calls "
                              "ensureStringBufferCanHold" % (f.name, b))
            for w, kind, d in bw:
                okw = any(f.cfg.dominates(e["i"], w["i"]) for e in ens)
                chk.obligation(rid, "%s %s: %s into %s->str is dominated by the capacity check" % (f.where(w), f.name, kind, b), okw)
                if ens and not okw:
                    chk.violation(rid, "dstr:order:%s:%s" % (f.name, kind), f.where(w), "%s writes into the buffer (%s) on a path "
                                  "that has not passed ensureStringBufferCanHold" % (f.name, kind))
            for s in grow:
                # the ensured size is the stored length (compared after substituting hoisted locals)
                if s["k"] == "BinaryOperator":
                    want = resolve_key(f, s["c"][1])
                elif s["k"] == "UnaryOperator":
                    want = "(%s+1)" % lk
                else:
                    want = "(%s+%s)" % (lk, resolve_key(f, s["c"][1]))
                ens_keys = [resolve_key(f, e["c"][2]) for e in ens if f.cfg.dominates(e["i"], s["i"])]
                ok = want in ens_keys and lk in want
                detail = "length := %s, ensured %s" % (want, ens_keys)
                chk.obligation(rid, "%s %s: capacity ensured for exactly the new length (%s)" % (f.where(s), f.name, detail), ok)
                if ens and not ok:
                    chk.violation(rid, "dstr:ensure-arg:%s" % f.name, f.where(s), "%s ensures capacity for a different size than "
                                  "the length it stores (%s)" % (f.name, detail))
        # (T) re-termination after every length change
        for s in ls:
            ok = False
            how = ""
            stored = resolve_key(f, s["c"][1]) if s["k"] == "BinaryOperator" else None
            from .rules_misc import _linear as _lin
            from .prog import single_assignment_locals as _sal

            def elem_index(l):
                """linear form of the index of `l` (= base[idx]) relative to b->str, through `char * p = b->str + off` aliases"""
                base, idx = strip(l["c"][0]), l["c"][1]
                off = {}
                for _ in range(3):
                    if base is None:
                        return None
                    if key(base) == b + "->str":
                        break
                    if base["k"] == "DeclRefExpr" and base["n"] in _sal(f):
                        base = strip(_sal(f)[base["n"]])
                        continue
                    if base["k"] == "BinaryOperator" and base["op"] == "+":
                        o = _lin(f, base["c"][1])
                        if o is None:
                            return None
                        for k2, v2 in o.items():
                            off[k2] = off.get(k2, 0) + v2
                        base = strip(base["c"][0])
                        continue
                    return None
                if base is None or key(base) != b + "->str":
                    return None
                i2 = _lin(f, idx)
                if i2 is None:
                    return None
                for k2, v2 in i2.items():
                    off[k2] = off.get(k2, 0) + v2
                return {k2: v2 for k2, v2 in off.items() if v2}
            stored_lin = None
            if s["k"] == "BinaryOperator":
                sl = _lin(f, s["c"][1])
                stored_lin = {k2: v2 for k2, v2 in sl.items() if v2} if sl is not None else None
            for x in f.walk():
                if x["k"] == "BinaryOperator" and x["op"] == "=" and const_value(x["c"][1]) == 0:
                    l = strip(x["c"][0])
                    if l is not None and l["k"] == "ArraySubscriptExpr" and stored_lin is not None and not ok:
                        el = elem_index(l)
                        if el is not None and el == stored_lin and (f.cfg.postdominates(x["i"], s["i"]) or f.cfg.dominates(x["i"], s["i"])):
                            ok, how = True, "terminator stored at the new end (linear index %s)" % el
                    if l is not None and l["k"] == "ArraySubscriptExpr" and resolve_key(f, l["c"][0]) == b + "->str":
                        ik = resolve_key(f, l["c"][1])
                        same = ik == lk or (stored is not None and ik == stored)
                        if same and f.cfg.postdominates(x["i"], s["i"]):
                            ok, how = True, "str[%s] = 0" % ik
                        elif stored is not None and ik == stored and f.cfg.dominates(x["i"], s["i"]):
                            # terminator written at the new end just before the length is updated to it
                            ok, how = True, "str[%s] = 0 (before the length store)" % ik
            if not ok:
                for c in f.calls("strncat"):
                    if resolve_key(f, c["c"][1]) in ("(%s->str+%s)" % (b, lk),) and f.cfg.dominates(c["i"], s["i"]):
                        ok, how = True, "strncat terminates at the new end"
            chk.obligation(rid, "%s %s: buffer re-terminated after the length change (%s)" % (f.where(s), f.name, how), ok)
            if not ok:
                chk.violation(rid, "dstr:term:%s" % f.name, f.where(s), "%s changes currentStringLength without storing the "
                              "terminating NUL at the new end on every path" % f.name)
        # (C) position clamping
        pos = [p[0] for p in f.params if p[0] in ("pos", "start")]
        if pos:
            ub = UB1(f, mods=mods, clampers=clampers)
            for pn in pos:
                uses = []
                for x in f.walk():
                    if x["k"] == "BinaryOperator" and x["op"] in ("+", "-") and x.get("t", "").endswith("*"):
                        if any(y["k"] == "DeclRefExpr" and y["n"] == pn for y in walk(x["c"][1])) or \
                                any(y["k"] == "DeclRefExpr" and y["n"] == pn for y in walk(x["c"][0])):
                            uses.append(x)
                    elif x["k"] == "ArraySubscriptExpr" and any(y["k"] == "DeclRefExpr" and y["n"] == pn for y in walk(x["c"][1])):
                        uses.append(x)
                for x in uses:
                    st = ub.state_at(x)
                    if st is None:
                        continue
                    ok = st.get("?rel:%s<%s" % (pn, lk)) in ((0, 0), (0, 1))
                    if not ok:
                        # through a local copy of the length: pos <= L and L <= length
                        for k2, v2 in st.items():
                            if k2.startswith("?rel:%s<" % pn) and v2 in ((0, 0), (0, 1)):
                                mid = k2[len("?rel:%s<" % pn):]
                                if st.get("?rel:%s<%s" % (mid, lk)) in ((0, 0), (0, 1)):
                                    ok = True
                    chk.obligation(rid, "%s %s: `%s` used in pointer arithmetic only when <= currentStringLength" % (
                        f.where(x), f.name, pn), ok)
                    if not ok:
                        chk.violation(rid, "dstr:clamp:%s:%s" % (f.name, pn), f.where(x), "%s uses `%s` to address the buffer "
                                      "without having clamped or rejected %s > currentStringLength on every path" % (f.name, pn, pn))
        # (P) the "to the end" (-1) form is tested before the parameter is used in arithmetic
        for p in f.params:
            if p[0] not in ("len", "bytes") or "size_t" not in p[1] and "unsigned" not in p[1]:
                continue
            tests = [x for x in f.walk() if x["k"] == "BinaryOperator" and x["op"] in ("==", "!=")
                     and key(x["c"][0]) == p[0] and const_value(x["c"][1]) in (-1, 2 ** 64 - 1)]
            pidx = [i for i, q in enumerate(f.params) if q[0] == p[0]][0]
            users = minus1_callers.get((f.name, pidx), [])
            if users:
                chk.obligation(rid, "%s: `%s` may be -1 ('to the end': %s) and the function tests for it" % (
                    f.name, p[0], users[0]), bool(tests))
                if not tests:
                    chk.violation(rid, "dstr:minus1:%s" % f.name, f.where(), "%s is called with %s == -1 ('to the end', e.g. %s) "
                                  "but no longer tests for that form: the wrapped value is used in arithmetic" % (f.name, p[0], users[0]))
            if not tests:
                continue
            arith = [x for x in f.walk() if x["k"] == "BinaryOperator" and x["op"] in ("+", "-")
                     and any(y["k"] == "DeclRefExpr" and y["n"] == p[0] for y in walk(x))
                     and not x.get("t", "").endswith("*")]
            from .prog import edpe_blocks as _edpe

            def _is_m1(t_, pn=p[0]):
                t2 = strip(t_)
                if t2 is not None and t2["k"] == "BinaryOperator" and t2["op"] in ("==", "!=") and key(t2["c"][0]) == pn and \
                        const_value(t2["c"][1]) in (-1, 2 ** 64 - 1):
                    return t2["op"] == "=="
                return None
            m1_reach = _edpe(f, "?none", 0, extra_decide=_is_m1)
            fpos = f.cfg.positions()

            def _dead_for_m1(node):
                z = node
                while z is not None and z.get("i") not in fpos:
                    z = f.parent(z)
                return z is not None and fpos[z["i"]][0] not in m1_reach

            def _in_cond_with_test(node):
                for a in f.ancestors(node):
                    if a["k"] == "BinaryOperator" and a["op"] == "&&" and any(t in list(walk(a)) for t in tests):
                        return True
                return False
            for x in arith:
                ok = any(f.cfg.dominates(t["i"], x["i"]) for t in tests) or \
                    any(a["k"] in ("IfStmt",) and key(a["c"][0]).find("%s==" % p[0]) >= 0 for a in f.ancestors(x))
                if not ok and _dead_for_m1(x):
                    ok = True      # cannot run when the parameter is -1 (path condition)
                if not ok:
                    # the sum is only kept in a local whose every use is dead for -1 or conjoined with the -1 test
                    par0 = f.parent(x)
                    while par0 is not None and par0["k"] in ("ParenExpr", "ImplicitCastExpr", "CStyleCastExpr"):
                        par0 = f.parent(par0)
                    rname = None
                    if par0 is not None and par0["k"] == "VarDecl":
                        rname = par0.get("n")
                    elif par0 is not None and par0["k"] == "BinaryOperator" and par0["op"] == "=" and strip(par0["c"][0])["k"] == "DeclRefExpr":
                        rname = key(par0["c"][0])
                    if rname:
                        uses = [y for y in f.walk() if y["k"] == "DeclRefExpr" and y.get("n") == rname and
                                not (f.parent(y) is par0 and par0["k"] == "BinaryOperator" and strip(par0["c"][0]) is y)]
                        if uses and all(_dead_for_m1(y) or _in_cond_with_test(y) for y in uses):
                            ok = True
                if not ok:
                    # `pos + len >= length -> len = -1` shape: the sum is itself the test that produces the -1 form
                    par = f.parent(x)
                    while par is not None and par["k"] in ("ParenExpr", "ImplicitCastExpr"):
                        par = f.parent(par)
                    ok = par is not None and par["k"] == "BinaryOperator" and par["op"] in (">=", ">", "<", "<=")
                chk.obligation(rid, "%s %s: `%s` used in arithmetic only after the == -1 test" % (f.where(x), f.name, p[0]), ok)
                if not ok:
                    chk.violation(rid, "dstr:minus1:%s" % f.name, f.where(x), "%s uses `%s` in arithmetic before testing the "
                                  "'to the end' (-1) form" % (f.name, p[0]))
    chk.floor(rid, n_funcs, 8, "d_string.c functions that write the buffer or the length")
    # ensureStringBufferCanHold itself: grows until newStringSize + 1 fits, stores the pointer and the capacity together
    e = u.funcs.get("ensureStringBufferCanHold")
    if e is None:
        raise AnalysisBroken("ensureStringBufferCanHold is gone")
    b = _dstring_param(e)
    need = [x for x in e.walk() if x["k"] == "VarDecl" and x.get("c") and x["c"][0] is not None
            and key(x["c"][0]) in ("(%s+1)" % e.params[1][0], "(1+%s)" % e.params[1][0])]
    ok = bool(need)
    chk.obligation(rid, "ensureStringBufferCanHold reserves newStringSize + 1 bytes (room for the terminator)", ok)
    if not ok:
        chk.violation(rid, "dstr:ensure:plus1", e.where(), "ensureStringBufferCanHold no longer reserves newStringSize + 1 bytes")
    re_call = [c for c in e.calls("realloc")]
    if need and re_call:
        nv = need[0]["n"]
        # at the realloc, interval analysis must know needed <= the size being allocated (the growth loop's exit condition)
        ub = UB1(e)
        st = ub.state_at(re_call[0])
        szk = key(re_call[0]["c"][2])
        ok = st is not None and st.get("?rel:%s<%s" % (nv, szk)) in ((0, 0), (0, 1))
        chk.obligation(rid, "ensureStringBufferCanHold: the reallocated size `%s` is >= the needed size `%s` at the realloc" % (szk, nv), ok)
        if not ok:
            chk.violation(rid, "dstr:ensure:loop", e.where(re_call[0]), "ensureStringBufferCanHold can realloc to a size `%s` that is "
                          "not known to reach the needed size `%s`" % (szk, nv))
    st_str = [x for x in e.walk() if x["k"] == "BinaryOperator" and x["op"] == "=" and key(x["c"][0]) == b + "->str"]
    st_cap = [x for x in e.walk() if x["k"] == "BinaryOperator" and x["op"] == "=" and key(x["c"][0]) == b + "->currentStringBufferSize"]
    ok = bool(st_str) and bool(st_cap) and bool(re_call) and key(st_cap[0]["c"][1]) == key(re_call[0]["c"][2])
    chk.obligation(rid, "ensureStringBufferCanHold records exactly the size it reallocated", ok)
    if not ok:
        chk.violation(rid, "dstr:ensure:record", e.where(), "ensureStringBufferCanHold: recorded capacity differs from the realloc size")
    # (W) who may write DString fields outside d_string.c
    groups = {}
    for f in P.all_funcs:
        if not P.first_party(f) or f.unit.base == "d_string.c":
            continue
        for x in f.walk():
            if x["k"] != "MemberExpr" or x.get("rec") != "DString":
                continue
            p = f.parent(x)
            mode = None
            if p["k"] == "BinaryOperator" and p["op"] == "=" and p["c"][0] is x:
                mode = "="
            elif p["k"] == "CompoundAssignOperator" and p["c"][0] is x:
                mode = p["op"]
            elif p["k"] == "UnaryOperator" and p["op"] in ("post++", "pre++", "post--", "pre--"):
                mode = p["op"]
            if mode:
                groups.setdefault((f, key(x["c"][0])), []).append((x["n"], mode, p))
    n_w = 0
    for (f, base), items in sorted(groups.items(), key=lambda kv: (kv[0][0].base, kv[0][0].line, kv[0][1])):
        n_w += 1
        fields = {i[0] for i in items}
        desc = "%s %s: writes %s of DString `%s`" % (f.where(items[0][2]), f.name, sorted(fields), base)
        if "str" in fields:
            ok = {"currentStringLength", "currentStringBufferSize"} <= fields
            if not ok and "currentStringLength" in fields:
                # the archive hand-over of the package builders: str / length receive the two results of
                # mz_zip_writer_finalize_heap_archive (directly through &X->str in the pinned tree, or through two locals) - a
                # binary blob carried in a DString, reviewed: it is only written out and freed
                fin = [c for c in f.calls("mz_zip_writer_finalize_heap_archive") if len(c["c"]) > 3]
                outs = {key(a).lstrip("&(").rstrip(")") for c in fin for a in c["c"][2:4]}
                srcs = {key(p2["c"][1]).strip("()") for n2, m2, p2 in items if n2 in ("str", "currentStringLength") and m2 == "="}
                if fin and srcs and srcs <= outs:
                    ok = True
            chk.obligation(rid, desc + " (buffer replaced: length and capacity must follow)", ok)
            if not ok:
                chk.violation(rid, "dstr:swap:%s:%s" % (f.name, base), f.where(items[0][2]),
                              "%s replaces %s->str but not %s: the recorded capacity/length no longer describes the buffer, a later "
                              "append overflows it" % (f.name, base, sorted({"currentStringLength", "currentStringBufferSize"} - fields)))
        else:
            # in-place shrink: length only decreases and the terminator is rewritten
            shrink = all(m in ("post--", "pre--", "-=") for _, m, _ in items if _ == "currentStringLength") and \
                fields == {"currentStringLength"}
            term = False
            for x in f.walk():
                if x["k"] == "BinaryOperator" and x["op"] == "=" and const_value(x["c"][1]) == 0:
                    l = strip(x["c"][0])
                    if l is not None and (l["k"] == "ArraySubscriptExpr" or (l["k"] == "UnaryOperator" and l["op"] == "*")):
                        term = True
            ok = shrink and term
            chk.obligation(rid, desc + " (in-place shrink with terminator)", ok)
            if not ok:
                chk.violation(rid, "dstr:field:%s:%s" % (f.name, base), f.where(items[0][2]),
                              "%s writes %s of a DString outside d_string.c without keeping str/length/capacity coherent" % (
                                  f.name, sorted(fields)))
    chk.floor(rid, n_w, 8, "functions outside d_string.c that write DString fields")
    chk.analysed[rid] = {"d_string_functions": n_funcs, "external_field_writers": n_w}


# ---------------------------------------------------------------------------
# R-DSTR/editloop (C19): a loop that edits the string keeps its end position and its running total in step

def _norm(lf):
    return {k: v for k, v in (lf or {}).items() if v != 0}


def r_fmtbound(P, chk):
    """`(v)snprintf(buf, n, ..)` into a buffer this function has just allocated with malloc(m): n and m must be the same
    quantity.  n < m silently cuts the end of the formatted text (the closing `>` of a tag), n > m overruns the buffer."""
    from .rules_misc import _linear
    from .rules_mem import _reaches
    rid = "R-FMTBOUND"
    chk.rule(rid, "the size handed to (v)snprintf equals the size of the buffer malloc'ed for it in the same function (linear "
                  "arithmetic; the operands are not changed in between)")
    n = 0
    for f in P.all_funcs:
        if not P.first_party(f) or f.unit.base in ("miniz.c", "argtable3.c"):
            continue
        calls = [c for c in f.calls() if c.get("callee") in ("snprintf", "vsnprintf") and len(c["c"]) > 3]
        if not calls:
            continue
        pos = f.cfg.positions()
        for c in calls:
            dst = key(c["c"][1])
            allocs = []
            for x in f.walk():
                rhs = None
                if x["k"] == "BinaryOperator" and x["op"] == "=" and key(x["c"][0]) == dst:
                    rhs = x["c"][1]
                elif x["k"] == "VarDecl" and x.get("n") == dst and x.get("c") and x["c"][0] is not None:
                    rhs = x["c"][0]
                r = strip(rhs) if rhs is not None else None
                if r is not None and r["k"] == "CallExpr" and r.get("callee") in ("malloc", "calloc"):
                    st_ = x
                    while st_ is not None and st_.get("i") not in pos:
                        st_ = f.parent(st_)
                    if st_ is not None:
                        allocs.append((st_, r))
            allocs = [(x, r) for x, r in allocs if f.cfg.dominates(x["i"], c["i"])]
            if len(allocs) != 1:
                continue          # a caller-supplied or stack buffer: R-ARRAY / R-HEAPIDX territory
            x, r = allocs[0]
            size_e = r["c"][1] if r["callee"] == "malloc" else None
            if size_e is None:
                continue
            n += 1
            a, b = _linear(f, size_e), _linear(f, c["c"][2])
            ok = a is not None and b is not None and {k_: v for k_, v in a.items() if v} == {k_: v for k_, v in b.items() if v}
            # the variables both expressions mention are not changed between the allocation and the call
            if ok:
                names = {k_ for k_ in a if k_ != 1}
                for y in f.walk():
                    if (y["k"] == "BinaryOperator" and y["op"] == "=" or y["k"] == "CompoundAssignOperator" or
                            (y["k"] == "UnaryOperator" and y["op"] in ("post++", "pre++", "post--", "pre--"))) and key(y["c"][0]) in names \
                            and y.get("i") in pos and y is not x:
                        if _reaches(f, pos, x, y, []) and _reaches(f, pos, y, c, []):
                            ok = False
            chk.obligation(rid, "%s %s: %s(%s, %s, ..) into malloc(%s)" % (f.where(c), f.name, c["callee"], dst, key(c["c"][2]), key(size_e)), ok)
            if not ok:
                chk.violation(rid, "fmtbound:%s:%s" % (f.name, dst), f.where(c),
                              "%s formats into `%s`, allocated with malloc(%s), but bounds the output by `%s`: the formatted text is cut "
                              "short (or overruns the buffer) whenever it needs the whole allocation" % (
                                  f.name, dst, f.src(size_e), f.src(c["c"][2])))
    chk.floor(rid, n, 1, "(v)snprintf calls into a buffer allocated in the same function")
    # C99 7.19.6.5: the result r of (v)snprintf(buf, N, ..) is the length the text needs; it was written completely iff r < N.
    # A test that counts r == N as "it fit" (r <= N, or r > N as the overflow test) hands on text that lost its last character.
    nres = 0
    for f in P.all_funcs:
        if not P.first_party(f) or f.unit.base in ("miniz.c", "argtable3.c"):
            continue
        for x in f.walk():
            rv = rhs = None
            if x["k"] == "VarDecl" and x.get("c") and x["c"][0] is not None:
                rv, rhs = x["n"], strip(x["c"][0])
            elif x["k"] == "BinaryOperator" and x["op"] == "=":
                rv, rhs = key(x["c"][0]), strip(x["c"][1])
            if rhs is None or rhs["k"] != "CallExpr" or rhs.get("callee") not in ("snprintf", "vsnprintf") or len(rhs["c"]) <= 3:
                continue
            nres += 1
            N = rhs["c"][2]
            nk, nv = key(N), const_value(N)
            for y in f.walk():
                if y["k"] != "BinaryOperator" or y["op"] not in ("<", "<=", ">", ">="):
                    continue
                a, b = y["c"]
                for left, right, op in ((a, b, y["op"]), (b, a, {"<": ">", "<=": ">=", ">": "<", ">=": "<="}[y["op"]])):
                    if key(left) != rv:
                        continue
                    same = key(right) == nk or (nv is not None and nv > 1 and const_value(right) == nv)
                    if not same:
                        continue
                    ok = op in ("<", ">=")
                    chk.obligation(rid, "%s %s: result of %s(.., %s, ..) compared with its bound as `%s`" % (
                        f.where(y), f.name, rhs["callee"], f.src(N), f.src(y)), ok)
                    if not ok:
                        chk.violation(rid, "fmtfit:%s:%s" % (f.name, rv), f.where(y),
                                      "%s treats `%s == %s` as \"the formatted text fit\": %s returns the length needed and has written "
                                      "only %s - 1 characters in that case, so the text loses its last character" % (
                                          f.name, rv, f.src(N), rhs["callee"], f.src(N)))
    chk.floor(rid, nres, 1, "(v)snprintf calls whose result is kept")


def r_valist(P, chk):
    """A va_list is consumed by the first v*printf-style call it is handed to (C11 7.16: its value is indeterminate
    afterwards).  On no CFG path may it be handed to a second consumer without va_end + va_start (or a va_copy) in between."""
    from .rules_mem import _reaches
    rid = "R-VALIST"
    chk.rule(rid, "a va_list is handed to at most one consumer between va_start and va_end on every CFG path (a second "
                  "v*printf on the same list reads whatever follows the real arguments)")
    n = 0
    for f in P.all_funcs:
        if not P.first_party(f) or f.unit.base in ("miniz.c", "argtable3.c"):
            continue
        starts = [c for c in f.calls("__builtin_va_start")]
        if not starts:
            continue
        pos = f.cfg.positions()
        for ap in sorted({key(c["c"][1]) for c in starts}):
            cons = [c for c in f.calls() if c.get("callee") not in ("__builtin_va_start", "__builtin_va_end", "__builtin_va_copy")
                    and any(key(a) == ap for a in c["c"][1:]) and c["i"] in pos]
            resets = [c for c in f.calls() if c.get("callee") in ("__builtin_va_start", "__builtin_va_copy") and key(c["c"][1]) == ap and c["i"] in pos]
            n += 1
            bad = None
            for c1 in cons:
                for c2 in cons:
                    if _reaches(f, pos, c1, c2, resets) and (c1 is not c2 or True):
                        if c1 is c2:
                            # the same call again: only through a loop back edge
                            b = pos[c1["i"]][0]
                            seen, st, loop = set(), list(f.cfg.blocks[b].rsucc), False
                            rb = {pos[r["i"]][0] for r in resets}
                            while st:
                                x = st.pop()
                                if x in seen or x in rb:
                                    continue
                                seen.add(x)
                                if x == b:
                                    loop = True
                                    break
                                st.extend(f.cfg.blocks[x].rsucc)
                            if not loop:
                                continue
                        bad = (c1, c2)
                        break
                if bad:
                    break
            chk.obligation(rid, "%s %s: `%s` has %d consumer(s), never two on one path" % (f.where(), f.name, ap, len(cons)), bad is None)
            if bad:
                chk.violation(rid, "valist:%s:%s" % (f.name, ap), f.where(bad[1]),
                              "%s hands `%s` to %s (line %d) after %s (line %d) already consumed it, with no va_end/va_start or va_copy in "
                              "between: the second call formats from indeterminate arguments" % (
                                  f.name, ap, bad[1].get("callee"), bad[1]["l"], bad[0].get("callee"), bad[0]["l"]))
    chk.floor(rid, n, 2, "va_list objects started in first-party functions")


def r_editloop(P, chk):
    from .rules_misc import _linear
    rid = "R-DSTR/editloop"
    chk.rule(rid, "d_string.c: in a loop that erases and inserts in the string, every position / total that the loop carries "
                  "(`x += E`) moves by exactly the net length change of one iteration (inserted - erased, by linear arithmetic)")
    u = P.units.get("d_string.c")
    if u is None:
        raise AnalysisBroken("d_string.c is gone")
    n = 0
    for f in u.funcs.values():
        b = _dstring_param(f)
        if b is None:
            continue
        for w in f.walk():
            if w["k"] not in ("WhileStmt", "ForStmt"):
                continue
            body = w["c"][1] if w["k"] == "WhileStmt" else w["c"][3]
            if body is None:
                continue
            net = {}
            edits = 0
            okform = True
            for c in walk(body):
                if c["k"] != "CallExpr" or len(c["c"]) < 2 or key(c["c"][1]) != b:
                    continue
                cal = c.get("callee")
                if cal == "d_string_erase":
                    lf = _linear(f, c["c"][3])
                    sign = -1
                elif cal in ("d_string_insert", "d_string_append", "d_string_prepend"):
                    a = c["c"][3] if cal == "d_string_insert" else c["c"][2]
                    lf = {"strlen(%s)" % key(a): 1}
                    sign = 1
                elif cal in ("d_string_insert_c", "d_string_append_c"):
                    lf = {1: 1}
                    sign = 1
                else:
                    continue
                edits += 1
                if lf is None:
                    okform = False
                    continue
                for k2, v in lf.items():
                    net[k2] = net.get(k2, 0) + sign * v
            if edits < 2 or not okform:
                continue
            net = _norm(net)
            for x in walk(body):
                if x["k"] != "CompoundAssignOperator" or x["op"] not in ("+=", "-="):
                    continue
                t = strip(x["c"][0])
                if t is None or t["k"] != "DeclRefExpr":
                    continue
                n += 1
                lf = _linear(f, x["c"][1])
                if lf is not None and x["op"] == "-=":
                    lf = {k2: -v for k2, v in lf.items()}
                ok = lf is not None and _norm(lf) == net
                chk.obligation(rid, "%s %s: `%s %s %s` equals the net length change %s" % (
                    f.where(x), f.name, t["n"], x["op"], key(x["c"][1]), net), ok=ok)
                if not ok:
                    chk.violation(rid, "dstr:editloop:%s:%s" % (f.name, t["n"]), f.where(x),
                                  "%s: the loop changes the length of %s by %s per iteration but moves `%s` by %s" % (
                                      f.name, b, net, t["n"], _norm(lf) if lf is not None else key(x["c"][1])))
    chk.floor(rid, n, 1, "carried positions in editing loops")
    chk.analysed[rid] = {"carried_updates": n}
