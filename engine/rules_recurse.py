"""R-RECURSE, R-CONSTTIME (C07): every recursion is depth-bounded by a guard against a
compile-time constant (or descends only through block-level nesting, which the guarded
parser recursion bounds), and the bound times the frame sizes fits a stack budget."""
import hashlib
import os
import re
import subprocess
from concurrent.futures import ThreadPoolExecutor

from . import compdb
from .prog import (AnalysisBroken, key, strip, strip_parens, walk, const_value, enum_name, edpe_blocks, block_nodes, reaching_defs)
from .rules_cg import library_roots

STACK_BUDGET_O2 = 2 << 20          # 2 MiB (a quarter of the default 8 MiB main-thread stack) at the real build's -O2
STACK_BUDGET_O0 = 8 << 20          # default main-thread stack at -O0


def _guard_in(P, f, scc_names):
    """A depth guard in f: `if (carrier ==|>=|> CONST) return;` that dominates every call of f into the SCC,
    where carrier is a parameter passed on as carrier+1, or a field incremented before the calls.
    Returns (bound, description) or None."""
    calls = [c for c in f.calls() if c.get("callee") in scc_names and P.resolve(f, c["callee"]) is not None]
    if not calls:
        return None
    for n in f.walk():
        if n["k"] != "IfStmt":
            continue
        cond = strip(n["c"][0])
        if cond is None or cond["k"] != "BinaryOperator" or cond["op"] not in ("==", ">=", ">"):
            continue
        a, b = cond["c"]
        lim = const_value(b)
        carrier = a
        if lim is None:
            lim = const_value(a)
            carrier = b
            if lim is None or cond["op"] != "==":
                continue
        ck = key(carrier)
        then = n["c"][1]
        if then is None or not any(x["k"] == "ReturnStmt" for x in walk(then)):
            continue
        # at the limit the function must stop descending: a limit branch that hands the subtree to another recursive
        # walker is no guard
        if not hasattr(P, "_rec_names"):
            P._rec_names = {c[1] for comp in P.sccs() for c in comp}
        if any(x["k"] == "CallExpr" and x.get("callee") in P._rec_names and P.resolve(f, x["callee"]) is not None for x in walk(then)):
            continue
        # the test must dominate every SCC call
        cid = n["c"][0]["i"]
        if not all(f.cfg.dominates(cid, c["i"]) or f.cfg.dominates(cond["i"], c["i"]) for c in calls):
            continue
        cs = strip(carrier)
        if cs is None:
            continue
        if cs["k"] == "DeclRefExpr" and cs.get("dk") == "Parm":
            # passed on as carrier + 1 in every SCC call that targets a function with the same parameter
            pidx = [i for i, p in enumerate(f.params) if p[0] == cs["n"]][0]
            ok = True
            for c in calls:
                g = P.resolve(f, c["callee"])
                if g is f:
                    args = c["c"][1:]
                    if pidx >= len(args) or key(args[pidx]) not in ("(%s+1)" % ck, "(1+%s)" % ck):
                        ok = False
            if ok and any(P.resolve(f, c["callee"]) is f for c in calls):
                return lim, "parameter `%s` compared with %d, passed on as %s+1" % (ck, lim, ck)
            continue
        if cs["k"] == "MemberExpr":
            incs = [x for x in f.walk() if x["k"] == "UnaryOperator" and x["op"] in ("post++", "pre++") and key(x["c"][0]) == ck]
            decs = [x for x in f.walk() if x["k"] == "UnaryOperator" and x["op"] in ("post--", "pre--") and key(x["c"][0]) == ck]
            if incs and decs and all(any(f.cfg.dominates(i["i"], c["i"]) for i in incs) for c in calls):
                return lim, "counter `%s` compared with %d, incremented before and decremented after the descent" % (ck, lim)
    return None


def _monotone_in(P, f, scc_names):
    """Self-recursion on a strictly increasing integer parameter whose new value is bounded by the constants a
    classifier function can return: `f(..., X + c)` with `p <= X` known at the call (interval analysis) and X
    assigned from a call whose every return value is a constant.  Returns (bound, description) or None."""
    from .ub1 import UB1
    from .origins import Origins
    selfcalls = [c for c in f.calls(f.name)]
    others = [c for c in f.calls() if c.get("callee") in scc_names and c.get("callee") != f.name]
    if not selfcalls:
        return None
    u = UB1(f)
    O = Origins(P, copy_field=None)
    for pidx, prm in enumerate(f.params):
        if prm[1] not in ("short", "int", "unsigned short", "unsigned int", "size_t", "long"):
            continue
        p = prm[0]
        best = None
        ok = True
        for c in selfcalls:
            args = c["c"][1:]
            a = strip(args[pidx]) if pidx < len(args) else None
            if a is None or a["k"] != "BinaryOperator" or a["op"] != "+" or (const_value(a["c"][1]) or 0) < 1:
                ok = False
                break
            x = a["c"][0]
            st = u.state_at(c)
            if st is None or st.get("?rel:%s<%s" % (p, key(x))) not in ((0, 0), (0, 1)):
                ok = False
                break
            before = len(O.unknown)
            vals = O.of(x, f)
            if len(O.unknown) != before or not vals:
                del O.unknown[before:]
                ok = False
                break
            m = max(vals) + const_value(a["c"][1])
            best = m if best is None else max(best, m)
        if ok and best is not None:
            return best + 1, "parameter `%s` strictly increases (callee gets X+c with %s <= X) and X only takes the constants " \
                             "%s returned by its classifier: depth <= %d" % (p, p, "..", best + 1)
    return None


def _acyclic_without(P, comp, removed, removed_edges=()):
    """Is the SCC acyclic once the functions in `removed` are taken out?"""
    edges, _, _ = P.callgraph()
    nodes = [c for c in comp if c not in removed]
    ns = set(nodes)
    color = {}

    def dfs(v):
        color[v] = 1
        for w in edges.get(v, ()):
            if w not in ns or (v, w) in removed_edges:
                continue
            if color.get(w) == 1:
                return False
            if w not in color and not dfs(w):
                return False
        color[v] = 2
        return True
    for v in nodes:
        if v not in color and not dfs(v):
            return False
    return True


def _dispatch_keys(f):
    dkeys = []
    for n in f.walk():
        k = None
        if n["k"] == "SwitchStmt":
            k = key(n["c"][0])
        elif n["k"] == "BinaryOperator" and n["op"] in ("==", "!=") and const_value(n["c"][1]) is not None:
            k = key(n["c"][0])     # if-chain form of a dispatch
        if k and k.endswith("->type") and k not in dkeys:
            dkeys.append(k)
    pnames = {p[0] for p in f.params}
    dkeys.sort(key=lambda k: (k[:-len("->type")] not in pnames, len(k)))
    return dkeys


def _descent_types(P, f, scc_names, tt, dkey=None):
    """Token types for which f (dispatching on <x>->type) can reach a call into the SCC."""
    if dkey is None:
        ks = _dispatch_keys(f)
        if not ks:
            return None, None
        dkey = ks[0]
    out = set()
    for name, v in tt.items():
        blocks = edpe_blocks(f, dkey, v)
        for n in block_nodes(f, blocks):
            if n["k"] == "CallExpr" and n.get("callee") in scc_names:
                out.add(name)
                break
    return dkey, out


def _block_only(P, f, scc_names, tt):
    """(True, why) if every call of f into the SCC is gated by some `->type` dispatch expression taking only
    block-level values (each call site may be gated by a different expression)."""
    sites = [c for c in f.calls() if c.get("callee") in scc_names]
    if not sites:
        return True, "%s does not call into the cycle" % f.name
    dks = _dispatch_keys(f)
    if not dks:
        return False, "%s does not dispatch on a token type" % f.name
    pos = f.cfg.positions()
    per_site = {c["i"]: [] for c in sites}
    for dk in dks:
        reach_by_v = {}
        for name, v in tt.items():
            reach_by_v[name] = edpe_blocks(f, dk, v)
        for c in sites:
            b = pos.get(c["i"], (None,))[0]
            types = {name for name, blocks in reach_by_v.items() if b in blocks}
            per_site[c["i"]].append((dk, types))
    whys = []
    for c in sites:
        ok = False
        for dk, types in per_site[c["i"]]:
            if types and all(BLOCK_LEVEL.match(t) for t in types):
                ok = True
                whys.append("%s:%d gated by %s in %d block-level types" % (c["callee"], c["l"], dk, len(types)))
                break
        if not ok:
            dk, types = per_site[c["i"]][0]
            return False, "%s calls %s (line %d) for non-block values of %s: %s" % (
                f.name, c["callee"], c["l"], dk, sorted(t for t in types if not BLOCK_LEVEL.match(t))[:6])
    return True, "%s: %s" % (f.name, "; ".join(whys[:4]))


def _unpaired_block_types(P, tt):
    """Block types for which mmd_pair_tokens_in_block neither matches pairs nor descends."""
    f = P.func("mmd_pair_tokens_in_block", "mmd.c")
    out = set()
    for name, v in tt.items():
        if not name.startswith("BLOCK_"):
            continue
        blocks = edpe_blocks(f, "block->type", v)
        calls = {n.get("callee") for n in block_nodes(f, blocks) if n["k"] == "CallExpr"}
        if not calls & {"token_pairs_match_pairs_inside_token", "mmd_pair_tokens_in_chain", "mmd_pair_tokens_in_block"}:
            out.add(name)
    return out


def _flat_input(P, comp, names, tt):
    unpaired = _unpaired_block_types(P, tt)
    if not unpaired:
        return None
    ext_sites = []
    compset = set(comp)
    for g in P.all_funcs:
        if P.fid(g) in compset or not P.first_party(g):
            continue
        for c in g.calls():
            if c.get("callee") in names and P.resolve(g, c["callee"]) is not None and P.fid(P.resolve(g, c["callee"])) in compset:
                ext_sites.append((g, c))
    if not ext_sites:
        return None
    seen_types = set()

    def site_types(g, c, depth=0):
        dks = _dispatch_keys(g)
        if dks:
            b = g.cfg.positions().get(c["i"], (None,))[0]
            return {name for name, v in tt.items() if b in edpe_blocks(g, dks[0], v)}
        # a static helper the branch was extracted into: the types under which its callers call it
        if g.static and depth < 2:
            out = set()
            sites = [(h, c2) for h in g.unit.funcs.values() if h is not g for c2 in h.calls(g.name)]
            for h, c2 in sites:
                t2 = site_types(h, c2, depth + 1)
                if not t2:
                    return None
                out |= t2
            return out if sites else None
        return None
    for g, c in ext_sites:
        types = site_types(g, c)
        if not types or not types <= unpaired:
            return None
        seen_types |= types
    return "flat-input - entered (%d call sites) only for %s, block types whose children mmd_pair_tokens_in_block never pairs: " \
           "no pair nesting below them" % (len(ext_sites), sorted(seen_types))


LEAF_SELFCALL_TYPES = {"SUBSCRIPT", "SUPERSCRIPT"}


def _pair_table(P):
    """PAIR type -> (set of opener types, set of closer types) from every token_pair_engine_add_pairing call."""
    out = {}
    for f in P.all_funcs:
        for c in f.calls("token_pair_engine_add_pairing"):
            a = c["c"][1:]
            o, cl, pt = enum_name(a[1]), enum_name(a[2]), enum_name(a[3])
            if o and cl and pt:
                e = out.setdefault(pt, (set(), set()))
                e[0].add(o)
                e[1].add(cl)
    return out


def _leaf_selfcall(P, f, tt):
    """Direct self-calls `f(.., t->child, ..)` / `f(.., t->child->mate, ..)` whose recursion cannot continue:
    R = the token types for which f calls itself (EDPE).  For a pair type in R the first child is the pair's
    opener and its mate the closer (pairing table); for SUBSCRIPT/SUPERSCRIPT the child is the TEXT_PLAIN leaf
    created in mmd_assign_ambidextrous_tokens_in_block (checked).  If none of those child types is in R the
    self-recursion has depth 1."""
    calls = [c for c in f.calls(f.name)]
    if not calls:
        return None
    def arg_key(c, a):
        # `tmp = t->child; ... f(.., tmp, ..)` / `f(.., tmp->mate, ..)`: the one definition of tmp that reaches the call
        k = key(a)
        m = re.match(r"^\(?([A-Za-z_]\w*)(->mate)?\)?$", k)
        if m and not any(p[0] == m.group(1) for p in f.params):
            ds = reaching_defs(f, m.group(1), c)
            if ds is not None and len(ds) == 1:
                return key(ds[0]) + (m.group(2) or "")
        return k
    for c in calls:
        if not any(arg_key(c, a).endswith("->child") or arg_key(c, a).endswith("->child->mate") for a in c["c"][1:]):
            return None
    dkey, _ = _descent_types(P, f, {f.name}, {})
    if dkey is None:
        return None
    reach = set()
    for name, v in tt.items():
        blocks = edpe_blocks(f, dkey, v)
        for n in block_nodes(f, blocks):
            if n["k"] == "CallExpr" and n.get("callee") == f.name:
                reach.add(name)
                break
    if not reach:
        return None
    pairs = _pair_table(P)
    child_types = set()
    for r in reach:
        if r in pairs:
            child_types |= pairs[r][0] | pairs[r][1]
        elif r in LEAF_SELFCALL_TYPES:
            child_types.add("TEXT_PLAIN")
        else:
            return None
    if child_types & reach:
        return None
    if reach & LEAF_SELFCALL_TYPES:
        g = P.func("mmd_assign_ambidextrous_tokens_in_block", "mmd.c")
        for x in g.walk():
            if x["k"] == "BinaryOperator" and x["op"] == "=" and key(x["c"][0]).endswith("->child"):
                r = strip(x["c"][1])
                if not (r is not None and r["k"] == "CallExpr" and r.get("callee") == "token_new" and enum_name(r["c"][1]) == "TEXT_PLAIN"):
                    return None
    return "self-call on t->child / t->child->mate reachable only for %s, whose first child / mate is a delimiter or text leaf " \
           "(%s) for which the function does not call itself: depth 1" % (sorted(reach), sorted(child_types)[:6])


BLOCK_LEVEL = re.compile(r"^(BLOCK_|TABLE_ROW$|TABLE_CELL$|DOC_START_TOKEN$)")


def stack_usage(config_flags=(), opt="-O2", cc="gcc"):
    """function name -> (bytes, qualifier) from -fstack-usage (compile only)."""
    work = os.path.join(os.environ.get("MMD_CACHE") or compdb.WORK, "su")
    os.makedirs(work, exist_ok=True)
    units = [u for u in compdb.src_units() if os.path.basename(u) not in ("argtable3.c",)]
    flags = [f for f in compdb.base_flags() if not f.startswith("-O")] + [opt] + list(config_flags)

    def one(u):
        path = os.path.join(compdb.REPO, u)
        h = hashlib.sha256()
        h.update(open(path, "rb").read())
        srcdir = os.path.join(compdb.REPO, "src")
        for n in sorted(os.listdir(srcdir)):
            if n.endswith(".h"):
                h.update(open(os.path.join(srcdir, n), "rb").read())
        h.update((" ".join(flags) + cc).encode())
        base = os.path.join(work, h.hexdigest()[:32])
        su = base + ".su"
        if not os.path.exists(su):
            r = subprocess.run([cc] + flags + ["-fstack-usage", "-c", path, "-o", base + ".o"], capture_output=True, text=True)
            if r.returncode != 0 or not os.path.exists(su):
                raise AnalysisBroken("stack usage: %s failed on %s: %s" % (cc, u, r.stderr[-500:]))
            try:
                os.unlink(base + ".o")
            except OSError:
                pass
        out = {}
        for line in open(su):
            parts = line.rstrip("\n").split("\t")
            if len(parts) >= 3:
                fn = parts[0].split(":")[-1]
                out[(os.path.basename(u), fn)] = (int(parts[1]), parts[2])
        return out
    res = {}
    with ThreadPoolExecutor(max_workers=16) as ex:
        for d in ex.map(one, units):
            res.update(d)
    return res


def r_recurse(P, chk, tier="quick"):
    rid = "R-RECURSE"
    chk.rule(rid, "every recursive cycle reachable from the API passes through a depth guard against a constant (or only "
                  "descends through block-level nesting / a visited set); bound x frame sizes fits the stack budget")
    tt_main = dict(P.enumerators("token_types"))
    tt_cm = dict(P.enumerators("cm_types")) if "cm_types" in P.enums else {}

    class _TT(dict):
        """token-type table chosen per function: critic_markup.c dispatches on its own enum"""
    tt = tt_main
    roots = library_roots(P) + [("main.c", "main")]
    pred = P.reach(roots)
    sccs = [c for c in P.sccs() if c[0][0] not in compdb.OPAQUE_UNITS and any(x in pred for x in c)]
    chk.floor(rid, len(sccs), 25, "recursive SCCs reachable from the API")
    su = stack_usage(compdb.CONFIGS[P.config], "-O2")
    classes = {}
    budget_terms = []
    for comp in sccs:
        names = {c[1] for c in comp}
        label = "+".join(sorted(names))
        guards = {}
        mono = {}
        leaf_edges = {}
        tt = tt_cm if (comp[0][0] == "critic_markup.c" and tt_cm) else tt_main
        for fid in comp:
            f = P.by_fid(fid)
            g = _guard_in(P, f, names)
            if g:
                guards[fid] = g
                continue
            m = _monotone_in(P, f, names)
            if m:
                mono[fid] = m
            le = _leaf_selfcall(P, f, tt)
            if le:
                leaf_edges[(fid, fid)] = le
        frame = sum(su.get(fid, (0, ""))[0] for fid in comp)
        dyn = [fid[1] for fid in comp if "dynamic" in su.get(fid, (0, ""))[1] and "bounded" not in su.get(fid, (0, ""))[1]]
        # a monotone self-recursion multiplies the depth of the cycles it sits on by its own small bound
        mono_edges = {(fid, fid) for fid in mono}
        if (guards or mono) and _acyclic_without(P, comp, set(guards), set(leaf_edges) | mono_edges):
            bound = min([g[0] for g in guards.values()] or [1]) * max([m[0] for m in mono.values()] or [1])
            classes[label] = ("guarded", bound)
            parts = ["%s: %s" % (fid[1], g[1]) for fid, g in guards.items()] + ["%s: %s" % (fid[1], m[1]) for fid, m in mono.items()] + \
                    ["%s: %s" % (e[0][1], why) for e, why in leaf_edges.items()]
            for e, why in leaf_edges.items():
                note = "R-RECURSE leaf self-call in %s: %s" % (e[0][1], why)
                if note not in chk.notes:
                    chk.notes.append(note)
            chk.obligation(rid, "SCC {%s}: guarded - %s" % (label, "; ".join(parts)), True)
            gb = min([g[0] for g in guards.values()] or [1])
            frame = sum(su.get(fid, (0, ""))[0] * (mono[fid][0] if fid in mono else 1) for fid in comp)
            budget_terms.append((label, gb, frame))
            if bound > 100000:
                chk.violation(rid, "recurse:limit:%s" % label, P.by_fid(comp[0]).where(),
                              "recursion limit %d of {%s} is too high to protect the stack" % (bound, label))
            continue
        # block-bounded?  every cycle passes through a function that only descends for block-level types
        why = []
        blockers = set()
        for fid in comp:
            f = P.by_fid(fid)
            if not any(c.get("callee") in names for c in f.calls()):
                continue
            okb, w = _block_only(P, f, names, tt)
            why.append(w)
            if okb:
                blockers.add(fid)
        if blockers and _acyclic_without(P, comp, blockers | set(guards), set(leaf_edges)):
            classes[label] = ("block-bounded", None)
            chk.obligation(rid, "SCC {%s}: block-bounded - %s; block nesting is created only by the guarded parser recursion" % (
                label, "; ".join(why)), True)
            budget_terms.append((label, None, frame))
            continue
        # flat-input: every call into the cycle from outside it happens only for block types whose children are
        # never paired (mmd_pair_tokens_in_block does not process them), so the subtree it walks has no pair nesting
        flat = _flat_input(P, comp, names, tt_main)
        if flat:
            classes[label] = ("flat-input", None)
            chk.obligation(rid, "SCC {%s}: %s" % (label, flat), True)
            continue
        if label in VISITED_SET:
            ok = VISITED_SET[label](P, chk, rid)
            classes[label] = ("visited-set", None)
            chk.obligation(rid, "SCC {%s}: bounded by a visited set (checked by R-PUSHPOP)" % label, ok)
            continue
        if label in BOUNDED_BY_CONSTANT_DATA:
            classes[label] = ("constant-data", None)
            chk.obligation(rid, "SCC {%s}: reviewed - %s" % (label, BOUNDED_BY_CONSTANT_DATA[label]), True)
            chk.notes.append("R-RECURSE reviewed {%s}: %s" % (label, BOUNDED_BY_CONSTANT_DATA[label]))
            continue
        classes[label] = ("unbounded", None)
        chk.obligation(rid, "SCC {%s}" % label, False)
        f0 = P.by_fid(comp[0])
        chain = " -> ".join(x[1] for x in P.chain(pred, [c for c in comp if c in pred][0]))
        chk.violation(rid, "recurse:%s" % label, f0.where(),
                      "recursive cycle {%s} has no depth guard and is not confined to block-level nesting (%s): its depth follows "
                      "the input (pair / list nesting is built by loops, so no parser limit bounds it); reachable via %s" % (
                          label, "; ".join(why) or "no guard found", chain), {"chain": chain})
    # a guard counter bounds the descent only while nothing inside the recursion re-opens the budget: no function of any
    # recursive cycle may store a constant into a field that one of the guards above compares with its limit
    counters = set()
    for comp in sccs:
        for fid in comp:
            g = _guard_in(P, P.by_fid(fid), {c[1] for c in comp})
            if g:
                m_ = re.search(r"counter `[^`]*->(\w+)`", g[1])
                if m_:
                    counters.add(m_.group(1))
    nstores = 0
    if counters:
        for comp in sccs:
            for fid in comp:
                f = P.by_fid(fid)
                for x in f.walk():
                    if x["k"] == "BinaryOperator" and x["op"] == "=":
                        l = strip(x["c"][0])
                        if l is not None and l["k"] == "MemberExpr" and l["n"] in counters and const_value(x["c"][1]) is not None:
                            nstores += 1
                            chk.obligation(rid, "%s %s: constant stored into depth counter %s inside a recursive cycle" % (f.where(x), f.name, key(x["c"][0])), False)
                            chk.violation(rid, "recurse:counter-reset:%s:%s" % (f.name, l["n"]), f.where(x),
                                          "%s sets the depth counter `%s` to a constant while it is part of a recursive cycle: every "
                                          "pass through this statement re-opens the depth budget, so the guard `%s >= limit` no longer "
                                          "bounds the descent" % (f.name, key(x["c"][0]), l["n"]))
        chk.obligation(rid, "depth counters %s: no function of a recursive cycle stores a constant into them" % sorted(counters), nstores == 0)
    # stack budget: parse, pair and export phases run one after another, so the worst phase counts;
    # within a phase nested SCCs add up.  Conservative: sum over all guarded SCCs of bound x frame.
    kparse = next((b for l, b, fr in budget_terms if "mmd_parse_token_chain" in l and b), None)
    worst = 0
    rows = []
    for label, bound, frame in budget_terms:
        b = bound if bound is not None else (kparse or 1000) * 3
        cost = b * frame
        rows.append({"scc": label, "bound": bound, "frames_bytes": frame, "bytes": cost})
        worst = max(worst, cost)
    margin = 64 << 10
    ok = worst + margin <= STACK_BUDGET_O2
    chk.obligation(rid, "stack budget: worst guarded cycle %d bytes (+ %d margin for the non-recursive chain) <= %d at -O2" % (
        worst, margin, STACK_BUDGET_O2), ok)
    if not ok:
        w = max(rows, key=lambda r: r["bytes"])
        chk.violation(rid, "recurse:budget:%s" % w["scc"], "stack", "recursion {%s}: bound %s x %d bytes of frames = %d bytes exceeds "
                      "the %d-byte stack budget" % (w["scc"], w["bound"], w["frames_bytes"], w["bytes"], STACK_BUDGET_O2))
    chk.analysed[rid] = {"sccs": {k: v[0] for k, v in classes.items()}, "budget_rows": sorted(rows, key=lambda r: -r["bytes"])[:8],
                         "config": P.config}
    return classes


def _transclude_guard(P, chk, rid):
    from .rules_misc import pushpop_ok
    return pushpop_ok(P)


VISITED_SET = {"mmd_transclude_source": _transclude_guard}

BOUNDED_BY_CONSTANT_DATA = {
    "trie_node_insert": "depth = length of the inserted key; every key is a string literal passed to trie_insert at engine "
                        "creation (checked: all trie_insert call sites pass string literals)",
    "ac_trie_node_prepare": "depth = depth of the trie = longest inserted key (string literals only)",
    "trie_node_search": "depth = length of the search key, bounded by the longest trie key (search stops at a missing edge)",
}


def r_consttime(P, chk):
    rid = "R-CONSTTIME"
    chk.rule(rid, "the append primitives contain no loop and call only loop-free functions (amortised doubling excepted)")
    prims = [("token_new", "token.c"), ("token_chain_append", "token.c"), ("token_append_child", "token.c"),
             ("pool_allocate_object", "object_pool.c"), ("stack_push", "stack.c"), ("d_string_append_c", "d_string.c")]
    allowed_loops = {"ensureStringBufferCanHold": "capacity doubling, amortised O(1)",
                     "pool_add_slab": "no loop expected", "stack_push": "doubling realloc"}

    def doubling(f, lp):
        """a capacity-growth loop: `while (need > cap) cap *= K` (or `cap += BIG`): amortised O(1) whatever function holds it"""
        cond = lp["c"][0] if lp["k"] == "WhileStmt" else (lp["c"][1] if lp["k"] in ("ForStmt", "DoStmt") else None)
        body = lp["c"][1] if lp["k"] == "WhileStmt" else (lp["c"][3] if lp["k"] == "ForStmt" else lp["c"][0])
        if cond is None or body is None:
            return False
        cvars = {y["n"] for y in walk(cond) if y["k"] == "DeclRefExpr" and y.get("dk") in ("Var", "Parm")}
        mult = [y for y in walk(body) if y["k"] == "CompoundAssignOperator" and y["op"] == "*=" and key(y["c"][0]) in cvars
                and (const_value(y["c"][1]) or 0) >= 2]
        calls = [y for y in walk(body) if y["k"] == "CallExpr"]
        return bool(mult) and not calls

    def loops(f):
        return [n for n in f.walk() if n["k"] in ("WhileStmt", "ForStmt", "DoStmt") and not doubling(f, n)]
    for name, unit in prims:
        f = P.func(name, unit)
        seen = set()
        st = [f]
        bad = None
        while st:
            g = st.pop()
            if g.name in seen:
                continue
            seen.add(g.name)
            if g.name not in allowed_loops or g.name == name:
                ls = loops(g)
                if ls and g.name not in allowed_loops:
                    bad = (g, ls[0])
                    break
            for c in g.calls():
                h = P.resolve(g, c.get("callee")) if c.get("callee") else None
                if h is not None and P.first_party(h):
                    st.append(h)
        chk.obligation(rid, "%s is loop-free (transitively over %d first-party callees)" % (name, len(seen) - 1), bad is None)
        if bad:
            chk.violation(rid, "consttime:%s" % name, bad[0].where(bad[1]), "append primitive %s reaches a loop in %s: appending k "
                          "items is no longer O(k)" % (name, bad[0].name))


def r_counter(P, chk):
    """The large-stack shortcut of the pair matcher (`opener_count[type]` tells whether any opener of a type is on
    the stack) is exact only if every push increments and every removal from the stack decrements the counter.
    A stale counter makes every unmatched closer rescan the whole opener stack (quadratic on the published
    pathological patterns) - a necessary condition of the linear-cost clause, checked structurally."""
    rid = "R-COUNTER"
    chk.rule(rid, "token_pairs_match_pairs_inside_token: the per-type opener counter is adjusted with every push and every "
                  "removal from the shared stack while it is still consulted")
    f = P.func("token_pairs_match_pairs_inside_token", "token_pairs.c")
    counters = {}
    for x in f.walk():
        if x["k"] == "UnaryOperator" and x["op"] in ("post++", "pre++", "post--", "pre--"):
            l = strip(x["c"][0])
            if l is not None and l["k"] == "ArraySubscriptExpr":
                b = strip(l["c"][0])
                if b is not None and b["k"] == "DeclRefExpr" and b.get("dk") == "Var":
                    counters.setdefault(b["n"], {"inc": [], "dec": []})["inc" if "++" in x["op"] else "dec"].append(x)
    if not counters:
        raise AnalysisBroken("pair matcher: no per-type counter array found (shortcut rewritten?)")
    cname = sorted(counters, key=lambda k: -len(counters[k]["inc"]))[0]
    C = counters[cname]
    # the counter counts stack entries, of which there can be as many as tokens: its element type must not be narrower
    # than the stack's own size field can need (a char / short wraps to 0 while openers are still on the stack)
    decl = [x for x in f.walk() if x["k"] == "VarDecl" and x.get("n") == cname]
    et = re.sub(r"\[.*$", "", (decl[0].get("t") or "")) .replace("const", "").strip() if decl else ""
    from .ub1 import type_range
    tr = type_range(et)
    wide = tr[1] >= 2 ** 31 - 1
    chk.obligation(rid, "%s: counter element type `%s` can count every stack entry" % (cname, et), wide)
    if not wide:
        chk.violation(rid, "counter:width", f.where(decl[0]) if decl else f.where(), "the opener counter `%s` has element type `%s`: with "
                      "more stacked openers of one type than it can hold it wraps to 0 and the shortcut reports that no opener is "
                      "available - a well-formed closer is left unmatched" % (cname, et))
    pushes = list(f.calls("stack_push"))
    pops = list(f.calls("stack_pop"))
    if not pushes:
        raise AnalysisBroken("pair matcher: no stack_push")
    stack = key(pushes[0]["c"][1])
    pos = f.cfg.positions()
    blk = lambda n: pos.get(n["i"], (None,))[0]
    for p in pushes:
        ok = any(blk(i) == blk(p) for i in C["inc"])
        chk.obligation(rid, "%s: stack_push is paired with %s[type]++" % (f.where(p), cname), ok)
        if not ok:
            chk.violation(rid, "counter:push", f.where(p), "an opener is pushed without incrementing %s[]" % cname)
    for p in pops:
        ok = any(blk(d) == blk(p) for d in C["dec"])
        chk.obligation(rid, "%s: stack_pop is paired with %s[type]--" % (f.where(p), cname), ok)
        if not ok:
            chk.violation(rid, "counter:pop", f.where(p), "an opener is popped without decrementing %s[]" % cname)
    # direct truncation of the stack is only allowed where the counter is no longer read
    reads = [x for x in f.walk() if x["k"] == "ArraySubscriptExpr" and key(x["c"][0]) == cname]
    read_blocks = {blk(r) for r in reads if blk(r) is not None}
    n_tr = 0
    for x in f.walk():
        if x["k"] == "BinaryOperator" and x["op"] == "=" and key(x["c"][0]) == stack + "->size":
            n_tr += 1
            b0 = blk(x)
            reach = f.cfg.reachable(b0) - {b0} if b0 is not None else set()
            # the block itself counts if a read follows the store inside it
            later_same = any(blk(r) == b0 and pos[r["i"]][1] > pos[x["i"]][1] for r in reads if r["i"] in pos)
            bad = bool(reach & read_blocks) or later_same
            chk.obligation(rid, "%s: `%s->size = %s` truncates the stack only after the counter's last use" % (
                f.where(x), stack, key(x["c"][1])), not bad)
            if bad:
                chk.violation(rid, "counter:truncate", f.where(x), "the opener stack is truncated with `%s->size = %s` while %s[] is "
                              "still consulted afterwards: the counts go stale, the large-stack shortcut never fires again and every "
                              "unmatched closer rescans the whole stack" % (stack, f.src(x["c"][1]), cname))
    if not (C["dec"] or n_tr):
        raise AnalysisBroken("pair matcher: the stack is never shrunk?")
    # the shortcut itself still exists: a read of the counter guarded by the large-stack threshold
    ok = bool(reads)
    chk.obligation(rid, "the shortcut reads %s[] (%d reads)" % (cname, len(reads)), ok)
