"""R-LALR: exhaustive exploration of the lemon-generated block parser's
configuration space, from the constant tables compiled into parser.c.

The tables (yy_action, yy_lookahead, yy_shift_ofst, yy_reduce_ofst,
yy_default, yyFallback, yyRuleInfo) are read from the clang AST of parser.c
(initialiser lists), the numeric parameters from its #defines; the action
lookup re-implements lempar.c's yy_find_shift_action / yy_find_reduce_action /
yy_shift / yy_reduce (cross-read against /repo/src/parser.c).

Obligations, for every reachable parser stack and every real terminal:
  (a) the terminal is shifted after finitely many reductions, never YY_ERROR_ACTION;
  (b) end of input is accepted;
  (c) the stack stays below YYSTACKDEPTH;
  (d) the unchecked (NDEBUG) goto lookup in yy_find_reduce_action stays inside the tables.
"""
import os
import re

from . import compdb
from .prog import AnalysisBroken, key, strip, const_value, walk


class Tables:
    def __init__(self, P, unit="parser.c", header="parser.h"):
        u = P.units.get(unit)
        if u is None:
            raise AnalysisBroken("unit %s is gone" % unit)
        vs = {v["name"]: v for v in u.vars}
        need = ["yy_action", "yy_lookahead", "yy_shift_ofst", "yy_reduce_ofst", "yy_default", "yyRuleInfo"]
        for n in need:
            if n not in vs or not isinstance(vs[n]["init"], list):
                raise AnalysisBroken("%s: table %s not found" % (unit, n))
        self.action = vs["yy_action"]["init"]
        self.lookahead = vs["yy_lookahead"]["init"]
        self.shift_ofst = vs["yy_shift_ofst"]["init"]
        self.reduce_ofst = vs["yy_reduce_ofst"]["init"]
        self.default = vs["yy_default"]["init"]
        self.fallback = vs["yyFallback"]["init"] if "yyFallback" in vs else []
        self.rules = [(r[0], r[1]) for r in vs["yyRuleInfo"]["init"]]
        txt = open(os.path.join(compdb.REPO, "src", unit), errors="replace").read()
        self.d = {}
        for name in ("YYNOCODE", "YYNSTATE", "YYNRULE", "YY_MAX_SHIFT", "YY_MIN_SHIFTREDUCE", "YY_MAX_SHIFTREDUCE",
                     "YY_MIN_REDUCE", "YY_MAX_REDUCE", "YY_ERROR_ACTION", "YY_ACCEPT_ACTION", "YY_NO_ACTION",
                     "YY_ACTTAB_COUNT", "YY_SHIFT_COUNT", "YY_REDUCE_COUNT", "YY_SHIFT_USE_DFLT", "YY_REDUCE_USE_DFLT"):
            m = re.search(r"^\s*#\s*define\s+%s\s+\(?\s*(-?\d+)\s*\)?" % name, txt, re.M)
            if not m:
                raise AnalysisBroken("%s: #define %s not found" % (unit, name))
            self.d[name] = int(m.group(1))
        if re.search(r"^\s*#\s*define\s+YYWILDCARD", txt, re.M) or re.search(r"^\s*#\s*define\s+YYERRORSYMBOL", txt, re.M):
            raise AnalysisBroken("%s uses YYWILDCARD/YYERRORSYMBOL: explorer does not model them" % unit)
        rec = P.records.get("yyParser")
        self.stackdepth = None
        for r in u.records:
            if r["name"] == "yyParser":
                for f in r["fields"]:
                    if f[0] == "yystack" and f[2]:
                        self.stackdepth = f[2]
        if not self.stackdepth:
            raise AnalysisBroken("%s: yyParser.yystack depth not found" % unit)
        if len(self.action) != self.d["YY_ACTTAB_COUNT"] or len(self.rules) != self.d["YYNRULE"]:
            raise AnalysisBroken("%s: table sizes disagree with #defines" % unit)
        # terminal names from the generated header
        self.tname = {}
        hp = os.path.join(compdb.REPO, "src", header)
        if os.path.exists(hp):
            for m in re.finditer(r"^\s*#\s*define\s+(\w+)\s+(\d+)\s*$", open(hp).read(), re.M):
                self.tname[int(m.group(2))] = m.group(1)
        if not self.tname:
            raise AnalysisBroken("%s: no terminal #defines found" % header)
        self.nterminal = max(self.tname) + 1
        if self.nterminal > min(l for l, _ in self.rules):
            raise AnalysisBroken("%s: terminal codes overlap non-terminal codes" % header)

    def name(self, t):
        return "$end" if t == 0 else self.tname.get(t, "T%d" % t)

    def find_shift_action(self, stateno, la):
        d = self.d
        if stateno >= d["YY_MIN_REDUCE"]:
            return stateno
        if stateno > d["YY_SHIFT_COUNT"]:
            raise IndexError("state %d > YY_SHIFT_COUNT" % stateno)
        while True:
            i = self.shift_ofst[stateno] + la
            if i < 0 or i >= d["YY_ACTTAB_COUNT"] or self.lookahead[i] != la:
                if la < len(self.fallback) and self.fallback[la] != 0:
                    la = self.fallback[la]
                    continue
                return self.default[stateno]
            return self.action[i]

    def find_reduce_action(self, stateno, la):
        d = self.d
        if stateno > d["YY_REDUCE_COUNT"]:
            raise IndexError("goto lookup: state %d > YY_REDUCE_COUNT (unchecked under NDEBUG)" % stateno)
        i = self.reduce_ofst[stateno]
        if i == d["YY_REDUCE_USE_DFLT"]:
            raise IndexError("goto lookup: state %d has no goto entries" % stateno)
        i += la
        if i < 0 or i >= d["YY_ACTTAB_COUNT"] or self.lookahead[i] != la:
            raise IndexError("goto lookup: state %d symbol %d outside the action table (unchecked under NDEBUG)" % (stateno, la))
        return self.action[i]

    def feed(self, stack, tok):
        """One Parse() call.  Returns ('shift'|'accept'|'error'|'overflow'|'badgoto', new stack, steps)."""
        d = self.d
        st = list(stack)
        steps = 0
        while True:
            steps += 1
            if steps > 10000:
                return "loop", tuple(st), steps
            try:
                act = self.find_shift_action(st[-1], tok)
            except IndexError as e:
                return "badgoto:%s" % e, tuple(st), steps
            if act <= d["YY_MAX_SHIFTREDUCE"]:
                if len(st) >= self.stackdepth:
                    return "overflow", tuple(st), steps
                if act > d["YY_MAX_SHIFT"]:
                    act += d["YY_MIN_REDUCE"] - d["YY_MIN_SHIFTREDUCE"]
                st.append(act)
                return "shift", tuple(st), steps
            elif act <= d["YY_MAX_REDUCE"]:
                lhs, nrhs = self.rules[act - d["YY_MIN_REDUCE"]]
                if nrhs >= len(st):
                    return "badgoto:rule pops below the stack bottom", tuple(st), steps
                if nrhs == 0 and len(st) >= self.stackdepth:
                    return "overflow", tuple(st), steps
                base = st[:len(st) - nrhs]
                try:
                    g = self.find_reduce_action(base[-1], lhs)
                except IndexError as e:
                    return "badgoto:%s" % e, tuple(st), steps
                if g <= d["YY_MAX_SHIFTREDUCE"]:
                    if g > d["YY_MAX_SHIFT"]:
                        g += d["YY_MIN_REDUCE"] - d["YY_MIN_SHIFTREDUCE"]
                    st = base + [g]
                else:
                    if g != d["YY_ACCEPT_ACTION"]:
                        return "badgoto:goto yields action %d" % g, tuple(st), steps
                    return "accept", tuple(base), steps
            else:
                return "error", tuple(st), steps


def rhs_constants_deep(P, f, n, depth=0, seen=None):
    """rhs_constants, following values through first-party helpers: `x->type = helper(..)` contributes every constant a return
    statement of the helper (two levels) can yield, `x->type = local` the constants assigned to that local."""
    seen = seen if seen is not None else set()
    out = list(rhs_constants(n))
    s = strip(n)
    if s is None or depth > 3:
        return out
    if s["k"] == "ConditionalOperator":
        return out + rhs_constants_deep(P, f, s["c"][1], depth + 1, seen) + rhs_constants_deep(P, f, s["c"][2], depth + 1, seen)
    if s["k"] == "CallExpr" and s.get("callee"):
        h = P.resolve(f, s["callee"])
        if h is not None and P.first_party(h) and h.name not in seen:
            seen.add(h.name)
            for r in h.walk():
                if r["k"] == "ReturnStmt" and r.get("c") and r["c"][0] is not None:
                    out += rhs_constants_deep(P, h, r["c"][0], depth + 1, seen)
    elif s["k"] == "DeclRefExpr" and s.get("dk") == "Var":
        for x in f.walk():
            if x["k"] == "VarDecl" and x.get("n") == s["n"] and x.get("c") and x["c"][0] is not None:
                out += rhs_constants_deep(P, f, x["c"][0], depth + 1, seen)
            elif x["k"] == "BinaryOperator" and x["op"] == "=" and key(x["c"][0]) == s["n"]:
                out += rhs_constants_deep(P, f, x["c"][1], depth + 1, seen)
    return out


def line_alphabet(P, T):
    """Real terminals: every constant in the terminal range stored into a token's `type`
    field outside the generated parser (over-approximation of what reaches Parse())."""
    alpha = {}
    for f in P.all_funcs:
        if not P.first_party(f) or f.unit.base in ("parser.c", "opml-parser.c", "itmz-parser.c"):
            continue
        for n in f.walk():
            if n["k"] != "BinaryOperator" or n["op"] != "=":
                continue
            lhs = strip(n["c"][0])
            if lhs["k"] != "MemberExpr" or lhs["n"] != "type" or lhs.get("rec") != "token":
                continue
            for v in rhs_constants_deep(P, f, n["c"][1]):
                if 0 < v < T.nterminal:
                    alpha.setdefault(v, "%s:%d %s" % (f.base, n["l"], f.name))
    return alpha


def rhs_constants(n):
    """Constants an assigned expression may evaluate to: a constant, either arm of ?:,
    or `(x - BASE) + C` style family arithmetic (C..C+5)."""
    n = strip(n)
    if n is None:
        return []
    v = const_value(n)
    if v is not None:
        return [v]
    if n["k"] == "ConditionalOperator":
        return rhs_constants(n["c"][1]) + rhs_constants(n["c"][2])
    if n["k"] == "BinaryOperator" and n["op"] in ("+", "-"):
        a, b = n["c"]
        ca, cb = const_value(a), const_value(b)
        out = []
        # (x - c1) + c2   or   c2 + x - c1 : a six-member family starting at c2
        for c, other in ((cb, a), (ca, b)):
            if c is not None and n["op"] == "+":
                o = strip(other)
                if o is not None and o["k"] == "BinaryOperator" and o["op"] in ("-", "+"):
                    out.extend(range(c, c + 6))
        if n["op"] == "-" and cb is not None:
            o = strip(a)
            if o is not None and o["k"] == "BinaryOperator" and o["op"] == "+":
                c2 = const_value(o["c"][0])
                if c2 is None:
                    c2 = const_value(o["c"][1])
                if c2 is not None:
                    out.extend(range(c2 - cb, c2 - cb + 6))
        return out
    return []


def explore(T, alphabet):
    start = (0,)
    seen = {start: None}
    order = [start]
    trans = 0
    problems = []
    maxdepth = 1
    i = 0
    while i < len(order):
        s = order[i]
        i += 1
        for t in alphabet:
            res, ns, steps = T.feed(s, t)
            trans += 1
            if res == "shift":
                maxdepth = max(maxdepth, len(ns))
                if ns not in seen:
                    seen[ns] = (s, t)
                    order.append(ns)
                    if len(order) > 2000000:
                        raise AnalysisBroken("LALR configuration space does not close (> 2e6 stacks)")
            else:
                problems.append((res, s, t))
    return seen, order, trans, maxdepth, problems


def trace(seen, s):
    out = []
    while seen.get(s) is not None:
        p, t = seen[s]
        out.append(t)
        s = p
    return list(reversed(out))


def r_lalr(P, chk):
    rid = "R-LALR"
    chk.rule(rid, "block grammar tables accept every sequence of real line kinds: no error action, EOF accepted, "
                  "stack bounded, goto lookups in range - for every reachable parser stack")
    T = Tables(P)
    alpha = line_alphabet(P, T)
    pseudo = sorted(set(range(1, T.nterminal)) - set(alpha))
    chk.analysed[rid] = {"states": T.d["YYNSTATE"], "rules": T.d["YYNRULE"], "terminals": T.nterminal - 1,
                         "real_terminals": [T.name(t) for t in sorted(alpha)],
                         "pseudo_terminals_never_stored_outside_parser": [T.name(t) for t in pseudo],
                         "stack_limit": T.stackdepth}
    chk.floor(rid, len(alpha), 30, "real terminals (line kinds some first-party store can produce)")
    seen, order, trans, maxdepth, problems = explore(T, sorted(alpha))
    n_eof = 0
    for s in order:
        if s == (0,):
            continue
        res, ns, steps = T.feed(s, 0)
        n_eof += 1
        # after the last reduction lemon loops until the stack is empty: accept must be reached
        while res == "shift":
            res, ns, steps = T.feed(ns, 0)
        if res != "accept":
            problems.append(("eof:" + res, s, 0))
    chk.extra.update({"states": len(order), "transitions": trans + n_eof, "exhaustive": True,
                      "max_stack_depth": maxdepth})
    chk.obl[rid][0] += trans + n_eof
    chk.obl[rid][1] += trans + n_eof - len(problems)
    for s in order[1:4]:
        chk.obligation(rid, "stack %s (after lines %s): all %d terminals shift, EOF accepts" % (
            list(s), [T.name(t) for t in trace(seen, s)], len(alpha)), True)
    reported = set()
    for res, s, t in problems:
        k = "lalr:%s:state%d:%s" % (res.split(":")[0], s[-1], T.name(t))
        if k in reported:
            continue
        reported.add(k)
        lines = [T.name(x) for x in trace(seen, s)] + [T.name(t)]
        chk.violation(rid, k, "parser.c", "line-kind sequence %s drives the block parser into '%s' (stack %s): the "
                      "document is discarded by %%syntax_error/%%parse_failure or the parser state is corrupted" % (
                          " ".join(lines), res, list(s)), {"sequence": lines, "stack": list(s)})
    chk.floor(rid, len(order), 200, "reachable parser configurations")
    # (e) every rule has at least one RHS symbol => recursively parsed blocks are non-empty
    empties = [i for i, (lhs, n) in enumerate(T.rules) if n == 0]
    chk.obligation(rid, "every grammar rule has nrhs >= 1 (no block is empty, so a recursive parse never sees an empty chain)",
                   not empties)
    if empties:
        chk.violation(rid, "lalr:empty-rule", "parser.c", "grammar rules %s have an empty right-hand side; an empty "
                      "block would send $end to the initial state, which is an error action" % empties)
    # (f) the tokenizer never returns an empty line chain
    f = P.func("mmd_tokenize_string", "mmd.c")
    rets = [n for n in f.walk() if n["k"] == "ReturnStmt" and n["c"] and n["c"][0] is not None and key(n["c"][0]) == "root"]
    apps = [c for c in f.calls("token_append_child") if key(c["c"][1]) == "root"]
    if not rets or not apps:
        raise AnalysisBroken("mmd_tokenize_string: return root / token_append_child(root, ...) shape not found")
    # `type` is assigned once per iteration (type = scan(...)); the loop is left only with type == 0.
    # Partial evaluation with type == 0 from that assignment: the final `return root` must not be
    # reachable without passing token_append_child(root, line).
    from .prog import edpe_blocks
    assigns = [n for n in f.walk() if n["k"] == "BinaryOperator" and n["op"] == "=" and key(n["c"][0]) == "type"]
    pos = f.cfg.positions()
    app_blocks = {pos[c["i"]][0] for c in apps if c["i"] in pos}
    for r in rets:
        rb = f.block_of(r)
        ok = any(f.cfg.dominates(c["i"], r["c"][0]["i"]) for c in apps)
        how = "dominated by an append"
        if not ok and len(assigns) == 1 and assigns[0]["i"] in pos:
            reach = edpe_blocks(f, "type", 0, start=pos[assigns[0]["i"]][0], blocked=app_blocks)
            ok = rb not in reach or rb in app_blocks
            how = "loop exits only with type == 0, and with type == 0 every path from `type = scan()` passes an append"
        chk.obligation(rid, "%s: `return root` is reached only after a line was appended to root (%s)" % (f.where(r), how), ok)
        if not ok:
            chk.violation(rid, "lalr:empty-chain:mmd_tokenize_string", f.where(r),
                          "mmd_tokenize_string can return an empty line chain; $end in the initial parser state is an error action")
    # (g) every parse of a chain is preceded by (re)classification of all its lines
    reclass = {"deindent_block", "strip_quote_markers_from_block", "mmd_tokenize_string"}
    n_sites = 0
    for g in P.all_funcs:
        if not P.first_party(g):
            continue
        for c in g.calls("mmd_parse_token_chain"):
            n_sites += 1
            arg = key(c["c"][2])
            ok = False
            for d in g.calls():
                if d.get("callee") in ("deindent_block", "strip_quote_markers_from_block") and key(d["c"][2]) == arg \
                        and g.cfg.dominates(d["i"], c["i"]):
                    ok = True
            if not ok:
                # chain variable assigned from mmd_tokenize_string(...)
                for n in g.walk():
                    if n["k"] == "BinaryOperator" and n["op"] == "=" and key(n["c"][0]) == arg:
                        r = strip(n["c"][1])
                        if r["k"] == "CallExpr" and r.get("callee") == "mmd_tokenize_string" and g.cfg.dominates(n["i"], c["i"]):
                            ok = True
                    if n["k"] == "VarDecl" and n["n"] == arg and n["c"]:
                        r = strip(n["c"][0])
                        if r is not None and r["k"] == "CallExpr" and r.get("callee") == "mmd_tokenize_string":
                            ok = True
            chk.obligation(rid, "%s: chain `%s` given to mmd_parse_token_chain was classified by mmd_assign_line_type "
                           "(via tokenizer / deindent_block / strip_quote_markers_from_block)" % (g.where(c), arg), ok)
            if not ok:
                chk.violation(rid, "lalr:unclassified-chain:%s" % g.name, g.where(c),
                              "%s parses chain `%s` without re-classifying its lines first: line types left by parser "
                              "actions (LINE_CONTINUATION, LINE_FALLBACK ...) are not accepted in every state" % (g.name, arg))
    chk.floor(rid, n_sites, 4, "call sites of mmd_parse_token_chain")
    # ... and those helpers really classify *every* line: in their loop over the lines no pass can reach the next one without
    # calling mmd_assign_line_type (a line that keeps a type a parser action gave it is rejected by the nested parser and dropped)
    for hn in ("deindent_block", "strip_quote_markers_from_block"):
        h = P.func(hn, "mmd.c")
        hp = h.cfg.positions()
        calls = [c for c in h.calls("mmd_assign_line_type") if c.get("i") in hp]
        cb = {hp[c["i"]][0] for c in calls}
        ok = bool(calls)
        for c in calls:
            loop = next((a for a in h.ancestors(c) if a["k"] in ("WhileStmt", "ForStmt", "DoStmt")), None)
            if loop is None:
                ok = False
                continue
            cond = loop["c"][0] if loop["k"] == "WhileStmt" else loop["c"][1]
            body = loop["c"][1] if loop["k"] == "WhileStmt" else (loop["c"][3] if loop["k"] == "ForStmt" else loop["c"][0])
            if cond is None or cond.get("i") not in hp:
                continue
            head = hp[cond["i"]][0]
            body_blocks = [hp[x["i"]][0] for x in walk(body) if x.get("i") in hp]
            entries = [s_ for s_ in h.cfg.blocks[head].rsucc if s_ in body_blocks]
            for e0 in entries:
                reach = h.cfg.reachable(start=e0, blocked=cb)
                if head in reach and e0 not in cb:
                    ok = False
        chk.obligation(rid, "%s calls mmd_assign_line_type for every line of the block (no pass of its loop can skip it)" % hn, ok)
        if not ok:
            chk.violation(rid, "lalr:partial-reclass:%s" % hn, h.where(), "%s can move on to the next line without re-classifying the "
                          "current one: a continuation line keeps the LINE_CONTINUATION type a parser action gave it, which the nested "
                          "parser rejects at a block start - the paragraph is dropped" % hn)


def path_avoiding(f, avoid_ids, target):
    """True if some CFG path from entry reaches `target` stmt without executing any stmt in avoid_ids."""
    cfg = f.cfg
    pos = cfg.positions()
    tp = pos.get(target["i"])
    if tp is None and target["c"] and target["c"][0] is not None:
        tp = pos.get(target["c"][0]["i"])
    if tp is None:
        return True
    avoid = {}
    for a in avoid_ids:
        if a in pos:
            b, i = pos[a]
            avoid[b] = min(avoid.get(b, 1 << 30), i)
    seen = set()
    st = [cfg.entry]
    while st:
        b = st.pop()
        if b in seen:
            continue
        seen.add(b)
        if b == tp[0]:
            if b not in avoid or avoid[b] > tp[1]:
                return True
            continue
        if b in avoid:
            continue
        st.extend(cfg.blocks[b].rsucc)
    return False


def r_reduce(P, chk):
    """R-REDUCE: every reduce action uses the value of every right-hand-side symbol of its rule (a line or block that a
    rule consumes but does not attach to its result disappears from the tree without any diagnostic)."""
    from .prog import edpe_blocks, block_nodes, key, const_value, strip
    rid = "R-REDUCE"
    chk.rule(rid, "for every grammar rule with k >= 2 right-hand-side symbols, the reduce action reads all k stack slots "
                  "yymsp[-(k-1)] .. yymsp[0] (EDPE of yy_reduce over yyruleno; the final store into the result slot does not count)")
    T = Tables(P)
    yr = P.func("yy_reduce", "parser.c")
    if yr is None:
        raise AnalysisBroken("parser.c: yy_reduce is gone")
    n = 0
    for r, (lhs, nrhs) in enumerate(T.rules):
        if nrhs < 2:
            continue
        n += 1
        blocks = edpe_blocks(yr, "yyruleno", r)
        read = set()
        for x in block_nodes(yr, blocks):
            if x["k"] != "ArraySubscriptExpr" or key(x["c"][0]) != "yymsp":
                continue
            idx = const_value(x["c"][1])
            # climb .minor.yy0 ; a plain store `yymsp[i].minor.yy0 = v` is not a read
            top = x
            p = yr.parent(top)
            while p is not None and p["k"] in ("MemberExpr", "ImplicitCastExpr", "ParenExpr") and p["c"] and p["c"][0] is top:
                if p["k"] == "ImplicitCastExpr" and p.get("ck") == "LValueToRValue":
                    break
                top, p = p, yr.parent(p)
            if p is not None and p["k"] == "BinaryOperator" and p["op"] == "=" and p["c"][0] is top:
                continue
            read.add(idx)
        missing = [i for i in range(-(nrhs - 1), 1) if i not in read]
        chk.obligation(rid, "rule %d (%d symbols): all stack slots read" % (r, nrhs), ok=not missing, sample=(n <= 3))
        if missing:
            chk.violation(rid, "reduce:rule%d" % r, "parser.c:yy_reduce", "the action of grammar rule %d never reads stack slot(s) %s of its %d "
                          "right-hand-side symbols: the line / block matched there is dropped from the tree silently" % (
                              r, ", ".join("yymsp[%d]" % i for i in missing), nrhs))
    chk.floor(rid, n, 40, "grammar rules with two or more right-hand-side symbols")
    chk.analysed[rid] = {"rules_checked": n, "rules": len(T.rules)}


def r_opml_stack(P, chk):
    """R-OPMLSTACK: the OPML import grammar's parser stack cannot overflow on any outline the exporter can write.

    The exporter nests <outline> elements one level per heading level (H1..Hn, n = number of BLOCK_H<d> kinds) plus the flat
    Metadata/Preamble items, so re-import pushes at most n open outlines.  The tables of opml-parser.c are explored over all 15
    terminals with the number of open outlines bounded by n: every reachable stack must stay below the compiled stack size
    (lemon's %stack_overflow discards the parse - the import yields an empty document)."""
    rid = "R-OPMLSTACK"
    chk.rule(rid, "OPML import parser: for every token sequence with at most <heading levels> open outlines the LALR stack "
                  "stays below YYSTACKDEPTH (explored from the compiled tables)")
    T = Tables(P, "opml-parser.c", "opml-parser.h")
    levels = sorted(int(m.group(1)) for m in (re.match(r"BLOCK_H(\d)$", n) for n in P.enum_consts) if m)
    if not levels or levels != list(range(1, len(levels) + 1)):
        raise AnalysisBroken("BLOCK_H<d> heading kinds not found / not contiguous: %s" % levels)
    D = len(levels)
    inv = {v: k for k, v in T.tname.items()}
    opens = [inv.get(n) for n in ("OPML_OUTLINE_OPEN", "OPML_OUTLINE_METADATA", "OPML_OUTLINE_PREAMBLE")]
    close = inv.get("OPML_OUTLINE_CLOSE")
    if None in opens or close is None:
        raise AnalysisBroken("opml-parser.h: outline open/close terminals not found")
    start = ((0,), 0)
    seen = {start: None}
    order = [start]
    trans = 0
    maxdepth = 1
    over = []
    i = 0
    while i < len(order):
        s, nest = order[i]
        i += 1
        for t in range(1, T.nterminal):
            n2 = nest
            if t in opens:
                if nest >= D:
                    continue
                n2 = nest + 1
            elif t == close:
                if nest == 0:
                    continue
                n2 = nest - 1
            res, ns, steps = T.feed(s, t)
            trans += 1
            if res == "shift":
                maxdepth = max(maxdepth, len(ns))
                if (ns, n2) not in seen:
                    seen[(ns, n2)] = ((s, nest), t)
                    order.append((ns, n2))
                    if len(order) > 500000:
                        raise AnalysisBroken("OPML configuration space does not close")
            elif res == "overflow" or res.startswith("badgoto") or res == "loop":
                over.append((res, (s, nest), t))
    chk.analysed[rid] = {"unit": "opml-parser.c", "states": T.d["YYNSTATE"], "rules": T.d["YYNRULE"], "terminals": T.nterminal - 1,
                         "max_open_outlines": D, "stack_limit": T.stackdepth, "configurations": len(order),
                         "transitions": trans, "max_stack_depth": maxdepth}
    chk.floor(rid, len(order), 40, "reachable OPML parser configurations")
    chk.floor(rid, T.nterminal - 1, 15, "OPML terminals")
    chk.obl[rid][0] += trans
    chk.obl[rid][1] += trans - len(over)
    chk.obligation(rid, "opml-parser.c: deepest stack over all token sequences with <= %d open outlines is %d entries, "
                   "compiled limit %d" % (D, maxdepth, T.stackdepth), not over)
    reported = set()
    for res, st, t in over:
        k = "opmlstack:%s:state%d" % (res.split(":")[0], st[0][-1])
        if k in reported:
            continue
        reported.add(k)
        seq = [T.name(x) for x in trace(seen, st)] + [T.name(t)]
        chk.violation(rid, k, "opml-parser.c", "token sequence %s (at most %d open outlines, as the exporter writes for H1..H%d) "
                      "drives the OPML parser into '%s' at stack depth %d (limit %d): the import is discarded" % (
                          " ".join(seq), D, D, res, len(st[0]), T.stackdepth), {"sequence": seq})
