"""Verdict plumbing: violations, known findings, evidence files, exit codes."""
import json
import os
import sys
import time

from . import compdb

KNOWN = os.path.join(compdb.VERIF, "known_findings.json")
EVIDENCE = os.environ.get("MMD_EVIDENCE") or os.path.join(compdb.VERIF, "evidence")
REPLAY = os.path.join(compdb.VERIF, ".work", "replay")


def load_known():
    if not os.path.exists(KNOWN):
        return []
    return json.load(open(KNOWN)).get("findings", [])


class Check:
    """Collects what one property check analysed and found.

    violation(): a construct in /repo that breaks a rule.  `key` is a
    line-independent identity (file:function:construct) used to match
    known_findings.json entries.
    obligation(): one rule instance that was examined (ok or not) -- counted
    for evidence and for the anti-vacuity floors.
    """

    def __init__(self, pid, tier, level="other"):
        self.pid = pid
        self.tier = tier
        self.level = level
        self.t0 = time.time()
        self.viol = []
        self.obl = {}      # rule -> [n, discharged]
        self.samples = []
        self.rules = {}    # rule -> description
        self.analysed = {}
        self.assumptions = []
        self.floors = []   # (rule, got, floor)
        self.notes = []
        self.broken = []
        self.nontrivial = set()
        self.explanation = ""
        self.extra = {}

    def rule(self, rid, text):
        self.rules[rid] = text
        self.obl.setdefault(rid, [0, 0])

    def obligation(self, rid, desc, ok=True, nontrivial=True, sample=False):
        o = self.obl.setdefault(rid, [0, 0])
        o[0] += 1
        if ok:
            o[1] += 1
        if nontrivial:
            self.nontrivial.add((rid, desc))
        if sample or (len([s for s in self.samples if s.get("rule") == rid]) < 10):
            self.samples.append({"rule": rid, "instance": desc, "held": bool(ok)})

    def violation(self, rid, key, where, msg, detail=None):
        for v in self.viol:
            if v["rule"] == rid and v["key"] == key:
                v.setdefault("more_sites", []).append(where)
                return
        self.viol.append({"rule": rid, "key": key, "where": where, "msg": msg, "detail": detail or {}})

    def floor(self, rid, got, floor, what):
        self.floors.append((rid, got, floor, what))
        if got < floor:
            self.broken.append("%s: %s: matched %d instances, floor is %d (rule would be vacuous)" % (rid, what, got, floor))

    def fail_broken(self, msg):
        self.broken.append(msg)

    def finish(self):
        known = [k for k in load_known() if k.get("property") == self.pid]
        kmap = {(k["rule"], k["key"]): k for k in known}
        new = []
        listed = []
        for v in self.viol:
            k = kmap.get((v["rule"], v["key"]))
            if k is not None:
                listed.append((v, k))
            else:
                new.append(v)
        wall = time.time() - self.t0
        n_obl = sum(o[0] for o in self.obl.values())
        n_dis = sum(o[1] for o in self.obl.values())
        cov = {
            "explanation": self.explanation,
            "rules": self.rules,
            "obligations_by_rule": {r: {"instances": o[0], "held": o[1]} for r, o in self.obl.items()},
            "obligations": n_obl,
            "discharged": n_dis,
            "evaluations": max(n_obl, 1),
            "distinct_nontrivial": len(self.nontrivial),
            "rule": "one evaluation = one rule instance (call site, array access, global, token type x writer, ...) "
                    "found in /repo's current AST/CFG; non-trivial = the instance needed an argument (guard, "
                    "dominator, table lookup), distinct by (rule, construct)",
            "samples": self.samples[:80],
            "analysed": self.analysed,
            "floors": [{"rule": r, "matched": g, "floor": fl, "what": w} for r, g, fl, w in self.floors],
            "known_findings_reported": [v["key"] for v, _ in listed],
            "new_violations": [v["key"] for v in new],
            "checker_cmd": "./check %s --tier %s" % (self.pid, self.tier),
            "trusted_base": ["clang 14 parser/type checker/CFG builder", "engine/*.py rule implementations",
                             "reviewed exception tables printed under 'notes'"],
            "notes": self.notes,
            "analysis_broken": self.broken,
        }
        cov.update(self.extra)
        ev = {
            "property_id": self.pid,
            "tier": self.tier,
            "seed": int(os.environ.get("VERIF_SEED", "0") or 0),
            "level": self.level,
            "coverage": cov,
            "assumptions": self.assumptions,
            "wall_s": round(wall, 3),
            "violations": len(new),
        }
        os.makedirs(EVIDENCE, exist_ok=True)
        with open(os.path.join(EVIDENCE, self.pid + ".json"), "w") as f:
            json.dump(ev, f, indent=1, sort_keys=False)
            f.write("\n")
        for r, o in sorted(self.obl.items()):
            print("  %-18s %4d instances, %4d held   %s" % (r, o[0], o[1], self.rules.get(r, "")[:90]))
        for v, k in listed:
            print("KNOWN-FINDING: property=%s %s [%s %s] %s" % (self.pid, k.get("what", v["msg"]), v["rule"], v["where"], v["key"]))
        if self.broken:
            for b in self.broken:
                print("ANALYSIS-BROKEN property=%s %s" % (self.pid, b))
            if not new:
                return 2
            # a concrete violation was found as well: report it (exit 1); the broken rules are listed above
        if new:
            os.makedirs(REPLAY, exist_ok=True)
            for i, v in enumerate(new):
                p = os.path.join(REPLAY, "%s-%d.json" % (self.pid, i))
                with open(p, "w") as f:
                    json.dump({"property": self.pid, **v}, f, indent=1)
                print("  %s %s: %s  (key %s)" % (v["rule"], v["where"], v["msg"], v["key"]))
                print("VIOLATION property=%s replay=%s" % (self.pid, p))
            return 1
        print("OK property=%s tier=%s obligations=%d held=%d known_findings=%d wall=%.1fs" % (
            self.pid, self.tier, n_obl, n_dis, len(listed), wall))
        return 0
