"""R-DISPATCH (C02, C04): every token type the front end can put into the tree has a
non-escape branch in every writer; full writers agree on which types they know.

The "table" each writer implements is made explicit by enum-dispatch partial
evaluation (EDPE) of its export function over `t->type`, for every enumerator,
independent of whether it is written as switch / nested switch / if chain.
"""
from . import compdb
from .prog import (AnalysisBroken, key, strip, walk, const_value, enum_name, edpe_blocks, block_nodes, tok_dkey, tok_param, resolve_key)
from .lalr import rhs_constants, rhs_constants_deep

CTORS = {"token_new": 0, "token_new_parent": 1, "token_prune_graft": 2}

# (writer, type) pairs that are reviewed, with the structural reason.
REVIEWED = {
    ("odf", "CODE_FENCE"): "first child of the opening fence line; the ODF fenced-code branch exports t->child->next "
                           "through the raw exporter (which has a CODE_FENCE case), HTML/LaTeX list it defensively",
}

WRITERS = [
    ("html", "html.c", "mmd_export_token_html", True),
    ("latex", "latex.c", "mmd_export_token_latex", True),
    ("beamer", "beamer.c", "mmd_export_token_beamer", False),
    ("memoir", "memoir.c", "mmd_export_token_memoir", False),
    ("odf", "opendocument-content.c", "mmd_export_token_opendocument", True),
    ("opml", "opml.c", "mmd_export_token_opml", False),
    ("itmz", "itmz.c", "mmd_export_token_itmz", False),
]


def token_types(P):
    return dict(P.enumerators("token_types"))


def ctor_table(P):
    """Token constructors and their wrappers: function name -> index of the argument that becomes the new token's type
    (a wrapper hands one of its parameters on as that argument; two levels)."""
    if hasattr(P, "_ctor_table"):
        return P._ctor_table
    table = dict(CTORS)
    for _ in range(2):
        for h in P.all_funcs:
            if not P.first_party(h) or h.name in table:
                continue
            names = {q[0]: i for i, q in enumerate(h.params)}
            for c in h.calls():
                idx = table.get(c.get("callee"))
                if idx is None or 1 + idx >= len(c["c"]):
                    continue
                k = key(c["c"][1 + idx])
                if k in names:
                    table[h.name] = names[k]
    P._ctor_table = table
    return table


def lexer_products(P, tt):
    """Token types the tokenizer creates for each lexer return value (EDPE over `type`)."""
    inv = {v: k for k, v in tt.items()}
    scan = P.func("scan", "lexer.c")
    rets = set()
    for n in scan.walk():
        if n["k"] == "ReturnStmt" and n["c"] and n["c"][0] is not None:
            v = const_value(n["c"][0])
            if v is None:
                raise AnalysisBroken("lexer.c:scan returns a non-constant at line %d" % n["l"])
            rets.add(v)
    f = P.func("mmd_tokenize_string", "mmd.c")
    assigns = [n for n in f.walk() if n["k"] == "BinaryOperator" and n["op"] == "=" and key(n["c"][0]) == "type"]
    pos = f.cfg.positions()
    if len(assigns) != 1 or assigns[0]["i"] not in pos:
        raise AnalysisBroken("mmd_tokenize_string: expected exactly one assignment to `type`")
    start = pos[assigns[0]["i"]][0]
    out = {}
    for v in sorted(rets):
        if v == 0:
            continue
        got = set()
        blocks = edpe_blocks(f, "type", v, start=start)
        ctors = ctor_table(P)
        for n in block_nodes(f, blocks):
            if n["k"] == "CallExpr" and n.get("callee") in ctors and 1 + ctors[n["callee"]] < len(n["c"]) and \
                    (n["callee"] == "token_new" or n["callee"] not in CTORS):
                a = n["c"][1 + ctors[n["callee"]]]
                if key(a) == "type":
                    got.add(v)
                else:
                    c = const_value(a)
                    if c is None:
                        raise AnalysisBroken("mmd_tokenize_string: token_new with non-constant type at line %d" % n["l"])
                    got.add(c)
        got.discard(0)
        out[v] = got
    return rets, out


def producible(P, tt):
    """name -> set of producers ('file:function')."""
    inv = {v: k for k, v in tt.items()}
    prod = {}
    prune_bit = P.enum_consts.get("PAIRING_PRUNE_MATCH")
    if prune_bit is None:
        raise AnalysisBroken("PAIRING_PRUNE_MATCH is gone")

    def add(v, who):
        if v in inv:
            prod.setdefault(inv[v], set()).add(who)

    rets, mapping = lexer_products(P, tt)
    for v, got in mapping.items():
        for g in got:
            add(g, "lexer.c:scan->%s" % inv.get(v, v))
    n_sites = 0
    for f in P.all_funcs:
        if not P.first_party(f) or f.unit.base in ("itmz-parser.c", "opml-parser.c", "itmz-reader.c", "opml-reader.c",
                                                   "itmz-lexer.c", "opml-lexer.c", "xml.c"):
            continue
        if f.unit.base == "mmd.c" and f.name == "mmd_tokenize_string":
            continue
        who = "%s:%s" % (f.base, f.name)
        for n in f.walk():
            k = n["k"]
            if k == "CallExpr":
                cal = n.get("callee")
                ctors = ctor_table(P)
                if cal in ctors:
                    args = n["c"][1:]
                    if len(args) > ctors[cal]:
                        n_sites += 1
                        for v in rhs_constants(args[ctors[cal]]):
                            add(v, who)
                elif cal == "token_pair_engine_add_pairing":
                    args = n["c"][1:]
                    opts = const_value(args[4])
                    if opts is None:
                        raise AnalysisBroken("%s: pairing options not constant" % f.where(n))
                    n_sites += 1
                    if opts & prune_bit:
                        for v in rhs_constants(args[3]):
                            add(v, who)
            elif k == "BinaryOperator" and n["op"] == "=":
                lhs = strip(n["c"][0])
                if lhs["k"] == "MemberExpr" and lhs["n"] == "type" and lhs.get("rec") == "token":
                    n_sites += 1
                    for v in rhs_constants_deep(P, f, n["c"][1]):
                        add(v, who)
    return prod, n_sites, len(rets)


def classify(f, v):
    """Effect class of writer function f on token type value v."""
    blocks = edpe_blocks(f, tok_dkey(f), v)
    tp = tok_param(f)
    esc = None
    deleg = []
    emits = False
    descends = False
    for n in block_nodes(f, blocks):
        if n["k"] != "CallExpr":
            continue
        c = n.get("callee")
        if c == "fprintf" and len(n["c"]) > 1 and key(n["c"][1]) == "stderr":
            esc = esc or ("diagnostic", n["l"])
        elif c in ("exit", "abort", "_exit"):
            esc = ("terminator", n["l"])
        elif c and c.startswith("mmd_export_token_") and "tree" not in c and any(key(a) == tp for a in n["c"][1:]):
            deleg.append(c)
        elif c and c.startswith("mmd_export_token_tree"):
            descends = True
        elif c and (c.startswith("d_string_append") or c.startswith("mmd_print_") or c.startswith("print_token")
                    or c.startswith("mmd_export_")):
            emits = True
        elif c and c in f.unit.funcs and f.unit.funcs[c] is not f:
            # a helper of this unit the branch was extracted into: what it may emit / descend into counts for the branch
            e2, d2 = _helper_effects(f.unit, f.unit.funcs[c], 0, set())
            emits = emits or e2
            descends = descends or d2
    return esc, deleg, emits, descends


def _helper_effects(unit, h, depth, seen):
    """(may emit, may descend) of a same-unit helper, following same-unit calls three levels."""
    if h.name in seen or depth > 3:
        return False, False
    seen.add(h.name)
    emits = descends = False
    for n in h.calls():
        c = n.get("callee")
        if not c:
            continue
        if c.startswith("mmd_export_token_tree"):
            descends = True
        elif c.startswith(("d_string_append", "mmd_print_", "print_token", "mmd_export_")):
            emits = True
        elif c in unit.funcs:
            e2, d2 = _helper_effects(unit, unit.funcs[c], depth + 1, seen)
            emits = emits or e2
            descends = descends or d2
    return emits, descends


def retired_before_export(P, chk, rid, tt):
    """Token types that are retyped before any writer runs: BLOCK_DEF_* via process_definition_block."""
    f = P.func("process_definition_block", "writer.c")
    ex = P.func("mmd_engine_export_token_tree", "writer.c")
    # (b) an unconditional `block->type = BLOCK_EMPTY` post-dominates the function entry
    stores = [n for n in f.walk() if n["k"] == "BinaryOperator" and n["op"] == "=" and key(n["c"][0]) == "block->type"
              and enum_name(n["c"][1]) == "BLOCK_EMPTY"]
    pos = f.cfg.positions()
    okb = any(s["i"] in pos and f.cfg.block_postdominates(pos[s["i"]][0], f.cfg.entry) for s in stores)
    # (c) process_definition_stack dominates every writer call in mmd_engine_export_token_tree
    pds = list(ex.calls("process_definition_stack"))
    wcalls = [c for c in ex.calls() if (c.get("callee") or "").startswith("mmd_export_token_tree")]
    okc = bool(pds) and bool(wcalls) and all(any(ex.cfg.dominates(p["i"], w["i"]) for p in pds) for w in wcalls)
    # process_definition_stack applies process_definition_block to every element of e->definition_stack
    st = P.func("process_definition_stack", "writer.c")
    okd = any(True for _ in st.calls("process_definition_block"))
    # (a) every creation of a BLOCK_DEF_* token in the parser is followed by a push on definition_stack
    yr = P.func("yy_reduce", "parser.c")
    retired = set()
    oka = True
    created = []
    for f2 in P.all_funcs:
        if not P.first_party(f2):
            continue
        for n in f2.calls("token_new_parent"):
            en = enum_name(n["c"][2])
            if en and en.startswith("BLOCK_DEF_"):
                created.append((f2, n, en))
    for f2, n, en in created:
        ok = False
        if f2 is yr:
            b = f2.block_of(n)
            for p in f2.calls("stack_push"):
                if key(p["c"][1]).endswith("definition_stack") and f2.cfg.block_postdominates(f2.block_of(p), b):
                    ok = True
        if ok:
            retired.add(en)
        else:
            oka = False
    # any other producer of BLOCK_DEF_* (a ->type store) defeats the argument for that type
    if okb and okc and okd:
        chk.obligation(rid, "BLOCK_DEF_* blocks (%s) are registered on definition_stack at creation, and "
                       "process_definition_stack retypes every one to BLOCK_EMPTY before any writer runs" % sorted(retired), True)
        return retired
    chk.obligation(rid, "BLOCK_DEF_* retirement before export could not be established "
                   "(store post-dominates: %s, stack processed before writers: %s)" % (okb, okc), False, sample=True)
    return set()


def r_dispatch(P, chk, prop):
    rid = "R-DISPATCH"
    chk.rule(rid, "every producible token type has a non-escape branch in every writer (EDPE over t->type); "
                  "the three full writers agree on the set of types they know")
    tt = token_types(P)
    prod, n_sites, n_lex = producible(P, tt)
    chk.floor(rid, len(prod), 140, "producible token types")
    chk.floor(rid, n_sites, 150, "token type producer sites (constructors, ->type stores, pairings)")
    retired = retired_before_export(P, chk, rid, tt)
    funcs = {}
    for w, unit, fn, full in WRITERS:
        funcs[w] = P.func(fn, unit)
    table = {}

    def cls(w, v):
        k = (w, v)
        if k not in table:
            table[k] = classify(funcs[w], v)
        return table[k]

    def escape(w, v, depth=0):
        esc, deleg, emits, desc = cls(w, v)
        if esc:
            return esc
        for d in deleg:
            for w2, unit, fn, full in WRITERS:
                if fn == d and depth < 3:
                    e2 = escape(w2, v, depth + 1)
                    if e2:
                        return e2
        return None

    names = sorted(prod, key=lambda k: tt[k])
    full_writers = [w for w, _, _, full in WRITERS if full]
    known_by = {}
    for name in names:
        v = tt[name]
        known_by[name] = [w for w in full_writers if not escape(w, v)]
    n_ok = 0
    for w, unit, fn, full in WRITERS:
        for name in names:
            v = tt[name]
            e = escape(w, v)
            desc = "%s x %s" % (w, name)
            if not e:
                chk.obligation(rid, desc + ": handled", True, sample=False)
                n_ok += 1
                continue
            if name in retired:
                chk.obligation(rid, desc + ": retyped to BLOCK_EMPTY before export", True)
                continue
            if not known_by[name]:
                # no full writer knows it: it must not be able to reach a writer at all
                continue
            if (w, name) in REVIEWED:
                chk.obligation(rid, desc + ": reviewed (%s)" % REVIEWED[(w, name)], True)
                note = "R-DISPATCH reviewed %s x %s: %s" % (w, name, REVIEWED[(w, name)])
                if note not in chk.notes:
                    chk.notes.append(note)
                continue
            chk.obligation(rid, desc, False)
            f = funcs[w]
            chk.violation(rid, "%s x %s" % (w, name), "%s:%d" % (f.base, e[1]),
                          "writer %s takes the '%s' escape for token type %s (value %d), which %s handle(s); produced by %s: "
                          "the token's text is dropped from the %s output" % (
                              fn, e[0], name, v, ",".join(known_by[name]), sorted(prod[name])[:3], w),
                          {"producers": sorted(prod[name])})
    # types nobody knows
    for name in names:
        if known_by[name] or name in retired:
            continue
        chk.obligation(rid, "type %s is produced (%s) but no full writer has a branch for it" % (name, sorted(prod[name])[:2]),
                       name in UNREACHED, sample=True)
        if name in UNREACHED:
            note = "R-DISPATCH type %s never reaches a main dispatcher: %s" % (name, UNREACHED[name])
            if note not in chk.notes:
                chk.notes.append(note)
            continue
        chk.violation(rid, "nowriter x %s" % name, sorted(prod[name])[0],
                      "token type %s is produced by %s but no writer has a branch for it" % (name, sorted(prod[name])[:3]))
    chk.analysed[rid] = {"producible_types": len(names), "lexer_return_values": n_lex, "producer_sites": n_sites,
                         "writers": [w for w, _, _, _ in WRITERS], "matrix_cells": len(names) * len(WRITERS),
                         "retired_before_export": sorted(retired)}
    return prod, table, funcs, names, tt, retired


# Producible types that cannot reach a writer's main dispatcher, with the structural reason.
UNREACHED = {
    "CODE_FENCE_LINE": "type of the closing-fence *line* token inside BLOCK_CODE_FENCED; every writer's fenced-code branch "
                       "consumes the block's children itself (raw exporter / source span)",
}


# Types that are markup-only in one format: (writer, type) -> reason
_RAW_HTML = "raw HTML passthrough exists only in the HTML writer; the property's premise excludes raw HTML"
TEXT_REVIEWED = {
    ("latex", "BLOCK_HTML"): _RAW_HTML, ("odf", "BLOCK_HTML"): _RAW_HTML,
    ("latex", "PAIR_HTML_COMMENT"): _RAW_HTML, ("odf", "PAIR_HTML_COMMENT"): _RAW_HTML,
}


def r_dispatch_text(P, chk, disp):
    """C04: no full writer silently drops a type whose HTML branch emits text or descends."""
    rid = "R-DISPATCH/text"
    chk.rule(rid, "if the HTML branch for a token type emits output or descends into children, the LaTeX and "
                  "OpenDocument branches do too (no break-only / escape branch)")
    prod, table, funcs, names, tt, retired = disp
    n = 0
    for name in names:
        v = tt[name]
        if name in retired:
            continue
        h = table.get(("html", v)) or classify(funcs["html"], v)
        if h[0] or not (h[2] or h[3] or h[1]):
            continue
        for w in ("latex", "odf"):
            c = table.get((w, v)) or classify(funcs[w], v)
            n += 1
            ok = not c[0] and (c[2] or c[3] or c[1])
            if not ok and (w, name) in TEXT_REVIEWED:
                chk.obligation(rid, "%s x %s: reviewed (%s)" % (w, name, TEXT_REVIEWED[(w, name)]), True)
                continue
            chk.obligation(rid, "%s x %s emits or descends like html" % (w, name), ok, sample=False)
            if not ok:
                chk.violation(rid, "%s x %s" % (w, name), funcs[w].where(),
                              "HTML emits output for token type %s but writer %s has a %s branch: text dropped" % (
                                  name, w, "escape" if c[0] else "silent (break-only)"))
    chk.floor(rid, n, 200, "text-bearing (writer, type) cells")


# ---------------------------------------------------------------------------
# R-SIBLING: the OPML and ITMZ outline writers are copies of one another; per token type they must compute the
# same source ranges and make the same helper calls (only the markup literals differ)

SIBLING_REVIEWED = {
    ("mmd_export_header_opml", "MARKER_SETEXT_1"): "ITMZ trims the Setext underline by moving `stop`, OPML by stepping `walker` back; same text range",
    ("mmd_export_header_opml", "MARKER_SETEXT_2"): "as MARKER_SETEXT_1",
}
# only functions that print source ranges are compared


def _print_summary(h, depth=0, seen=None):
    """Source-printer calls made by helper h (transitively through same-unit helpers), as (start key, length key) over h's
    parameter names."""
    seen = seen if seen is not None else set()
    if h.name in seen or depth > 3:
        return []
    seen.add(h.name)
    out = []
    for c in h.calls():
        cal = c.get("callee") or ""
        if cal.startswith("mmd_print_source_") and len(c["c"]) >= 5:
            out.append(tuple([resolve_key(h, a) for a in c["c"][2:5]]))
        else:
            g = h.unit.funcs.get(cal)
            if g is not None and g is not h:
                for trip in _print_summary(g, depth + 1, seen):
                    out.append(tuple(_subst(x, g, c) for x in trip))
    return out


def _subst(expr_key, h, call):
    """Replace h's parameter names in expr_key by the argument keys of `call`."""
    import re as _re
    m = {p[0]: key(call["c"][1 + i]) for i, p in enumerate(h.params) if 1 + i < len(call["c"])}
    return _re.sub(r"(?<![\w>.])([A-Za-z_]\w*)\b", lambda mo: m.get(mo.group(1), mo.group(1)), expr_key)


def _print_calls(f):
    """(call node, source key, start key, length key) for every source-printer call in f, direct or through a same-unit
    helper that hands its parameters on."""
    out = []
    for c in f.calls():
        cal = c.get("callee") or ""
        if cal.startswith("mmd_print_source_") and len(c["c"]) >= 5:
            out.append((c, [c["c"][3], c["c"][4]], None))
        else:
            h = f.unit.funcs.get(cal)
            if h is not None and h is not f and not cal.startswith("mmd_export_") and not cal.startswith("mmd_outline_"):
                for trip in _print_summary(h):
                    out.append((c, None, tuple(_subst(x, h, c) for x in trip[1:])))
    return out


def _range_vars(f):
    """Locals that carry the source range handed to the format's source printer (mmd_print_source_*)."""
    out = set()
    for c, args, _ in _print_calls(f):
        for a in (args or ()):
            for y in walk(a):
                if y["k"] == "DeclRefExpr" and y.get("dk") == "Var":
                    out.add(y["n"])
    return out


def _sibling_sig(f, v, dkey):
    """What source range does f print for token type v?  The values assigned to the range variables and the
    arguments of the source-printer calls, in the blocks reachable for v (markup literals, nesting-level
    bookkeeping and helper structure are deliberately ignored: they may differ or be refactored freely)."""
    import re as _re
    from .prog import single_assignment_locals
    blocks = edpe_blocks(f, dkey, v)
    rv = _range_vars(f) - set(single_assignment_locals(f))      # hoisted once-assigned locals are substituted into the calls
    prints = {id(c): (args, sub) for c, args, sub in _print_calls(f)}
    out = set()
    al = _alpha_map(f)
    norm = lambda s: _re.sub(r"(?<![\w>.])([A-Za-z_]\w*)\b", lambda mo: al.get(mo.group(1), mo.group(1)),
                             _re.sub(r"opml|itmz", "FMT", s)).replace(" ", "")
    for n in block_nodes(f, blocks):
        if n["k"] == "CallExpr" and id(n) in prints:
            args, sub = prints[id(n)]
            if args is not None:
                out.add("print(%s)" % ",".join(norm(resolve_key(f, a)) for a in args))
            else:
                out.add("print(%s)" % ",".join(norm(x) for x in sub))
        elif n["k"] == "BinaryOperator" and n["op"] == "=" and key(n["c"][0]) in rv:
            out.add("set %s=%s" % (norm(key(n["c"][0])), norm(resolve_key(f, n["c"][1]))))
        elif n["k"] == "CompoundAssignOperator" and key(n["c"][0]) in rv:
            out.add("set %s%s%s" % (norm(key(n["c"][0])), n["op"], norm(resolve_key(f, n["c"][1]))))
    return out


def _alpha_map(f):
    """Local names -> a placeholder built from the declared type, parameters -> their position: renaming a variable in one
    sibling is not a difference."""
    m = {}
    for i, p in enumerate(f.params):
        m[p[0]] = "$p%d" % i
    for x in f.walk():
        if x["k"] == "VarDecl" and x.get("n") and x["n"] not in m:
            m[x["n"]] = "$" + (x.get("t") or "?").replace("const ", "").replace(" ", "")
    return m


def _type_tests(f):
    """Does f test a token's ->type other than through a switch (if-chains, predicate helpers)?"""
    for n in f.walk():
        if n["k"] == "BinaryOperator" and n["op"] in ("==", "!=") and (key(n["c"][0]).endswith("->type") or key(n["c"][1]).endswith("->type")):
            return True
        if n["k"] == "CallExpr" and any(key(a).endswith("->type") for a in n["c"][1:]) and n.get("callee") in f.unit.funcs:
            return True
    return False


def r_sibling_outline(P, chk):
    rid = "R-SIBLING"
    chk.rule(rid, "the OPML and ITMZ outline writers (copies of one another) print the same source ranges for every token type "
                  "(values of the range variables and arguments of the source printer, after substituting hoisted locals and "
                  "printing helpers); a pair is compared only while both sides keep the same dispatch form")
    uo, ui = P.units.get("opml.c"), P.units.get("itmz.c")
    if uo is None or ui is None:
        raise AnalysisBroken("opml.c / itmz.c gone")
    tt = token_types(P)
    pairs = [(n, n.replace("opml", "itmz")) for n in sorted(uo.funcs) if "opml" in n and n.replace("opml", "itmz") in ui.funcs]
    n_cells = 0
    skipped = []
    for a, b in pairs:
        fa, fb = uo.funcs[a], ui.funcs[b]
        if not _print_calls(fa) and not _print_calls(fb):
            continue
        dka = [key(n["c"][0]) for n in fa.walk() if n["k"] == "SwitchStmt" and key(n["c"][0]).endswith("->type")]
        dkb = [key(n["c"][0]) for n in fb.walk() if n["k"] == "SwitchStmt" and key(n["c"][0]).endswith("->type")]
        if not dka and not dkb:
            if _type_tests(fa) or _type_tests(fb):
                skipped.append("%s/%s (type dispatch no longer written as a switch on either side)" % (a, b))
                continue
            sa, sb = _sibling_sig(fa, -1, "<none>"), _sibling_sig(fb, -1, "<none>")
            n_cells += 1
            ok = sa == sb
            chk.obligation(rid, "%s / %s: same assignments and helper calls" % (a, b), ok)
            if not ok:
                chk.violation(rid, "sibling:%s" % a, fb.where(), "%s and %s differ beyond markup literals: only in OPML %s, only in ITMZ %s" % (
                    a, b, sorted(sa - sb)[:3], sorted(sb - sa)[:3]))
            continue
        ama, amb = _alpha_map(fa), _alpha_map(fb)
        if not dka or not dkb or ama.get(dka[0].split("->")[0], dka[0]) != amb.get(dkb[0].split("->")[0], dkb[0]) or \
                sorted(ama.get(x, x) for x in _range_vars(fa)) != sorted(amb.get(x, x) for x in _range_vars(fb)):
            # one sibling was restructured (different dispatch form or different locals): a clone comparison would only
            # report the restructuring, not a difference in what is printed
            skipped.append("%s/%s (the two no longer share dispatch form and range locals)" % (a, b))
            continue
        for name, v in tt.items():
            sa, sb = _sibling_sig(fa, v, dka[0]), _sibling_sig(fb, v, dkb[0])
            n_cells += 1
            if sa == sb:
                continue
            if (a, name) in SIBLING_REVIEWED:
                chk.obligation(rid, "%s x %s: reviewed difference (%s)" % (a, name, SIBLING_REVIEWED[(a, name)]), True)
                continue
            chk.obligation(rid, "%s / %s x %s" % (a, b, name), False)
            chk.violation(rid, "sibling:%s:%s" % (a, name), fb.where(), "for %s tokens %s and %s compute different things (only in OPML: "
                          "%s; only in ITMZ: %s): one of the two outline formats loses or duplicates source text" % (
                              name, a, b, sorted(sa - sb)[:3], sorted(sb - sa)[:3]))
    chk.obl[rid][0] += n_cells
    chk.obl[rid][1] += n_cells
    for sk in skipped:
        note = "R-SIBLING not comparable, skipped: " + sk
        chk.obligation(rid, note, True, nontrivial=False)
        if note not in chk.notes:
            chk.notes.append(note)
    chk.analysed[rid] = {"pairs": len(pairs), "cells": n_cells, "not_comparable": skipped}
    if not skipped:
        chk.floor(rid, len(pairs), 6, "OPML/ITMZ sibling function pairs")
        chk.floor(rid, n_cells, 120, "function x token-type cells compared")


def r_linestrip(P, chk):
    """Line kinds that the parser's reduce actions assign to a line (continuation lines inside text blocks) must be
    unwrapped by strip_line_tokens_from_block, not kept as an opaque child: no writer has a branch for them."""
    from .lalr import Tables, rhs_constants
    rid = "R-LINESTRIP"
    chk.rule(rid, "every line kind the parser actions retype lines to is unwrapped into inline tokens by "
                  "strip_line_tokens_from_block (it never reaches the writers as a line token)")
    T = Tables(P)
    yr = P.func("yy_reduce", "parser.c")
    retyped = {}
    for x in yr.walk():
        if x["k"] == "BinaryOperator" and x["op"] == "=":
            l = strip(x["c"][0])
            if l is not None and l["k"] == "MemberExpr" and l["n"] == "type" and l.get("rec") == "token":
                for v in rhs_constants(x["c"][1]):
                    if 0 < v < T.nterminal:
                        retyped.setdefault(v, x["l"])
    if not retyped:
        raise AnalysisBroken("parser.c: no line retyping found")
    f = P.func("strip_line_tokens_from_block", "mmd.c")
    # (b) no line kind is unwrapped in one context and kept raw in another: a kind the function knows how to unwrap
    #     must be unwrapped or retyped (`l->type = ...`) on every path
    retype_blocks = set()
    pos = f.cfg.positions()
    for x in f.walk():
        if x["k"] == "BinaryOperator" and x["op"] == "=" and key(x["c"][0]) == "l->type" and x["i"] in pos:
            retype_blocks.add(pos[x["i"]][0])
    n_kinds = 0
    for v in range(1, T.nterminal):
        name = T.name(v)
        if not name.startswith("LINE_"):
            continue
        n_kinds += 1
        blocks = edpe_blocks(f, "l->type", v, blocked=retype_blocks)
        calls = [(n.get("callee"), [key(a) for a in n["c"][1:]]) for n in block_nodes(f, blocks - retype_blocks) if n["k"] == "CallExpr"]
        kept = any(c == "token_append_child" and len(a) > 1 and a[1] == "l" for c, a in calls)
        unwrapped = any(c == "token_append_child" and len(a) > 1 and a[1] == "l->child" for c, a in calls)
        ok = not (kept and unwrapped)
        chk.obligation(rid, "%s is handled uniformly (%s)" % (name, "unwrapped" if unwrapped else ("kept" if kept else "retyped/other")), ok,
                       nontrivial=unwrapped, sample=False)
        if not ok:
            chk.violation(rid, "linestrip:mixed:%s" % name, f.where(), "strip_line_tokens_from_block unwraps %s lines in some blocks but keeps "
                          "them as raw line tokens in others: no writer has a branch for that line kind ('Unknown token type: %d', text "
                          "dropped)" % (name, v))
    chk.floor(rid, n_kinds, 20, "line kinds (parser terminals)")
    for v, line in sorted(retyped.items()):
        blocks = edpe_blocks(f, "l->type", v)
        calls = [(n.get("callee"), [key(a) for a in n["c"][1:]]) for n in block_nodes(f, blocks) if n["k"] == "CallExpr"]
        kept = any(c == "token_append_child" and len(a) > 1 and a[1] == "l" for c, a in calls)
        ok = not kept
        chk.obligation(rid, "%s (assigned at parser.c:%d) is unwrapped, not kept as a block child" % (T.name(v), line), ok)
        if not ok:
            chk.violation(rid, "linestrip:%s" % T.name(v), f.where(), "strip_line_tokens_from_block keeps %s lines (assigned by the parser "
                          "at parser.c:%d) as opaque children: every writer takes the 'Unknown token type: %d' escape and the line's "
                          "text is dropped" % (T.name(v), line, v))
    # (c) a line kind the function deliberately leaves on a row it keeps (`l->type = .. ? TABLE_ROW : LINE_TABLE_SEPARATOR`: the
    #     header's separator row) is retired by the writers' shared table helper on every path that found the row, and every
    #     full writer runs that helper in its table branch
    kept_kinds = set()
    for x in f.walk():
        if x["k"] == "BinaryOperator" and x["op"] == "=" and key(x["c"][0]) == "l->type":
            for v in rhs_constants(x["c"][1]):
                if 0 < v < T.nterminal and T.name(v).startswith("LINE_"):
                    kept_kinds.add(v)
    if kept_kinds:
        h = P.func("read_table_column_alignments", "writer.c")
        tt = token_types(P)
        retire = [x for x in h.walk() if x["k"] == "BinaryOperator" and x["op"] == "=" and key(x["c"][0]).endswith("->type")
                  and any(c2 >= T.nterminal for c2 in rhs_constants(x["c"][1])) and x.get("i") in h.cfg.positions()]
        hp = h.cfg.positions()
        rblocks = {hp[x["i"]][0] for x in retire}
        nullable = {key(x["c"][0]).split("->")[0] for x in retire}

        def nonnull(t_):
            t2 = strip(t_)
            if t2 is None:
                return None
            if t2["k"] == "BinaryOperator" and t2["op"] in ("==", "!=") and key(t2["c"][0]) in nullable and const_value(t2["c"][1]) == 0:
                return t2["op"] == "!="
            if t2["k"] == "DeclRefExpr" and t2["n"] in nullable:
                return True
            return None
        reach = edpe_blocks(h, "?none", 0, extra_decide=nonnull, blocked=rblocks)
        ok = bool(retire) and h.cfg.exit not in reach
        names = "/".join(sorted(T.name(v) for v in kept_kinds))
        chk.obligation(rid, "%s (left on the header's separator row) is retyped by read_table_column_alignments on every path that "
                       "found the row" % names, ok)
        if not ok:
            chk.violation(rid, "linestrip:retire:%s" % names, h.where(), "read_table_column_alignments can return without retyping the "
                          "separator row (%s): the writers then export a raw line token ('Unknown token type', text dropped)" % names)
        for w, unit, fn, full in WRITERS:
            if not full:
                continue
            g = P.func(fn, unit)
            blocks = edpe_blocks(g, tok_dkey(g), tt["BLOCK_TABLE"])
            pos_g = g.cfg.positions()
            calls = [n for n in block_nodes(g, blocks) if n["k"] == "CallExpr" and n.get("callee") == h.name]
            tp = tok_param(g)
            desc = [n for n in block_nodes(g, blocks) if n["k"] == "CallExpr" and (n.get("callee") or "").startswith("mmd_export_token_tree")
                    and any(resolve_key(g, a) == tp + "->child" for a in n["c"][1:])]
            okw = bool(calls) and bool(desc) and all(any(g.cfg.dominates(c["i"], d["i"]) for c in calls) for d in desc)
            if not okw:
                # the table branch was extracted into a helper of the unit: the same order must hold inside it
                for n2 in block_nodes(g, blocks):
                    if n2["k"] != "CallExpr" or not n2.get("callee"):
                        continue
                    hh = g.unit.funcs.get(n2["callee"])
                    if hh is None or hh is g:
                        continue
                    hcalls = [x for x in hh.calls(h.name)]
                    htoks = [q[0] for q in hh.params if "token" in q[1]]
                    hdesc = [x for x in hh.calls() if (x.get("callee") or "").startswith("mmd_export_token_tree")
                             and any(resolve_key(hh, a) in [t2 + "->child" for t2 in htoks] for a in x["c"][1:])]
                    if hcalls and hdesc and all(any(hh.cfg.dominates(c["i"], d["i"]) for c in hcalls) for d in hdesc):
                        okw = True
            chk.obligation(rid, "%s: the table branch runs read_table_column_alignments before it exports the rows" % fn, okw)
            if not okw:
                chk.violation(rid, "linestrip:retire:%s" % fn, g.where(), "%s exports a table's rows without read_table_column_alignments "
                              "having retired the separator row first" % fn)
