"""R-BALANCE (C04 nesting clause, C08): within a writer, every element / environment that some branch opens is closed
under the same conditions.

For every dispatcher (`switch (t->type)` in an mmd_export_token_* function) the statements of each case section are
scanned for printed string literals (one level of leaf helper followed).  Literals are parsed for opening and closing
tags (`<name ...>` / `</name>`; `\\begin{name}` / `\\end{name}`); element names that are never closed anywhere in the
unit are void / self-closing by construction and ignored.  Each event carries its guard context: the normalised
conditions (resolve_key + polarity, nested `case` labels) of the `if`s and inner switches that enclose it inside the
section.  Per section and name, opens and closes must have the same multiset of contexts, after merging an event that
occurs under both polarities of one condition.  What is left over (the START/STOP token pairs: `<em>` in EMPH_START,
`</em>` in EMPH_STOP) must cancel across the sections of the same function.

This decides a necessary condition only: balance of the tags a branch emits itself, under correlated guards.  It does
not decide nesting order across the tree (that follows from the recursion structure) nor tags assembled from data.
"""
import re

from .prog import key, strip, walk, resolve_key

XML_OPEN = re.compile(r"<([A-Za-z][A-Za-z0-9:-]*)((?:\s[^<>]*)?)(>|$)")
XML_CLOSE = re.compile(r"</([A-Za-z][A-Za-z0-9:-]*)>")
TEX_OPEN = re.compile(r"\\begin\{([A-Za-z*]+)\}")
TEX_CLOSE = re.compile(r"\\end\{([A-Za-z*]+)\}")

DISPATCHERS = [
    ("html.c", "mmd_export_token_html", "xml"), ("html.c", "mmd_export_token_html_raw", "xml"),
    ("opendocument-content.c", "mmd_export_token_opendocument", "xml"),
    ("opendocument-content.c", "mmd_export_token_opendocument_raw", "xml"),
    ("opendocument-content.c", "mmd_export_token_opendocument_math", "xml"),
    ("latex.c", "mmd_export_token_latex", "tex"), ("latex.c", "mmd_export_token_latex_raw", "tex"),
    ("latex.c", "mmd_export_token_latex_tt", "tex"),
    ("beamer.c", "mmd_export_token_beamer", "tex"), ("memoir.c", "mmd_export_token_memoir", "tex"),
]

# (function, first case label of the section, element) -> why opens and closes legitimately sit under different guards
REVIEWED = {
    ("mmd_export_token_html", "BLOCK_DEFLIST", "dl"):
        "consecutive definition lists are merged: opened unless the previous block is a DEFLIST, closed unless the next one is",
    ("mmd_export_token_latex", "BLOCK_DEFLIST", "description"):
        "consecutive definition lists are merged: opened unless the previous block is a DEFLIST, closed unless the next one is",
    ("mmd_export_token_html", "BLOCK_PARA", "p"):
        "the closing </p> is additionally gated by scratch->close_para, which the footnote list exporter clears when it has "
        "already closed the paragraph together with the back-link",
    ("mmd_export_token_html", "BLOCK_LIST_ITEM_TIGHT", "p"):
        "same close_para gate as BLOCK_PARA (falls through into it)",
}


def _literal(call):
    cal = call.get("callee")
    if cal in ("d_string_append", "d_string_append_c_array", "d_string_append_printf") and len(call["c"]) > 2:
        a = strip(call["c"][2])
        if a is not None and a["k"] == "StringLiteral":
            return a["s"]
    return None


def _events_in_literal(s, mode):
    out = []
    if mode == "tex":
        for m in TEX_OPEN.finditer(s):
            out.append((m.start(), "o", m.group(1)))
        for m in TEX_CLOSE.finditer(s):
            out.append((m.start(), "c", m.group(1)))
    else:
        for m in XML_OPEN.finditer(s):
            if m.group(3) == ">" and (m.group(2) or "").rstrip().endswith("/"):
                continue        # <name ... />
            out.append((m.start(), "o", m.group(1)))
        for m in XML_CLOSE.finditer(s):
            out.append((m.start(), "c", m.group(1)))
    return [(k, n) for _, k, n in sorted(out)]


def _sections(f, sw):
    """[(labels, [statements])] of a switch body: a section runs from a group of case labels to the next label."""
    def flat(stmts):
        for st in stmts:
            if st is None:
                continue
            if st["k"] in ("CaseStmt", "DefaultStmt"):
                yield "label", st
                sub = [c for c in st["c"] if c is not None]
                if sub:
                    for y in flat([sub[-1]]):
                        yield y
            else:
                yield "stmt", st
    body = sw["c"][1]
    labels, sect, out = [], [], []
    for kind, st in flat(body["c"] if body["k"] == "CompoundStmt" else [body]):
        if kind == "label":
            if sect:
                out.append((labels, sect))
                labels, sect = [], []
            labels.append(st.get("en") or ("default" if st["k"] == "DefaultStmt" else str(st.get("v"))))
        else:
            sect.append(st)
    if sect:
        out.append((labels, sect))
    return out


def _cond_version(f, cond, if_node, stop, first_line):
    """How many times the locals a condition reads were (re)assigned in this section before the `if`: two tests with the
    same text are the same condition only if nothing they read was changed in between."""
    names = {y["n"] for y in walk(cond) if y["k"] == "DeclRefExpr" and y.get("dk") == "Var"}
    if not names:
        return ""
    cnt = 0
    for x in walk(stop):
        if (x["k"] == "BinaryOperator" and x["op"] == "=" or x["k"] == "CompoundAssignOperator" or
                (x["k"] == "UnaryOperator" and x["op"] in ("post++", "pre++", "post--", "pre--"))) and key(x["c"][0]) in names:
            if first_line <= x["l"] < if_node["l"] or (x["l"] == if_node["l"] and x.get("b", 0) < if_node.get("b", 0)):
                cnt += 1
    return "" if cnt == 0 else "@%d" % cnt


def _ends_in_jump(st):
    if st is None:
        return False
    if st["k"] in ("BreakStmt", "ReturnStmt", "ContinueStmt", "GotoStmt"):
        return True
    if st["k"] == "CompoundStmt":
        body = [c for c in st["c"] if c is not None]
        return bool(body) and _ends_in_jump(body[-1])
    return False


def _atoms(f, cond, pol, if_node, stop, first_line):
    """A guard as a list of (atomic condition, polarity): `!E`, `E == NULL`, `E != 0` fold into the polarity, a conjunction that
    holds / a disjunction that fails splits into its operands - so that `if (p && p->len > 1)` and
    `if (p == NULL) break; if (p->len > 1)` describe the same guard."""
    from .prog import const_value
    c = strip(cond)
    if c is None:
        return []
    if c["k"] == "UnaryOperator" and c["op"] == "!":
        return _atoms(f, c["c"][0], not pol, if_node, stop, first_line)
    if c["k"] == "BinaryOperator" and c["op"] in ("==", "!=") and (const_value(c["c"][1]) == 0 or const_value(c["c"][0]) == 0):
        other = c["c"][0] if const_value(c["c"][1]) == 0 else c["c"][1]
        so = strip(other)
        # only fold tests of pointers / flags, not arithmetic comparisons with zero of calls such as strcmp(..) == 0
        if so is not None and so["k"] in ("DeclRefExpr", "MemberExpr"):
            return _atoms(f, other, pol if c["op"] == "!=" else not pol, if_node, stop, first_line)
    has_else = if_node["k"] == "IfStmt" and len(if_node["c"]) > 2 and if_node["c"][2] is not None
    if not has_else and c["k"] == "BinaryOperator" and ((c["op"] == "&&" and pol) or (c["op"] == "||" and not pol)):
        return _atoms(f, c["c"][0], pol, if_node, stop, first_line) + _atoms(f, c["c"][1], pol, if_node, stop, first_line)
    return [(resolve_key(f, cond) + _cond_version(f, cond, if_node, stop, first_line), pol)]


def _ctx(f, n, stop, labels, first_line=0):
    ctx = []
    cur = n
    for a in f.ancestors(n):
        if a is stop:
            break
        if a["k"] == "IfStmt":
            if a["c"][1] is not None and any(x is cur for x in walk(a["c"][1])):
                ctx += _atoms(f, a["c"][0], True, a, stop, first_line)
            elif len(a["c"]) > 2 and a["c"][2] is not None and any(x is cur for x in walk(a["c"][2])):
                ctx += _atoms(f, a["c"][0], False, a, stop, first_line)

        elif a["k"] in ("CaseStmt", "DefaultStmt"):
            lab = "default" if a["k"] == "DefaultStmt" else (a.get("en") or str(a.get("v")))
            own = next((b for b in f.ancestors(a) if b["k"] == "SwitchStmt"), None)
            if own is stop or own is None:
                if lab not in labels:
                    ctx.append(("case", lab))
            else:
                sid = "case@%s:%d" % (f.name, own["l"])
                if sid not in SWITCH_LABELS:
                    labs = set()
                    for y in walk(own["c"][1]):
                        if y["k"] in ("CaseStmt", "DefaultStmt") and next((b for b in f.ancestors(y) if b["k"] == "SwitchStmt"), None) is own:
                            labs.add("default" if y["k"] == "DefaultStmt" else (y.get("en") or str(y.get("v"))))
                    SWITCH_LABELS[sid] = labs
                prev = [it for it in ctx if it[0] == sid]
                if prev:
                    # `case 7: default: stmt` - one statement under several labels of the same switch
                    ctx.remove(prev[0])
                    ctx.append((sid, "|".join(sorted(set(prev[0][1].split("|")) | {lab}))))
                else:
                    ctx.append((sid, lab))
        elif a["k"] in ("WhileStmt", "ForStmt", "DoStmt"):
            ctx.append(("loop", str(a["l"] - stop["l"])))
        cur = a
    # a non-null test of X is implied by another guard of the same event that dereferences X (`X && X->len > 1` vs.
    # `if (!X) break; .. if (X->len > 1)`): drop it
    keys = [k for k, p_ in ctx if isinstance(k, str)]
    ctx = [(k, p_) for k, p_ in ctx if not (p_ is True and isinstance(k, str) and re.match(r"^[A-Za-z_][\w>.-]*?(@\d+)?$", k) and
                                            any((k.split("@")[0] + "->") in k2 for k2 in keys if k2 != k))]
    return frozenset(ctx)


SWITCH_LABELS = {}       # "case@function:line" -> all labels of that (inner) switch


def _merge(ctxs):
    """Merge contexts that differ only in the polarity of one condition (event printed in both branches), and contexts that
    differ only in the label of one inner switch when together they cover every label of a switch that has a default."""
    ctxs = list(ctxs)
    changed = True
    while changed:
        changed = False
        # exhaustive inner switch
        for sid, labs in SWITCH_LABELS.items():
            if "default" not in labs:
                continue
            groups = {}
            for idx, cx in enumerate(ctxs):
                items = [it for it in cx if it[0] == sid]
                if len(items) == 1:
                    groups.setdefault(cx - {items[0]}, {}).setdefault(items[0][1], []).append(idx)
            for rest, bylab in groups.items():
                if {l2 for l1 in bylab for l2 in l1.split("|")} >= labs:
                    k = min(len(v) for v in bylab.values())
                    drop = sorted((i for v in bylab.values() for i in v[:k]), reverse=True)
                    for i in drop:
                        del ctxs[i]
                    ctxs.extend([rest] * k)
                    changed = True
                    break
            if changed:
                break
        if changed:
            continue
        for i in range(len(ctxs)):
            for j in range(i + 1, len(ctxs)):
                a, b = ctxs[i], ctxs[j]
                d = a ^ b
                if len(d) == 2:
                    (c1, p1), (c2, p2) = tuple(d)
                    if c1 == c2 and p1 != p2 and p1 in (True, False):
                        ctxs[i] = a & b
                        del ctxs[j]
                        changed = True
                        break
            if changed:
                break
    return sorted(ctxs, key=lambda c: sorted(map(str, c)))


def _leaf_helper(P, f, call):
    """first-party helper that prints literals and does not call back into a token exporter"""
    h = P.resolve(f, call.get("callee") or "")
    if h is None or not P.first_party(h) or h is f or h.unit.base == "d_string.c":
        return None
    for c in h.calls():
        if (c.get("callee") or "").startswith("mmd_export_token"):
            return None
    return h


def r_balance(P, chk, units=None):
    rid = "R-BALANCE"
    chk.rule(rid, "per writer branch, every tag / environment the branch opens is closed under the same guard conditions "
                  "(START/STOP token pairs must cancel across the branches of the writer)")
    n_sections = n_events = 0
    for unit, fn, mode in DISPATCHERS:
        if units is not None and unit not in units:
            continue
        f = P.func(fn, unit)
        if f is None:
            continue
        sws = [x for x in f.walk() if x["k"] == "SwitchStmt" and key(x["c"][0]).endswith("->type")]
        if not sws:
            continue
        sw = sws[0]
        closed = set()
        for g in P.units[unit].funcs.values():
            for c in g.calls():
                s = _literal(c)
                if s:
                    for k, nm in _events_in_literal(s, mode):
                        if k == "c":
                            closed.add(nm)
        residual = {}      # (name, ctx) -> [(+1/-1, labels)]
        for labels, sect in _sections(f, sw):
            n_sections += 1
            ev = {}
            for st in sect:
                for c in walk(st):
                    if c["k"] != "CallExpr":
                        continue
                    s = _literal(c)
                    items = []
                    if s is not None:
                        items = [(k, nm, frozenset()) for k, nm in _events_in_literal(s, mode)]
                        if mode == "tex":
                            # unescaped braces: `\\section{` opens a group that a later `}` closes
                            t_ = re.sub(r"\\\\|\\[{}]", "", s)
                            d_ = t_.count("{") - t_.count("}")
                            items += [("o" if d_ > 0 else "c", "{group}", frozenset())] * abs(d_)
                    else:
                        h = _leaf_helper(P, f, c)
                        if h is not None:
                            for hc in h.calls():
                                hs = _literal(hc)
                                if hs:
                                    # guards inside the helper (over its own parameters) qualify the event
                                    # (a helper that loops - the outline stack walkers - is data dependent anyway: its
                                    # events stay unqualified, as before)
                                    loops = any(y["k"] in ("WhileStmt", "ForStmt", "DoStmt") for y in h.walk())
                                    hx = frozenset() if loops else frozenset(
                                        ("%s:%s" % (h.name, k2) if isinstance(k2, str) else k2, p2) for k2, p2 in _ctx(h, hc, h.body, [], 0))
                                    hev = _events_in_literal(hs, mode)
                                    if mode == "tex":
                                        t_ = re.sub(r"\\\\|\\[{}]", "", hs)
                                        d_ = t_.count("{") - t_.count("}")
                                        hev = hev + [("o" if d_ > 0 else "c", "{group}")] * abs(d_)
                                    items += [(k, nm, hx) for k, nm in hev]
                    if not items:
                        continue
                    cx = _ctx(f, c, sw, labels, sect[0]["l"])
                    for k, nm, extra in items:
                        if nm not in closed and nm != "{group}":
                            continue
                        n_events += 1
                        ev.setdefault(nm, {"o": [], "c": []})[k].append(cx | extra)
            for nm, oc in ev.items():
                o, c = _merge(oc["o"]), _merge(oc["c"])
                if o == c:
                    chk.obligation(rid, "%s [%s]: <%s> balanced (%d)" % (fn, labels[0], nm, len(o)), True, sample=False, nontrivial=bool(o and o[0]))
                    continue
                rv = [(l, REVIEWED[(fn, l, nm)]) for l in labels if (fn, l, nm) in REVIEWED]      # any label of the section
                if rv:
                    chk.obligation(rid, "%s [%s]: <%s> reviewed - %s" % (fn, rv[0][0], nm, rv[0][1]), True)
                    note = "R-BALANCE reviewed %s [%s] <%s>: %s" % (fn, rv[0][0], nm, rv[0][1])
                    if note not in chk.notes:
                        chk.notes.append(note)
                    continue
                # cancel what matches inside the section, keep the rest for cross-section pairing
                oo, cc = list(o), list(c)
                for x in list(oo):
                    if x in cc:
                        oo.remove(x)
                        cc.remove(x)
                # a token that is its own opener and closer (BACKTICK): `if (t->start < t->mate->start) open else close`
                for x in list(oo):
                    for y in list(cc):
                        d = x ^ y
                        if len(d) == 2:
                            (c1, p1), (c2, p2) = tuple(d)
                            if c1 == c2 and p1 != p2 and re.search(r"(\w+)->start[<>]=?\1->mate->start", str(c1).replace(" ", "")):
                                oo.remove(x)
                                cc.remove(y)
                                break
                for x in oo:
                    residual.setdefault((nm, x), []).append((1, labels[0]))
                for x in cc:
                    residual.setdefault((nm, x), []).append((-1, labels[0]))
        for (nm, cx), lst in sorted(residual.items(), key=lambda kv: (kv[0][0], sorted(map(str, kv[0][1])))):
            tot = sum(s for s, _ in lst)
            ok = tot == 0
            who = ", ".join("%s%s" % ("+" if s > 0 else "-", l) for s, l in lst)
            chk.obligation(rid, "%s: <%s> under %s opened and closed by paired branches (%s)" % (
                fn, nm, sorted(map(str, cx)) or "no condition", who), ok)
            if not ok:
                # name the branches whose surplus has no partner
                opens = [l for s, l in lst if s > 0]
                closes = [l for s, l in lst if s < 0]
                culprit = (opens if tot > 0 else closes)
                chk.violation(rid, "balance:%s:%s:%s" % (fn, culprit[-1] if culprit else "?", nm), "%s:%s" % (unit, fn),
                              "%s: the %s of <%s> under guard %s in branch %s has no matching %s under the same guard (%s)" % (
                                  fn, "opening" if tot > 0 else "closing", nm, sorted(map(str, cx)) or "[unconditional]",
                                  "/".join(culprit), "closing" if tot > 0 else "opening", who))
    # an element that is never closed by name anywhere in its unit can only be well-formed if it is self-closing: after the
    # literal that opens it, a literal carrying the `/>` terminator follows on every path (before the function returns)
    n_void = 0
    seen_units = set()
    for unit, fn, mode in DISPATCHERS:
        if mode != "xml" or unit in seen_units or (units is not None and unit not in units):
            continue
        seen_units.add(unit)
        u = P.units[unit]
        closed_u = set()
        for g in u.funcs.values():
            for c in g.calls():
                s_ = _literal(c)
                if s_:
                    closed_u |= {nm for k, nm in _events_in_literal(s_, "xml") if k == "c"}
        for g in u.funcs.values():
            pos = g.cfg.positions()
            enders = [c for c in g.calls() if "/>" in (_literal(c) or "") and c.get("i") in pos]
            for c in g.calls():
                s_ = _literal(c)
                if not s_ or c.get("i") not in pos:
                    continue
                for m in XML_OPEN.finditer(s_):
                    nm = m.group(1)
                    if nm in closed_u or m.group(3) == ">" and (m.group(2) or "").rstrip().endswith("/"):
                        continue
                    if "/>" in s_[m.end():]:
                        continue
                    n_void += 1
                    ok = any(g.cfg.postdominates(e["i"], c["i"]) for e in enders if e is not c)
                    if not ok and g.static:
                        # the opening was extracted into a static helper: every call of it is followed by the terminator
                        sites = [(h, c2) for h in u.funcs.values() if h is not g for c2 in h.calls(g.name)]
                        def closes_after(h, c2):
                            hp = h.cfg.positions()
                            he = [c3 for c3 in h.calls() if "/>" in (_literal(c3) or "") and c3.get("i") in hp]
                            return c2.get("i") in hp and any(h.cfg.postdominates(e2["i"], c2["i"]) for e2 in he)
                        ok = bool(sites) and all(closes_after(h, c2) for h, c2 in sites)
                    chk.obligation(rid, "%s %s: <%s> is never closed by name in %s, so it is terminated by `/>` on every path" % (
                        g.where(c), g.name, nm, unit), ok)
                    if not ok:
                        chk.violation(rid, "balance:void:%s:%s" % (g.name, nm), g.where(c),
                                      "%s opens <%s ...> but no `</%s>` exists anywhere in %s and no `/>` terminator follows on every "
                                      "path: the element is left open (or is closed under another name)" % (g.name, nm, nm, unit))
    if seen_units:
        chk.floor(rid, n_void, 2, "elements never closed by name (must be self-closing)")
    chk.floor(rid, n_sections, 150, "case sections of the writers' dispatchers")
    chk.floor(rid, n_events, 100, "open/close tag events")
    chk.analysed[rid] = {"sections": n_sections, "tag_events": n_events, "dispatchers": [d[1] for d in DISPATCHERS]}
