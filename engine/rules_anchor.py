"""R-ANCHOR (C10): generated anchors and the references to them are derived the same way."""
import re

from .prog import (AnalysisBroken, key, strip, walk, const_value, enum_name)

FAMILIES = ("fn", "fnref", "cn", "cnref", "gn", "gnref")


def _format_args(call):
    """For a d_string_append_printf(out, fmt, args...) call: list of (directive index, conversion, arg node)."""
    fmt = strip(call["c"][2])
    if fmt is None or fmt["k"] != "StringLiteral":
        return None, []
    s = fmt["s"]
    out = []
    args = call["c"][3:]
    ai = 0
    for m in re.finditer(r"%(?:%|[-+ #0]*\d*(?:\.\d+)?(?:hh|h|ll|l|z)?([diouxXcsfgp]))", s):
        if m.group(0) == "%%":
            continue
        out.append((m.start(), m.group(1), args[ai] if ai < len(args) else None))
        ai += 1
    return s, out


def _reaching_defs(f, var, at):
    """Assignment nodes to local `var` that can reach statement `at` (no intervening assignment)."""
    cfg = f.cfg
    pos = cfg.positions()
    defs = {}
    for x in f.walk():
        tgt = None
        if x["k"] == "BinaryOperator" and x["op"] == "=" and key(x["c"][0]) == var:
            tgt = x
        elif x["k"] == "VarDecl" and x["n"] == var and x.get("c") and x["c"][0] is not None:
            p = f.parent(x)
            tgt = p if p is not None and "i" in p else None
            if tgt is not None:
                defs.setdefault(pos.get(tgt["i"], (None, None))[0], []).append((pos.get(tgt["i"], (None, 0))[1], x))
            continue
        if tgt is not None and tgt["i"] in pos:
            b, i = pos[tgt["i"]]
            defs.setdefault(b, []).append((i, tgt))
    if at["i"] not in pos:
        return []
    ab, ai = pos[at["i"]]
    found = []
    # same block, before `at`
    here = [d for d in defs.get(ab, []) if d[0] < ai]
    if here:
        return [max(here, key=lambda d: d[0])[1]]
    seen = set()
    st = list(cfg.blocks[ab].preds)
    while st:
        b = st.pop()
        if b in seen:
            continue
        seen.add(b)
        if defs.get(b):
            found.append(max(defs[b], key=lambda d: d[0])[1])
            continue
        st.extend(cfg.blocks[b].preds)
    return found


def _is_random(f, arg, at, depth=0):
    """Is the printed number rand()-derived on some path (i.e. transformed under EXT_RANDOM_FOOT)?"""
    s = strip(arg)
    if s is None:
        return False
    for x in walk(s):
        if x["k"] == "CallExpr" and x.get("callee") == "rand":
            return True
        if x["k"] == "CallExpr" and x.get("callee") and depth < 3:
            # a same-unit helper that returns the (possibly renamed) number: judged by what it can return
            h = f.unit.funcs.get(x["callee"])
            if h is not None and h is not f:
                for r in h.walk():
                    if r["k"] == "ReturnStmt" and r.get("c") and r["c"][0] is not None and _is_random(h, r["c"][0], r, depth + 1):
                        return True
    if s["k"] == "DeclRefExpr" and s.get("dk") == "Var" and depth < 3:
        for d in _reaching_defs(f, s["n"], at):
            rhs = d["c"][1] if d["k"] == "BinaryOperator" else (d["c"][0] if d.get("c") else None)
            if rhs is not None and _is_random(f, rhs, d if "i" in d else at, depth + 1):
                return True
    return False


def r_anchor(P, chk):
    rid = "R-ANCHOR"
    chk.rule(rid, "every generated anchor family (fn, fnref, cn, cnref, gn, gnref) derives its number the same way at the id and at "
                  "every reference; heading ids, TOC / nav entries and automatic cross-reference targets come from one label function")
    sites = {}
    for f in P.all_funcs:
        if not P.first_party(f) or f.unit.base not in ("html.c", "epub.c"):
            continue
        for c in f.calls("d_string_append_printf"):
            s, dirs = _format_args(c)
            if s is None:
                continue
            for m in re.finditer(r'(id="|href="#)(\w+):%d', s):
                fam = m.group(2)
                if fam not in FAMILIES:
                    continue
                pos_d = m.end() - 2
                arg = next((a for p, conv, a in dirs if p == pos_d), None)
                if arg is None:
                    continue
                kind = "id" if m.group(1).startswith("id") else "href"
                sites.setdefault(fam, []).append((kind, f, c, arg, _is_random(f, arg, c)))
    chk.floor(rid, sum(len(v) for v in sites.values()), 14, "anchor id/href sites")
    for fam in FAMILIES:
        ss = sites.get(fam, [])
        kinds = {k for k, *_ in ss}
        ok = "id" in kinds and "href" in kinds
        chk.obligation(rid, "family %s: has both an id site and reference sites (%d sites)" % (fam, len(ss)), ok)
        if not ok:
            chk.violation(rid, "anchor:family:%s" % fam, "html.c", "anchor family %s has %s but not both an id and a reference" % (fam, sorted(kinds)))
        classes = {r for *_, r in ss}
        ok = len(classes) <= 1
        chk.obligation(rid, "family %s: every site prints %s" % (fam, "the EXT_RANDOM_FOOT-transformed number" if classes == {True}
                                                                 else "the plain index" if classes == {False} else "MIXED numbers"), ok)
        if not ok:
            plain = [(k, f, c) for k, f, c, a, r in ss if not r]
            rnd = [(k, f, c) for k, f, c, a, r in ss if r]
            minority = plain if len(plain) <= len(rnd) else rnd
            k0, f0, c0 = minority[0]
            chk.violation(rid, "anchor:mixed:%s:%s:%s" % (fam, f0.name, k0), f0.where(c0),
                          "anchor family %s: %s in %s prints the %s number while %d other site(s) print the %s one: with random "
                          "footnote anchors the reference and the id no longer match" % (
                              fam, k0, f0.name, "plain" if minority is plain else "random-transformed",
                              len(ss) - len(minority), "random-transformed" if minority is plain else "plain"))
    # the fnref back-link and the fn call derive from the same kind of number as their ids: families pair up
    for a, b in (("fn", "fnref"), ("cn", "cnref"), ("gn", "gnref")):
        ca = {r for *_, r in sites.get(a, [])}
        cb = {r for *_, r in sites.get(b, [])}
        ok = ca == cb
        chk.obligation(rid, "families %s and %s are numbered the same way" % (a, b), ok)
        if not ok:
            chk.violation(rid, "anchor:pair:%s" % a, "html.c", "families %s and %s are numbered differently (%s vs %s)" % (a, b, ca, cb))
    # every note call anchor (href="#fn:/#cn:/#gn:" with class footnote/citation/glossary) is governed by the
    # first-use test: re-use prints no id, first use prints id="<fam>ref:"
    n_calls = 0
    from .prog import edpe_blocks
    for fam, stack in (("fn", "used_footnotes"), ("cn", "used_citations"), ("gn", "used_glossaries")):
        for kind, f, c, arg, rnd in sites.get(fam, []):
            if kind != "href":
                continue
            s_, _ = _format_args(c)
            if ('<a href="#%s:' % fam) not in s_ or "reverse" in s_:
                continue
            n_calls += 1
            pos = f.cfg.positions()

            def decide(first):
                from .prog import reaching_defs

                def cmp_value(t2):
                    """truth of a first-use comparison (possibly wrapped in `? 1 : 0`) under the decision, else None"""
                    t2 = strip(t2)
                    if t2 is None:
                        return None
                    if t2["k"] == "BinaryOperator" and t2["op"] in ("==", "!=") and ("->%s->size" % stack) in key(t2):
                        same = not first            # `before == size` holds on re-use
                        return same if t2["op"] == "==" else not same
                    if t2["k"] == "ConditionalOperator" and const_value(t2["c"][1]) is not None and const_value(t2["c"][2]) is not None:
                        c0 = cmp_value(t2["c"][0])
                        if c0 is not None:
                            return bool(const_value(t2["c"][1])) if c0 else bool(const_value(t2["c"][2]))
                    return None

                def d(t_):
                    t2 = strip(t_)
                    v = cmp_value(t2)
                    if v is not None:
                        return v
                    if t2 is not None and t2["k"] == "DeclRefExpr" and t2.get("dk") == "Var":
                        # a flag that holds the outcome of the comparison at this point (all reaching definitions)
                        rds = reaching_defs(f, t2["n"], t2)
                        if rds:
                            vals = {cmp_value(r) for r in rds}
                            if None not in vals and len(vals) == 1:
                                return vals.pop()
                    return None
                return d
            def feasible(node, dfun):
                """Is the conjunction of the guards that enclose `node` (if / else-if chains) satisfiable once the first-use
                comparison and its flag copies are decided?  Catches what block reachability cannot: `if (A && reuse) .. else if (A)`
                - under "reuse" the second arm needs A and not-A."""
                CONTRA = "contra"

                def simp(e, want):
                    e2 = strip(e)
                    if e2 is None:
                        return []
                    v = dfun(e2)
                    if v is not None:
                        return [] if v == want else CONTRA
                    if e2["k"] == "UnaryOperator" and e2["op"] == "!":
                        return simp(e2["c"][0], not want)
                    if e2["k"] == "BinaryOperator" and e2["op"] in ("&&", "||"):
                        conj = (e2["op"] == "&&") == want          # both operands must take the value `want`
                        a, b = e2["c"]
                        if conj:
                            ra, rb = simp(a, want), simp(b, want)
                            if ra == CONTRA or rb == CONTRA:
                                return CONTRA
                            return ra + rb
                        # one operand suffices: if the other is decided the wrong way round, this one must do it
                        va, vb = dfun(strip(a)), dfun(strip(b))
                        if va is not None and va != want:
                            return simp(b, want)
                        if vb is not None and vb != want:
                            return simp(a, want)
                        return []
                    return [(key(e2).replace(" ", ""), want)]
                lits = []
                cur = node
                for a in f.ancestors(node):
                    if a["k"] == "IfStmt":
                        pol = None
                        if a["c"][1] is not None and any(x is cur for x in walk(a["c"][1])):
                            pol = True
                        elif len(a["c"]) > 2 and a["c"][2] is not None and any(x is cur for x in walk(a["c"][2])):
                            pol = False
                        if pol is not None:
                            r = simp(a["c"][0], pol)
                            if r == CONTRA:
                                return False
                            lits += r
                    cur = a
                seen = {}
                for k2, p2 in lits:
                    if seen.setdefault(k2, p2) != p2:
                        return False
                return True
            e_first, e_reuse = set(), set()
            b_first = edpe_blocks(f, "?none", 0, extra_decide=decide(True), edges_out=e_first)
            b_reuse = edpe_blocks(f, "?none", 0, extra_decide=decide(False), edges_out=e_reuse)
            ids = [c2 for k2, f2, c2, _, _ in sites.get(fam + "ref", []) if k2 == "id" and f2 is f and c2.get("i") in pos]
            idb = {pos[c2["i"]][0] for c2 in ids}
            hb = pos[c["i"]][0] if c.get("i") in pos else None
            has_id = ('id="%sref:' % fam) in s_

            def escapes(edges, blocks):
                """can the function be left from the href's block without printing an id of the family (pruned CFG)?"""
                if hb is None or hb not in blocks or not feasible(c, decide(True)):
                    return None               # the site does not run under this decision
                if has_id:
                    return False
                succ = {}
                for x, y in edges:
                    succ.setdefault(x, []).append(y)
                seen, st = set(), [hb]
                while st:
                    x = st.pop()
                    if x in seen:
                        continue
                    seen.add(x)
                    if x in idb and x != hb:
                        continue
                    if x == f.cfg.exit:
                        return True
                    st.extend(succ.get(x, ()))
                # an id printed in the href's own block after it counts as well
                return False
            first_escape = escapes(e_first, b_first)
            # on re-use no id may be printed with this anchor: neither in the literal nor reachable before leaving
            reuse_bad = None
            if hb is not None and hb in b_reuse and feasible(c, decide(False)):
                if has_id:
                    reuse_bad = True
                else:
                    succ = {}
                    for x, y in e_reuse:
                        succ.setdefault(x, []).append(y)
                    seen, st = set(), [hb]
                    reuse_bad = False
                    while st:
                        x = st.pop()
                        if x in seen:
                            continue
                        seen.add(x)
                        if x in idb and x != hb:
                            reuse_bad = True
                            break
                        st.extend(succ.get(x, ()))
            governed = any(("->%s->size" % stack) in key(y) for y in f.walk() if y["k"] == "BinaryOperator" and y["op"] in ("==", "!="))
            ok = governed and not first_escape and not reuse_bad
            gov = "first" if (first_escape is not None and reuse_bad is None) else ("reuse" if first_escape is None else "both")
            chk.obligation(rid, "%s %s: %s call anchor carries id=\"%sref:\" exactly on first use (decided by path condition)" % (
                f.where(c), f.name, fam, fam), ok)
            if not ok:
                chk.violation(rid, "anchor:firstuse:%s:%s" % (fam, gov if governed else "ungoverned"), f.where(c),
                              "%s prints a %s call anchor %s: the first call of a note must carry id=\"%sref:N\" (the list entry links "
                              "back to it) and later calls must not" % (f.name, fam,
                                  "outside the `== scratch->%s->size` first-use test" % stack if not governed else
                                  ("without the id on first use" if first_escape else "with the id on re-use"), fam))
    chk.floor(rid, n_calls, 3, "note call anchor sites")
    # a note that was registered as used gets its call anchor: between `<note>_from_bracket(.., &n)` (which pushes the note on the
    # used stack the first time) and the function's exit, every path prints a call anchor of the family - except the malformed
    # branch (n == -1).  An exit in between makes that silent registration the "first use": the real call is then printed as a
    # re-use without id and the list entry's back-link dangles.
    n_reg = 0
    for fam, reg in (("fn", "footnote_from_bracket"), ("gn", "glossary_from_bracket")):
        for f in P.all_funcs:
            if not P.first_party(f) or f.unit.base != "html.c":
                continue
            pos = f.cfg.positions()
            regs = [c for c in f.calls(reg) if c.get("i") in pos]
            if not regs:
                continue
            hrefs = [c for k2, f2, c, _, _ in sites.get(fam, []) if k2 == "href" and f2 is f and c.get("i") in pos
                     and ('<a href="#%s:' % fam) in (_format_args(c)[0] or "")]
            hb = {pos[c["i"]][0] for c in hrefs}
            for r in regs:
                n_reg += 1
                outv = None
                for a in r["c"][1:]:
                    sa = strip(a)
                    if sa is not None and sa["k"] == "UnaryOperator" and sa["op"] == "&":
                        outv = key(sa["c"][0])

                def wellformed(t_, outv=outv):
                    t2 = strip(t_)
                    if t2 is not None and t2["k"] == "BinaryOperator" and t2["op"] in ("==", "!=") and key(t2["c"][0]) == outv and \
                            const_value(t2["c"][1]) == -1:
                        return t2["op"] == "!="
                    return None
                edges = set()
                edpe_blocks(f, "?none", 0, extra_decide=wellformed, edges_out=edges)
                succ = {}
                for x, y in edges:
                    succ.setdefault(x, []).append(y)
                b0 = pos[r["i"]][0]
                seen, st, escape = set(), [b0], False
                while st:
                    x = st.pop()
                    if x in seen:
                        continue
                    seen.add(x)
                    if x in hb:
                        continue
                    if x == f.cfg.exit:
                        escape = True
                        break
                    st.extend(succ.get(x, ()))
                chk.obligation(rid, "%s %s: after %s every path prints the %s call anchor (malformed case aside)" % (f.where(r), f.name, reg, fam),
                               bool(hrefs) and not escape)
                if not hrefs or escape:
                    chk.violation(rid, "anchor:registered:%s" % fam, f.where(r),
                                  "%s can leave after %s has registered the note as used without printing its call anchor: a later, real "
                                  "call of the same note is then printed as a re-use (no id=\"%sref:N\") and the list entry links back "
                                  "to nothing" % (f.name, reg, fam))
    chk.floor(rid, n_reg, 2, "note registrations followed by a call anchor")
    r_listbound(P, chk, rid)
    # heading labels
    n_lab = 0
    for f in P.all_funcs:
        if not P.first_party(f):
            continue
        for c in f.calls("d_string_append_printf"):
            s, dirs = _format_args(c)
            if s is None:
                continue
            for m in re.finditer(r'(<h%1d id="|<li><a href="#|href="main\.xhtml#|\\label\{|text:bookmark text:name=")%s', s):
                arg = next((a for p, conv, a in dirs if p == m.end() - 2), None)
                if arg is None:
                    continue
                a = strip(arg)
                if a is None or a["k"] != "DeclRefExpr":
                    continue
                defs = _reaching_defs(f, a["n"], c)
                srcs = set()
                for d in defs:
                    rhs = strip(d["c"][1]) if d["k"] == "BinaryOperator" else strip(d["c"][0]) if d.get("c") else None
                    if rhs is not None and rhs["k"] == "CallExpr":
                        srcs.add(rhs.get("callee"))
                n_lab += 1
                ok = srcs == {"label_from_header"}
                if not ok and srcs == {"label_from_token"}:
                    # table / figure anchors are labelled from their caption token: accept when the site is only
                    # reachable for non-heading token types
                    from .prog import edpe_blocks
                    tk = [p[0] for p in f.params if "token" in p[1]]
                    if tk:
                        tt = dict(P.enumerators("token_types"))

                        def types_at(g, node, depth=0):
                            gt = [p[0] for p in g.params if "token" in p[1]]
                            if not gt:
                                return None
                            dk = gt[0] + "->type"
                            dispatches = any((x["k"] == "SwitchStmt" and key(x["c"][0]) == dk) or
                                             (x["k"] == "BinaryOperator" and x["op"] in ("==", "!=") and key(x["c"][0]) == dk) for x in g.walk())
                            if dispatches:
                                b = g.cfg.positions().get(node["i"], (None,))[0]
                                return {nm for nm, v in tt.items() if b in edpe_blocks(g, dk, v)}
                            if g.static and depth < 2:
                                out = set()
                                sites = [(h, c2) for h in g.unit.funcs.values() if h is not g for c2 in h.calls(g.name)]
                                for h, c2 in sites:
                                    t2 = types_at(h, c2, depth + 1)
                                    if t2 is None:
                                        return None
                                    out |= t2
                                return out if sites else None
                            return set(tt)
                        types = types_at(f, c) or set()
                        if types and not any(re.match(r"BLOCK_(H\d|SETEXT_\d)$", t) for t in types):
                            ok = True
                            srcs = {"label_from_token (non-heading: %s)" % sorted(types)[:2]}
                if "label" in m.group(1) and srcs <= {"label_from_header", "label_from_token"}:
                    # \label{} is also used for tables / figures (label_from_token on the caption)
                    ok = True
                chk.obligation(rid, "%s %s: heading anchor `%s` comes from %s" % (f.where(c), f.name, m.group(1), sorted(srcs)), ok)
                if not ok:
                    chk.violation(rid, "anchor:label:%s" % f.name, f.where(c), "%s prints a heading anchor obtained from %s instead of "
                                  "label_from_header (manual labels, Setext trimming and random labels are applied only there)" % (
                                      f.name, sorted(srcs)))
    chk.floor(rid, n_lab, 5, "heading anchor sites")
    # automatic cross-reference target of a heading
    ph = P.func("process_header_to_links", "writer.c")
    lf = [c.get("callee") for c in ph.calls() if (c.get("callee") or "").startswith("label_from_")]
    ok = "label_from_header" in lf and "label_from_token" not in lf
    chk.obligation(rid, "process_header_to_links derives the auto-link target with label_from_header (calls: %s)" % lf, ok)
    if not ok:
        chk.violation(rid, "anchor:label:process_header_to_links", ph.where(), "the automatic cross-reference target of a heading is "
                      "built with %s on the whole heading, while the id placed on the heading comes from label_from_header (Setext "
                      "underline trimming, random labels): the link does not resolve" % lf)
    # numbering: a note's number is the size of a used-note stack right after the note was pushed onto it (or -1 = unused)
    from .prog import resolve_key as _rk
    n_cnt = 0
    for f in P.all_funcs:
        if not P.first_party(f):
            continue
        for x in f.walk():
            if x["k"] != "BinaryOperator" or x["op"] != "=":
                continue
            l = strip(x["c"][0])
            if l is None or l["k"] != "MemberExpr" or l["n"] != "count" or l.get("rec") != "footnote":
                continue
            n_cnt += 1
            note = key(l["c"][0])
            rk = key(x["c"][1])
            ok = const_value(x["c"][1]) == -1
            if not ok:
                pushes = [c for c in f.calls("stack_push") if len(c["c"]) > 2 and key(c["c"][2]) == note and f.cfg.dominates(c["i"], x["i"])]
                for p in pushes:
                    sz = key(p["c"][1]) + "->size"
                    if rk == sz or _rk(f, x["c"][1]) == _rk(f, p["c"][1]) + "->size":
                        ok = True
                    # through a variable / out-parameter that was set to the size after the push
                    for y in f.walk():
                        if y["k"] == "BinaryOperator" and y["op"] == "=" and key(y["c"][0]) == rk and key(y["c"][1]) == sz \
                                and f.cfg.dominates(p["i"], y["i"]) and f.cfg.dominates(y["i"], x["i"]):
                            ok = True
            chk.obligation(rid, "%s %s: %s->count = %s is -1 or the size of the stack the note was just pushed onto" % (
                f.where(x), f.name, note, rk), ok)
            if not ok:
                chk.violation(rid, "anchor:count:%s" % f.name, f.where(x), "%s sets %s->count = %s, which is not the size of a used-note "
                              "stack right after pushing that note: call numbers and list positions can disagree" % (f.name, note, rk))
    chk.floor(rid, n_cnt, 2, "stores into footnote.count")
    from .prog import single_assignment_locals as _sal
    for fn, stackname in (("mmd_export_footnote_list_html", "used_footnotes"), ("mmd_export_citation_list_html", "used_citations"),
                          ("mmd_export_glossary_list_html", "used_glossaries")):
        f = P.func(fn, "html.c")

        def stack_of(e, f=f):
            k = key(e)
            init = _sal(f).get(k)
            return key(init) if init is not None else k
        okp = any(stack_of(c["c"][1]).endswith("->" + stackname) for c in f.calls("stack_peek_index"))
        chk.obligation(rid, "%s iterates scratch->%s (the stack that assigns the numbers)" % (fn, stackname), okp)
        if not okp:
            chk.violation(rid, "anchor:list:%s" % fn, f.where(), "%s does not iterate scratch->%s" % (fn, stackname))


def r_anchor_seed(P, chk):
    """The random renaming is a function of the plain ordinal: what is added to random_seed_base is never itself a
    renamed number (a second application gives an id that matches nothing)."""
    rid = "R-ANCHOR"
    n = 0
    for f in P.all_funcs:
        if not P.first_party(f) or f.unit.base not in ("html.c", "epub.c"):
            continue
        for c in f.calls("srand"):
            arg = strip(c["c"][1])
            if arg is None:
                continue
            leaves = [x for x in walk(arg) if x["k"] in ("DeclRefExpr", "MemberExpr") and const_value(x) is None]
            # operands other than the seed base
            ops = []
            for x in leaves:
                k = key(x)
                if k.endswith("random_seed_base") or "random_seed_base" in k:
                    continue
                if x["k"] == "DeclRefExpr" and any(y["k"] == "MemberExpr" and strip(y["c"][0]) is x for y in walk(arg)):
                    continue        # the base object of a member expression
                ops.append(x)
            for x in ops:
                n += 1
                bad = None
                if x["k"] == "DeclRefExpr" and x.get("dk") == "Var":
                    # a local: follow its reaching definitions; a copy of a field is judged by the stores into that field
                    srcs = []
                    for d in _reaching_defs(f, x["n"], c):
                        rhs = d["c"][1] if d["k"] == "BinaryOperator" else (d["c"][0] if d.get("c") else None)
                        if rhs is not None:
                            srcs.append((rhs, d if "i" in d else c))
                    for rhs, at in srcs:
                        r = strip(rhs)
                        if _is_random(f, rhs, at):
                            bad = "local %s is already a renamed number" % x["n"]
                        elif r is not None and r["k"] == "MemberExpr":
                            b2 = _field_random(P, r)
                            if b2:
                                bad = b2
                elif x["k"] == "MemberExpr":
                    bad = _field_random(P, x)
                chk.obligation(rid, "%s %s: srand(seed base + %s) is applied to a plain ordinal" % (f.where(c), f.name, key(x)), ok=bad is None)
                if bad:
                    chk.violation(rid, "anchor:seed:%s:%s" % (f.name, key(x)), f.where(c),
                                  "the random anchor renaming in %s is applied to %s: %s - the id printed here cannot match the one "
                                  "printed where the renaming is applied once" % (f.name, key(x), bad))
    chk.floor(rid, n, 1, "operands of the random anchor renaming")


def _field_random(P, m):
    """Does some store into field m (same record type and field name) store a rand()-renamed number?"""
    rec, fld = m.get("rec"), m["n"]
    for g in P.all_funcs:
        if not P.first_party(g):
            continue
        for y in g.walk():
            if y["k"] == "BinaryOperator" and y["op"] == "=":
                l = strip(y["c"][0])
                if l is not None and l["k"] == "MemberExpr" and l["n"] == fld and l.get("rec") == rec:
                    if _is_random(g, y["c"][1], y):
                        return "%s stores an already renamed number into %s (%s)" % (g.name, fld, g.where(y))
    return None


def r_anchor_nolabels(P, chk):
    """--nolabels removes the heading ids; then no automatic link target may be registered for a heading either."""
    from .prog import edpe_blocks
    rid = "R-ANCHOR"
    f = P.func("process_header_stack", "writer.c")
    if f is None:
        raise AnalysisBroken("process_header_stack is gone")

    def bit_set(t):
        t = strip(t)
        if t is None:
            return None
        if t["k"] == "BinaryOperator" and t["op"] == "&":
            for a in t["c"]:
                if enum_name(a) == "EXT_NO_LABELS":
                    return True
        if t["k"] == "UnaryOperator" and t["op"] == "!":
            r = bit_set(t["c"][0])
            return None if r is None else not r
        return None
    blocks = edpe_blocks(f, "?none", 0, extra_decide=bit_set)
    pos = f.cfg.positions()
    regs = [c for c in f.calls() if c.get("callee") in ("process_header_to_links", "store_link", "link_new") and c["i"] in pos]
    bad = [c for c in regs if pos[c["i"]][0] in blocks]
    chk.obligation(rid, "process_header_stack registers no heading link target when EXT_NO_LABELS is set (the writers then print no "
                   "heading ids)", bool(regs) and not bad)
    if not regs:
        chk.fail_broken("R-ANCHOR: process_header_stack no longer registers heading links (re-read the rule)")
    for c in bad[:1]:
        chk.violation(rid, "anchor:nolabels:process_header_stack", f.where(c), "with --nolabels (EXT_NO_LABELS alone) process_header_stack "
                      "still registers automatic link targets for headings, while every writer omits the heading ids under that bit: "
                      "`[Heading][]` becomes a link to an id that does not exist")



def r_listbound(P, chk, rid="R-ANCHOR"):
    """List exporters re-read the stack size on every iteration (rendering a note body can mark further notes as used)."""
    from .prog import single_assignment_locals
    if rid not in chk.rules:
        chk.rule(rid, "the note list exporters iterate their used-note stack up to its *current* size: a note first used inside "
                      "another note's body is pushed while the list is printed and must still get its entry (and its text)")
    n = 0
    for f in P.all_funcs:
        if not P.first_party(f):
            continue
        ptr_alias = {}
        for x in f.walk():
            if x["k"] == "VarDecl" and (x.get("t") or "").rstrip().endswith("*") and x["n"] in single_assignment_locals(f):
                ptr_alias[x["n"]] = key(single_assignment_locals(f)[x["n"]])

        def pk(e):
            k = key(e)
            for nm, init in ptr_alias.items():
                k = re.sub(r"(?<![A-Za-z0-9_>])%s(?![A-Za-z0-9_])" % re.escape(nm), init, k)
            return k
        for w in f.walk():
            if w["k"] == "WhileStmt" and w["c"][0] is not None:
                w = dict(w, c=[None, w["c"][0], None, w["c"][1]])      # view a while loop as for (; cond; ) body
            elif w["k"] != "ForStmt" or w["c"][1] is None:
                continue
            body_peeks = [x for x in walk(w["c"][3]) if x["k"] == "CallExpr" and x.get("callee") == "stack_peek_index"
                          and re.search(r"->used_\w+$", pk(x["c"][1]))]
            if not body_peeks:
                continue
            stk = pk(body_peeks[0]["c"][1])
            def exporting(g, node, depth=0):
                for x in walk(node):
                    if x["k"] != "CallExpr" or not x.get("callee"):
                        continue
                    if x["callee"].startswith("mmd_export_token_tree"):
                        return True
                    h = g.unit.funcs.get(x["callee"])
                    if h is not None and h is not g and depth < 2 and h.body is not None and exporting(h, h.body, depth + 1):
                        return True
                return False
            exports = exporting(f, w["c"][3])
            if not exports:
                continue
            n += 1
            ck = pk(w["c"][1])
            ok = (stk + "->size") in ck
            chk.obligation(rid, "%s %s: loop over %s re-reads ->size each iteration (condition %s)" % (f.where(w), f.name, stk, ck), ok)
            if not ok:
                chk.violation(rid, "anchor:list-bound:%s" % f.name, f.where(w), "%s iterates %s up to `%s`, a value read before the loop: "
                              "notes first used inside another note's body are pushed while the loop runs and never get a list entry" % (
                                  f.name, stk, ck))
    chk.floor(rid, n, 3, "note list loops")


# ---------------------------------------------------------------------------
# R-ANCHOR/toc-seed (C10): a table of contents derives a heading's unique label from the heading's ordinal

def r_anchor_tocseed(P, chk):
    """label_from_header numbers unlabelled headings with scratch->label_counter (the id is a function of that ordinal under
    --unique / --random).  The body exports headings in document order, so heading #k gets ordinal k.  A function that walks
    scratch->header_stack by index (tables of contents, EPUB navigation) may skip entries (level filter), so before it asks
    label_from_header for entry #k it has to set the counter to k."""
    rid = "R-ANCHOR"
    n = 0
    for f in P.all_funcs:
        if not P.first_party(f):
            continue
        calls = [c for c in f.calls("label_from_header")]
        if not calls:
            continue
        pos = f.cfg.positions()
        for c in calls:
            tok = strip(c["c"][2])
            if tok is None or tok["k"] != "DeclRefExpr" or tok.get("dk") != "Var":
                continue
            defs = _reaching_defs(f, tok["n"], c)
            idx = None
            for d in defs:
                rhs = d["c"][1] if d["k"] == "BinaryOperator" else (d["c"][0] if d.get("c") else None)
                r = strip(rhs) if rhs is not None else None
                if r is not None and r["k"] == "CallExpr" and r.get("callee") == "stack_peek_index" and key(r["c"][1]).endswith("header_stack"):
                    idx = key(r["c"][2]).replace("(", "").replace(")", "")
            if idx is None:
                continue
            n += 1
            stores = [x for x in f.walk() if x["k"] == "BinaryOperator" and x["op"] == "=" and key(x["c"][0]).endswith("->label_counter")
                      and key(x["c"][1]).replace("(", "").replace(")", "") == idx and x.get("i") in pos]
            ok = False
            for st in stores:
                if not f.cfg.dominates(st["i"], c["i"]):
                    continue
                # the index is not advanced between the store and the call
                changed = False
                for y in f.walk():
                    if y["k"] == "UnaryOperator" and y["op"] in ("post++", "pre++", "post--", "pre--") and \
                            key(y["c"][0]).replace("(", "").replace(")", "") == idx and y.get("i") in pos:
                        from .rules_mem import _reaches
                        if _reaches(f, pos, st, y, []) and _reaches(f, pos, y, c, [st]):
                            changed = True
                if not changed:
                    ok = True
            chk.obligation(rid, "%s %s: label_from_header for header_stack[%s] runs with label_counter = %s" % (f.where(c), f.name, idx, idx), ok)
            if not ok:
                chk.violation(rid, "anchor:toc-seed:%s" % f.name, f.where(c),
                              "%s asks label_from_header for entry %s of the header stack without setting scratch->label_counter to that "
                              "index first: under --unique / --random the label printed here is numbered differently from the id the "
                              "heading carries in the body (entries skipped by a level filter shift the numbering)" % (f.name, idx))
    chk.floor(rid, n, 3, "label_from_header calls on header-stack entries taken by index")
