#!/usr/bin/env python3
"""Re-runs the independently seeded breaking changes (seeded/<id>/patch.diff) against the current rules.

For each seed: scratch copy of /repo/src, patch applied, the seed's own property check run (C07 thorough); with
--all every registered check.  meta.json keeps `caught_before_strengthening` (set once, at import) and is updated
with the current result; seeded/README.md is regenerated from the metas (the prose parts live in seeded/NOTES.md).

usage: seedtest.py [--all] [--no-write] [id-substring ...]
"""
import glob, json, os, shutil, subprocess, sys, tempfile
from concurrent.futures import ThreadPoolExecutor
HERE = os.path.dirname(os.path.dirname(os.path.abspath(__file__)))
ALL = "--all" in sys.argv
WRITE = "--no-write" not in sys.argv


def run_one(d):
    meta = json.load(open(os.path.join(d, "meta.json")))
    pid = meta["property"]
    diff = os.path.join(d, "patch.diff")
    tmp = tempfile.mkdtemp(prefix="mmdseed-")
    try:
        shutil.copytree("/repo/src", os.path.join(tmp, "src"))
        shutil.copy("/repo/CMakeLists.txt", tmp)
        os.makedirs(os.path.join(tmp, "_build"))
        shutil.copy("/repo/_build/version.h", os.path.join(tmp, "_build"))
        r = subprocess.run(["git", "apply", "--unsafe-paths", "--directory=" + tmp, diff], capture_output=True, text=True, cwd="/")
        if r.returncode != 0:
            r = subprocess.run(["patch", "-p1", "-d", tmp, "-i", diff], capture_output=True, text=True)
            if r.returncode != 0:
                return d, meta, None, "PATCH-FAILED " + (r.stdout + r.stderr)[-300:]
        env = dict(os.environ, MMD_REPO=tmp, MMD_EVIDENCE=os.path.join(tmp, "ev"), MMD_CACHE=os.path.join(tmp, "cache"))
        props = [pid]
        if ALL:
            props = [c["property_id"] for c in json.load(open(os.path.join(HERE, "MANIFEST.json")))["checks"]]
        results = {}
        for p in props:
            r = subprocess.run([os.path.join(HERE, "check"), p, "--tier", "thorough" if p == "C07" else "quick"], capture_output=True, text=True, env=env)
            keys = [l.split("(key ", 1)[1].rstrip(")") for l in r.stdout.splitlines() if "(key " in l]
            results[p] = {"exit": r.returncode, "violation_keys": keys[:8]}
            if r.returncode == 2:
                results[p]["broken"] = [l for l in r.stdout.splitlines() if "ANALYSIS-BROKEN" in l][:3]
        return d, meta, results, ""
    finally:
        shutil.rmtree(tmp, ignore_errors=True)


def main():
    dirs = sorted(x for x in glob.glob(os.path.join(HERE, "seeded", "C*-*")) if os.path.isdir(x))
    sel = [a for a in sys.argv[1:] if not a.startswith("--")]
    if sel:
        dirs = [d for d in dirs if any(a in os.path.basename(d) for a in sel)]
    with ThreadPoolExecutor(max_workers=int(os.environ.get("MMD_JOBS", "6"))) as ex:
        res = list(ex.map(run_one, dirs))
    missed = 0
    for d, meta, results, err in res:
        name = os.path.basename(d)
        if results is None:
            print("%-8s %s" % (name, err))
            missed += 1
            continue
        own = results[meta["property"]]
        caught = own["exit"] == 1
        others = [p for p, r in results.items() if p != meta["property"] and r["exit"] == 1]
        print("%-8s %s %s%s" % (name, "CAUGHT" if caught else "MISSED", ", ".join(own["violation_keys"][:3]),
                                ("   [also: %s]" % ",".join(others)) if others else ""))
        missed += not caught
        if WRITE:
            meta.setdefault("caught_before_strengthening", meta.get("caught_by_own_property_check", caught))
            meta["caught_by_own_property_check"] = caught
            if ALL or "checks_run" not in meta:
                meta["checks_run"] = results
            else:
                meta["checks_run"].update(results)
            json.dump(meta, open(os.path.join(d, "meta.json"), "w"), indent=1)
    print("%d seeds, %d not caught by their own property's check" % (len(res), missed))
    if WRITE and not sel:
        write_readme()
    return 0


def write_readme():
    dirs = sorted(x for x in glob.glob(os.path.join(HERE, "seeded", "C*-*")) if os.path.isdir(x))
    metas = [(os.path.basename(d), json.load(open(os.path.join(d, "meta.json")))) for d in dirs]
    annp = os.path.join(HERE, "seeded", "annotations.json")      # which rule was added after a miss (kept apart from the metas,
    ann = json.load(open(annp)) if os.path.exists(annp) else {}  # which every run rewrites)
    for name, m in metas:
        if name in ann:
            m["rule_added_after_miss"] = ann[name]
    first = sum(1 for _, m in metas if m.get("caught_before_strengthening"))
    now = sum(1 for _, m in metas if m.get("caught_by_own_property_check"))
    notes = os.path.join(HERE, "seeded", "NOTES.md")
    with open(os.path.join(HERE, "seeded", "README.md"), "w") as f:
        f.write("# Independently seeded breaking changes\n\n"
                "Written by sub-agents that were given only the text of one property and a private scratch worktree of /repo (nothing "
                "from /verif; prompts in `prompts/`).  Each was confirmed here before it was kept: with the change the project builds and "
                "the 9 stable ctest entries pass, `demo.sh <tree>` exits non-zero; without it `demo.sh` exits 0 (`tools/seed_import.py`).  "
                "`tools/seedtest.py` re-runs the checks on a scratch copy with each patch applied and regenerates this file.\n\n"
                "Caught by the property's own check when first evaluated: %d of %d.  Every miss was analysed; where a structural necessary "
                "condition of the property exists, a rule for it was added (and run against the pinned tree, all mutants, all seeds and "
                "the benign corpus).  Now: %d of %d.\n\n" % (first, len(metas), now, len(metas)))
        f.write("| seed | prop | what it breaks | needs | caught at first | caught now | violation keys | also flagged by | rule added after the miss |\n|---|---|---|---|---|---|---|---|---|\n")
        for name, m in metas:
            own = m["checks_run"].get(m["property"], {})
            others = sorted(p for p, r in m["checks_run"].items() if p != m["property"] and r["exit"] == 1)
            f.write("| %s | %s | %s | %s | %s | %s | %s | %s | %s |\n" % (
                name, m["property"], m["breaks"][:170].replace("|", "/"), m["needs_to_manifest"][:120].replace("|", "/"),
                "yes" if m.get("caught_before_strengthening") else "no",
                "yes" if m.get("caught_by_own_property_check") else "**no**",
                ", ".join("`%s`" % k[:70] for k in own.get("violation_keys", [])[:2]),
                ", ".join(others), m.get("rule_added_after_miss", "")))
        if os.path.exists(notes):
            f.write("\n" + open(notes).read())


if __name__ == "__main__":
    sys.exit(main())
