#!/usr/bin/env python3
"""Imports an independently written breaking change (from a sub-agent's scratch worktree) into seeded/<id>/ after
confirming it myself: with the change the project builds, the 9 stable ctest entries pass and the demonstration
fails; without it the demonstration passes.  Then runs the property's check (and optionally all checks) on a
scratch copy with the change applied and records which rules fire.

usage: seed_import.py <PROPERTY> <A|B> <worktree> "<what it breaks>" "<what it needs to manifest>"
"""
import json, os, shutil, subprocess, sys, tempfile
HERE = os.path.dirname(os.path.dirname(os.path.abspath(__file__)))

def sh(cmd, cwd=None, env=None, timeout=1800):
    r = subprocess.run(cmd, shell=True, cwd=cwd, env=env, capture_output=True, text=True, errors="replace", timeout=timeout)
    return r.returncode, (r.stdout + r.stderr)

def ctest_ok(wt):
    rc, out = sh("ctest --test-dir _build -j8 2>&1 | grep -E 'tests passed|FAILED|Failed' ", cwd=wt)
    failed = [l for l in out.splitlines() if "Failed" in l or "(Failed)" in l]
    bad = [l for l in failed if "pathologic" not in l]
    return not bad, out[-400:]

def main():
    pid, letter, wt, what, needs = sys.argv[1:6]
    diff = os.path.join(wt, "seed_%s.diff" % letter)
    demo = os.path.join(wt, "demo_%s.sh" % letter)
    assert os.path.exists(diff) and os.path.exists(demo), "missing seed files"
    log = []
    sh("git checkout -- src", cwd=wt)
    rc, out = sh("git apply %s" % diff, cwd=wt)
    assert rc == 0, "patch does not apply: " + out
    rc, out = sh("cmake --build _build 2>&1 | tail -3", cwd=wt)
    assert rc == 0, out
    ok, o = ctest_ok(wt)
    log.append("with change: build ok; ctest stable entries pass = %s" % ok)
    rc_with, o1 = sh("sh %s %s" % (demo, wt), cwd=wt, timeout=900)
    log.append("with change: demo exit %d" % rc_with)
    sh("git checkout -- src", cwd=wt)
    sh("cmake --build _build 2>&1 | tail -1", cwd=wt)
    rc_without, o2 = sh("sh %s %s" % (demo, wt), cwd=wt, timeout=900)
    log.append("without change: demo exit %d" % rc_without)
    confirmed = ok and rc_with != 0 and rc_without == 0
    print("\n".join(log))
    if not confirmed:
        print("NOT CONFIRMED\n", o[-300:], o1[-500:], o2[-500:])
        return 1
    # run my checks on a scratch copy
    tmp = tempfile.mkdtemp(prefix="mmdseed-")
    results = {}
    try:
        shutil.copytree("/repo/src", os.path.join(tmp, "src"))
        shutil.copy("/repo/CMakeLists.txt", tmp)
        os.makedirs(os.path.join(tmp, "_build"))
        shutil.copy("/repo/_build/version.h", os.path.join(tmp, "_build"))
        rc, out = sh("git apply --unsafe-paths --directory=%s %s" % (tmp, diff), cwd="/")
        if rc != 0:
            rc, out = sh("patch -p1 -d %s -i %s" % (tmp, diff))
            assert rc == 0, "patch does not apply to /repo's current tree: " + out
        env = dict(os.environ, MMD_REPO=tmp, MMD_EVIDENCE=os.path.join(tmp, "ev"), MMD_CACHE=os.path.join(tmp, "cache"))
        props = [pid] if "--all" not in sys.argv else [c["property_id"] for c in json.load(open(os.path.join(HERE, "MANIFEST.json")))["checks"]]
        for p in props:
            r = subprocess.run([os.path.join(HERE, "check"), p, "--tier", "thorough" if p == "C07" else "quick"], capture_output=True, text=True, env=env)
            keys = [l.split("(key ", 1)[1].rstrip(")") for l in r.stdout.splitlines() if "(key " in l]
            results[p] = {"exit": r.returncode, "violation_keys": keys[:8]}
            if r.returncode == 2:
                results[p]["broken"] = [l for l in r.stdout.splitlines() if "ANALYSIS-BROKEN" in l][:3]
    finally:
        shutil.rmtree(tmp, ignore_errors=True)
    caught = results[pid]["exit"] == 1
    d = os.path.join(HERE, "seeded", "%s-%s" % (pid, letter))
    os.makedirs(d, exist_ok=True)
    shutil.copy(diff, os.path.join(d, "patch.diff"))
    shutil.copy(demo, os.path.join(d, "demo.sh"))
    meta = {"property": pid, "breaks": what, "needs_to_manifest": needs,
            "confirmed": log, "how_confirmed": "git apply in a scratch worktree of /repo; cmake --build; ctest (9 stable entries pass); sh demo.sh <tree> "
            "exits non-zero with the change and 0 without it",
            "checks_run": results, "caught_by_own_property_check": caught,
            "author": "independent sub-agent given only the property text and a scratch worktree"}
    json.dump(meta, open(os.path.join(d, "meta.json"), "w"), indent=1)
    print("CAUGHT" if caught else "MISSED", json.dumps(results)[:600])
    return 0

sys.exit(main())
