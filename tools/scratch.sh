#!/bin/sh
# usage: scratch.sh <diff>  -> prints a scratch copy of /repo/src with the diff applied (caller removes it)
T=$(mktemp -d /tmp/mmdx-XXXXXX); cp -r /repo/src $T/src; cp /repo/CMakeLists.txt $T; mkdir $T/_build; cp /repo/_build/version.h $T/_build
(cd / && git apply --unsafe-paths --directory=$T "$1") || (patch -p1 -d $T -i "$1" >/dev/null)
echo $T
