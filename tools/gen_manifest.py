#!/usr/bin/env python3
"""Generates MANIFEST.json from the table below (kept in one place so it stays valid)."""
import json, os
HERE = os.path.dirname(os.path.dirname(os.path.abspath(__file__)))

CHECKS = {
 "C01": ("other", "intra-procedural interval analysis (UB1: branch refinement, threshold widening, relational facts) over clang's CFG + whole-program value-origin analysis + constructor/field-initialisation analysis + release-event / ownership census with one-level callee summaries",
         "Decides seven structural clauses of memory safety: R-ARRAY (every index into / copy into a fixed-size array is bounded on all paths), R-TYPEWRITE (every value reaching token.type is a known constant < kMaxTokenTypes), R-LOOKBEHIND (every x-k string index is guarded by x>=k), R-INIT (no read of a never-initialised malloc'ed field), R-STALE (no use of a pointer into a realloc-grown buffer after a call that may move it), R-SCANIDX (a sentinel scan indexes only the scanned buffer or a full copy of it), R-SCANSTOP (forward character scans stop at NUL, classifier tables decoded from char.c), R-HEAPIDX (writes into a freshly malloc'ed character buffer stay inside the requested size), R-UAF (no dereference of a local after it was released directly or through a freeing helper), R-OWN (only the engine deep-frees token trees), R-HASHKEY (hash key pointers are record fields), R-GOTOINIT (no forward goto bypasses the initialisation of a local that is read after the label). Does not decide scanner termination, span arithmetic, ownership across containers.",
         "§3 C01"),
 "C02": ("other", "LALR table exploration (exhaustive) + enum-dispatch partial evaluation + call-graph reachability over clang-resolved callees",
         "Decides three structural clauses: R-LALR (exhaustive exploration of the LALR block parser's configuration space: every sequence of real line kinds is accepted, no error action, stack bounded), R-DISPATCH (every producible token type has a non-escape branch in all 7 writers, by EDPE), R-REDUCE (every reduce action reads all right-hand-side stack slots of its rule), R-LINESTRIP (every line kind a parser action retypes to is unwrapped before export, and no kind is unwrapped in one context but kept raw in another), R-SIBLING (OPML/ITMZ outline writers print the same source ranges per type; compared only while both keep the same dispatch form), R-NOEXIT (no exit/abort reachable from the API). Does not decide that the rendering contains all text.",
         "§3 C02"),
 "C04": ("other", "enum-dispatch partial evaluation (EDPE) of every writer over t->type: token-type x writer matrix, sibling agreement",
         "Decides structural clauses: no writer takes the unknown-token escape for a producible type (text dropped), LaTeX/OpenDocument emit or descend wherever HTML does, document-derived strings reach HTML/XML output only through the escape helpers (R-SINK), reserved-lexeme tokens are never printed raw, each format's character escaper covers its reserved set and a string printer copies raw runs only when delimited by a set covering every escaped byte, sanitised record fields only receive sanitiser results (R-SINK/provenance), note lists re-read their length (R-NOTELIST), and the outline writers (OPML, ITMZ, Beamer) decide closing of items/frames by comparing two levels that are the same linear function of the heading kind (R-LEVEL: EDPE + constant propagation); document-derived strings in LaTeX text positions go through the LaTeX escaper (R-SINK/latex); per writer branch every tag / environment opened is closed under the same guard conditions (R-BALANCE). Does not decide word order, verbatim reproduction or cross-format equality.",
         "§3 C04"),
 "C06": ("other", "must-pass-through / dominator checks on the wrapper functions' CFGs, EDPE over `format`, type-level pointer-to-pointer check",
         "Decides that every string/DString variant is a thin wrapper (delegates on all paths, sets language, forwards arguments, frees with the right ownership flag), that convert_to_data and convert_to_file build the same package per format, that every export is dominated by a (re)parse of the same engine and the parse entry points cannot skip the reset / tokenizer / parser, the CLI's -t table and output-name derivation, and that no output_format value flows into an lc_languages slot or vice versa (R-ENUMKIND kind inference over assignments and argument bindings). Byte equality follows because the engine function is shared; it is not itself checked.",
         "§3 C06"),
 "C05": ("other", "whole-program inventory of global-storage objects and stateful libc calls + call-graph reachability",
         "Decides: R-GLOBAL (every mutable global and stateful libc call reachable from a conversion is enumerated and must be allowed by the property's own terms), R-RESET (every container of the engine is cleared before a re-parse), R-INIT (no indeterminate heap value is read), R-SRCCONST (the conversion cone never writes the caller's source, with interprocedural DString-mutation summaries), R-INCDEC (depth / skip counters are decremented on every path from each increment to the exit). Does not decide byte equality of outputs as such.",
         "§3 C05"),
 "C19": ("other", "dominator / post-dominator obligations and a relational interval fact (pos <= length) on the CFGs of d_string.c; field-write coherence census outside it",
         "Decides the structural discipline the string model rests on: capacity ensured for exactly the stored length before every growing write, NUL re-stored after every length change, positions clamped or rejected before addressing, the -1 forms tested first (every length parameter of d_string.c is compared with -1), ensureStringBufferCanHold reserving size+1 and recording what it reallocated, DString fields written coherently outside d_string.c, editing loops moving their carried positions by exactly the net length change (R-DSTR/editloop), and writes into freshly allocated buffers staying inside the allocation (R-HEAPIDX: d_string_new, d_string_copy_substring). Does not decide equality with an ideal string (memmove lengths are not verified).",
         "§3 C19"),
 "C07": ("other", "call-graph SCC classification: depth-guard recognition (dominators), monotone-parameter recursion, block-only descent by EDPE, leaf self-calls from the pairing table; stack budget from compile-only -fstack-usage",
         "Decides the stack clause structurally: every recursive cycle reachable from the API is bounded by a guard against a constant (or confined to block-level nesting / flat input / a visited set) and bound x frame sizes fits a 2 MiB budget; plus R-CONSTTIME (append primitives are loop-free) and R-COUNTER (the pair matcher's opener counts follow every push and removal), necessary conditions of the linear-cost clause; R-INCDEC (a leaked depth increment would defeat the guard on later calls). Asymptotic cost itself is NOT decided (data-dependent loops).",
         "§3 C07"),
 "C08": ("other", "taint-style def-use classification (reaching definitions) of every non-literal output sink in the XML/HTML writer units; EDPE sibling comparison of raw token printing; EDPE escaper tables over all 256 bytes",
         "Decides the escaping discipline: document-derived strings (urls, titles, attribute keys/values, metadata values, fence info strings, clean_string results) reach html/odf/opml/itmz/epub output only through the format's escape helper; token types that some dispatcher renders as an entity are never printed as raw token text by another; the character escapers map & < > \" to entities and pass bytes >= 0x80 through unchanged under both signednesses of plain char; the OPML/ITMZ escaper and the unescaper are inverse (entity decoding order included); record fields printed unescaped only ever receive sanitiser / generator results (R-SINK/provenance); per writer branch every element opened is closed under the same guards (R-BALANCE). Whole-output well-formedness for every input (control characters, data-dependent nesting) is not decided.",
         "§3 C08"),
 "C09": ("other", "call-site census of every mz_zip_writer_add_mem in the package creators (names, order by dominance, flags, data provenance) and cross-literal agreement checks (container.xml / OPF manifest / ODF manifest vs. member names)",
         "Decides the structural clauses: required members are added under the right names, mimetype first (and stored for ODT) with the right media-type literal, container.xml names the OPF member, the OPF manifest's hrefs and the ODF manifest's full-paths all exist as members, the main member's data is the rendered body, every creator finalises the heap archive into the result DString after all adds, asset names come from uuid_new and the asset table is handed to the builder; ODT and FODT are decided alike by every format branch outside the packaging layer (R-FORMATPAIR, EDPE); the length delta of in-place asset-path replacement is consumed whenever the buffer is used again (R-EDITDELTA); a snapshot of a DString's length is not used as that buffer's length after a call that may change it (R-STALE/len); plus R-PTRPTR. CRCs, miniz correctness and byte-level archive validity are not decided.",
         "§3 C09"),
 "C10": ("other", "format-literal census of every id=/href=# anchor site with reaching-definition classification of the printed number; provenance check of heading anchors (one label function); field-write census of the numbering counters",
         "Decides: within each anchor family (fn, fnref, cn, cnref, gn, gnref) every id and every reference print the number derived the same way (plain vs EXT_RANDOM_FOOT-transformed), each referenced family has an id site, heading ids / TOC / EPUB nav / LaTeX labels / ODF bookmarks all come from label_from_header, the auto-link target does too (known finding), the note lists iterate the stacks that assign the numbers and re-read their length, every call anchor is governed by the first-use test, the random renaming is only ever applied to a plain ordinal, and no heading link target is registered when EXT_NO_LABELS suppresses the heading ids. That every reference resolves for every document (label text equality) is not decided.",
         "§3 C10"),
 "C11": ("other", "AST census of every comparison / hash lookup against a stored metadata key; provenance check of the compared value (normaliser result, fixed-point literal, caller arguments)",
         "Decides necessary conditions only (explicitly weak): keys are stored through label_from_string and every strcmp / HASH_FIND_STR against a stored key uses a value in the same normal form, the API functions detect metadata before reading the stack, forward character scans (key / value location) stop at the end of input (R-SCANSTOP), a trailing trim tests the element it removes (R-TRIMIDX), clean_string's whitespace flag follows every append on every path for all byte values (R-WSFLAG), and every LINE_EMPTY classification closes the metadata window (R-METAWINDOW). Offsets, value extraction, continuation joining and update splicing are data-dependent string arithmetic and are not decided.",
         "§3 C11"),
 "C12": ("other", "enum-dispatch partial evaluation of accept_token / reject_token over every cm_types enumerator, mirror comparison under ADD<->DEL; loop-direction and writer agreement checks",
         "Decides two structural clauses: accept and reject implement mirror-image tables (so a one-sided edit breaks one of them), every editing loop walks back to front from a tail that is only ever stored on a chain head (R-LINK), and the three writers' inline accept/reject handling of PAIR_CRITIC_* agree with one another and mirror. Byte-exact results and idempotence are not decided.",
         "§3 C12"),
 "C14": ("other", "EDPE of the OPML/ITMZ escapers over all 256 byte values + pattern extraction of the XML unescaper's entity table; inverse-table comparison",
         "Decides that XML escaping on export and unescaping on import are exact inverses byte for byte (entity text, compare length, cursor advance, governing case), exhaustively over the 256 byte values; that the OPML and ITMZ outline writers print the same source ranges per token type (R-SIBLING); that outline nesting compares levels on one scale for every heading kind (R-LEVEL); and that the library import path returns text and length that belong together (R-STALE/len). Verbatim section spans and re-import equality are not decided.",
         "§3 C14"),
 "C13": ("other", "dominator / post-dominator obligations on mmd_transclude_source's CFG + interval analysis of its text[] buffer",
         "Decides the termination guard and one manifest clause: the recursive call is dominated by the push of the file and by a membership test over the files being expanded whose hit branch skips the recursion, the name tested is the very name pushed (not edited in between) and is not built from the previous level's name except through realpath (a name that grows per level never matches: G28), every push is followed by exactly one pop, exit restores the stack; the 1000-byte cap fits text[1100]; the manifest query expands a private copy, never the engine's source; path construction never appends the string a buffer was created from a second time (R-ONCE). Exact substitution, manifest contents and path resolution are not decided.",
         "§3 C13"),
 "C15": ("other", "generated _Static_assert witnesses compiled with clang -fsyntax-only + AST census of next/prev/mate stores + whole-program value-origin analysis of token.type",
         "Decides the compile-time clause exhaustively (every parser terminal below the first block type, every token/critic type below kMaxTokenTypes, every offset-arithmetic family consecutive and equally long, sizeof(token) fits the pool) and two structural necessary conditions of the run-time clauses: R-LINK (next stores are matched by prev stores, mate written symmetrically, tail stored only on chain heads, token_pair_mate only on unmatched tokens), R-SPAN/split (the split primitives tile the original span), R-STALE/len (no token span is cut with a source length read before the text was replaced) and R-TYPEWRITE. Span containment, source order and root span are not decided.",
         "§3 C15"),
 "C18": ("other", "structural obligations (dominators, guard conditions) on object_pool.c/token.c and a counter abstraction (set-of-counts dataflow) over main's CFG",
         "Decides the implementation-side structure of the protocol: slab arithmetic consistent, bump gated by next<last and refill at next==last, slab aliases reset after drain, shared pool drained/freed only at use count 0, init idempotent (and never draining), every drain / free of the shared pool in token.c gated by use count 0, and the CLI never allocates tokens outside an init..drain bracket and frees at count 0. Behaviour of arbitrary client call histories is not decided.",
         "§3 C18"),
 "C16": ("other", "constant-table inspection (smart_char_type initialiser from the AST), cast check on every table lookup, whole-program absence of setlocale, interval analysis of the tolower argument in label_from_string",
         "Decides necessary conditions only (explicitly weak): the byte classifier is neutral on every byte >= 0x80 and is always indexed as unsigned char; ctype functions run only in the C locale (no setlocale anywhere) and label_from_string case-maps only ASCII while copying lead+continuation bytes unclassified, with the copy loop bounded by nothing but the continuation test; no hand-written code compares a single text byte with a constant >= 0x80 outside mask form (R-HIGHBYTE); trailing trims test the element they remove (R-TRIMIDX). The re2c scanners' treatment of 0xA0 and truncations at length limits are not decided.",
         "§3 C16"),
 "C20": ("other", "EDPE of mmd_engine_export_token_tree over output_format (header/footer/body call order and guarding conditions), guard-condition census of every EXT_COMPLETE store, strcmp-chain extraction of the control-key set, call-graph cone check of metadata reads",
         "Decides the structural clauses: the header call precedes and the footer follows the body and note lists under the same condition per format, EXT_COMPLETE is only set under !EXT_SNIPPET, the keys that do not force a complete document are exactly the rendering-control keys, the body exporters read metadata only in the variable-substitution branch, BLOCK_META emits nothing, the complete/snippet bits are referenced only by the wrapper layer (R-WRAPBIT), and the header / footer functions store into nothing but locals and the padding counter (R-WRAPPER-PURE). That the snippet appears byte-for-byte inside the complete output is not decided.",
         "§3 C20"),
 "C17": ("other", "same inventory on the -DDISABLE_OBJECT_POOL configuration with an empty allow list",
         "Decides the 'no shared mutable state' clause for the pool-disabled build; does not decide byte equality across threads.",
         "§3 C17"),
}
NA = [
 {"property_id": "C03", "reason": "input/output relation against a prose specification of HTML per construct; no clause is visible in the shape of the code, static analysis has no oracle (DESIGN.md §3 C03)"},
]

def main():
    all_ids = [json.loads(l)["id"] for l in open(os.path.join(HERE, "properties.jsonl"))]
    na_ids = {n["property_id"] for n in NA}
    na = list(NA)
    for pid in all_ids:
        if pid not in CHECKS and pid not in na_ids:
            na.append({"property_id": pid, "reason": "check not built yet (design in DESIGN.md §3 %s); not claimed until its rule is implemented and calibrated" % pid})
    m = {
     "version": 1,
     "setup_cmd": "./engine/build.sh",
     "hooks": {"guard": "MMD6_VERIF", "enable": "none needed: the checks analyse /repo's sources as they are (no instrumentation hooks exist)",
               "baseline_off_cmd": "./tools/baseline.sh", "source_commits": [], "add_only": True},
     "engines": [{"name": "mmdfacts", "path": "engine/", "serves_properties": sorted(CHECKS),
                  "kind_free_text": "clang-14 frontend plugin dumping type-resolved AST + CFG of every unit; Python rules (dominators, call graph, enum-dispatch partial evaluation, interval/guard analyses, LALR table exploration)"}],
     "checks": [],
     "notes": "Static analysis only. Exit 2 = analysis broken (anchor vanished / rule vacuous), never reported as pass. Genuine defects found on the pinned tree are in known_findings.json (findings + fixed).",
     "not_applicable": sorted(na, key=lambda x: x["property_id"]),
    }
    for pid in sorted(CHECKS):
        level, tech, text, ref = CHECKS[pid]
        m["checks"].append({
          "property_id": pid,
          "quick_cmd": "./check %s --tier quick" % pid,
          "thorough_cmd": "./check %s --tier thorough" % pid,
          "evidence_file": "evidence/%s.json" % pid,
          "replay_cmd_template": "cat {path}",
          "engine": "mmdfacts",
          "level_claimed": {"category": level, "text": text, "design_ref": "DESIGN.md " + ref},
          "level_note": "Trusted: clang 14 front end and CFG builder, the rule implementations in engine/, the reviewed exception tables printed in the evidence notes. Intra-procedural path rules + whole-program call graph; no interprocedural path sensitivity.",
          "technique": tech,
        })
    json.dump(m, open(os.path.join(HERE, "MANIFEST.json"), "w"), indent=1)
    print("MANIFEST.json: %d checks, %d not_applicable" % (len(m["checks"]), len(na)))

main()
