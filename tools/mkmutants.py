#!/usr/bin/env python3
"""Regenerates mutants/<name>.diff + .json from textual edits applied to a scratch copy of /repo/src.
Each definition: (name, file, old, new, meta).  `old` must occur in the file; the first occurrence
(or the n-th with meta['nth']) is replaced.  Pre-fix mutants (g*.diff) are produced from git history
and are not touched here."""
import json, os, subprocess, sys, tempfile, shutil
HERE = os.path.dirname(os.path.dirname(os.path.abspath(__file__)))
sys.path.insert(0, os.path.join(HERE, "mutants"))
from defs import MUTANTS

def main():
    only = sys.argv[1:]
    for name, path, old, new, meta in MUTANTS:
        if only and not any(o in name for o in only):
            continue
        src = open(os.path.join("/repo", path)).read()
        n = meta.pop("nth", 1)
        idx = -1
        for _ in range(n):
            idx = src.find(old, idx + 1)
            if idx < 0:
                break
        if idx < 0:
            print("PATTERN NOT FOUND", name)
            continue
        mutated = src[:idx] + new + src[idx + len(old):]
        tmp = tempfile.mkdtemp(prefix="mkmut-")
        try:
            a = os.path.join(tmp, "a", path); b = os.path.join(tmp, "b", path)
            os.makedirs(os.path.dirname(a)); os.makedirs(os.path.dirname(b))
            open(a, "w").write(src); open(b, "w").write(mutated)
            r = subprocess.run(["diff", "-u", "--label", "a/" + path, "--label", "b/" + path, a, b], capture_output=True, text=True)
            open(os.path.join(HERE, "mutants", name + ".diff"), "w").write("diff --git a/%s b/%s\n" % (path, path) + r.stdout)
            json.dump(meta, open(os.path.join(HERE, "mutants", name + ".json"), "w"))
        finally:
            shutil.rmtree(tmp)
        print("ok", name)
main()
