#!/usr/bin/env python3
"""False-alarm test: applies a behaviour-preserving refactoring (diff) to a scratch copy of /repo/src and runs
every registered check; all must stay exit 0.   usage: benign_check.py <diff> [<diff> ...]"""
import json, os, shutil, subprocess, sys, tempfile
from concurrent.futures import ThreadPoolExecutor
HERE = os.path.dirname(os.path.dirname(os.path.abspath(__file__)))

def one(diff):
    tmp = tempfile.mkdtemp(prefix="mmdbenign-")
    try:
        shutil.copytree("/repo/src", os.path.join(tmp, "src"))
        shutil.copy("/repo/CMakeLists.txt", tmp)
        os.makedirs(os.path.join(tmp, "_build"))
        shutil.copy("/repo/_build/version.h", os.path.join(tmp, "_build"))
        r = subprocess.run(["git", "apply", "--unsafe-paths", "--directory=" + tmp, diff], capture_output=True, text=True, cwd="/")
        if r.returncode != 0:
            return diff, "PATCH-FAILED " + r.stderr[-200:], {}
        env = dict(os.environ, MMD_REPO=tmp, MMD_EVIDENCE=os.path.join(tmp, "ev"), MMD_CACHE=os.path.join(tmp, "cache"))
        props = [c["property_id"] for c in json.load(open(os.path.join(HERE, "MANIFEST.json")))["checks"]]
        if os.environ.get("MMD_PROPS"):
            props = [p for p in props if p in os.environ["MMD_PROPS"].split(",")]
        bad = {}
        for p in props:
            r = subprocess.run([os.path.join(HERE, "check"), p], capture_output=True, text=True, env=env)
            if r.returncode != 0:
                bad[p] = [l[:260] for l in r.stdout.splitlines() if "(key " in l or "ANALYSIS-BROKEN" in l][:6]
        return diff, "SILENT" if not bad else "ALARM", bad
    finally:
        shutil.rmtree(tmp, ignore_errors=True)

with ThreadPoolExecutor(max_workers=int(os.environ.get("MMD_JOBS", "4"))) as ex:
    for diff, status, bad in ex.map(one, sys.argv[1:] or sorted(__import__("glob").glob(os.path.join(HERE, "benign", "*.diff")))):
        print(os.path.basename(os.path.dirname(diff)) + "/" + os.path.basename(diff), status)
        for p, lines in bad.items():
            for l in lines:
                print("   ", p, l)
