#!/bin/sh
# Runs the repository's own test suite (guard OFF: the default build has no verification define),
# and prints the number of sub-tests that passed/failed.  Expected: 345 passed, the two
# "pathologic" ctest entries fail in the pinned baseline as well.
set -e
B=/repo/_build
[ -f $B/build.ninja ] || cmake -G Ninja -S /repo -B $B -DCMAKE_BUILD_TYPE=Release >/dev/null
cmake --build $B >/dev/null
OUT=$(ctest --test-dir $B -j8 --timeout 900 -V 2>&1 || true)
PASS=$(printf '%s\n' "$OUT" | grep -c '\.\.\. OK$' || true)
FAIL=$(printf '%s\n' "$OUT" | grep -c '\.\.\. FAILED' || true)
echo "subtests passed=$PASS failed=$FAIL"
[ "$PASS" -ge 345 ] && [ "$FAIL" -eq 0 ]
