#!/usr/bin/env python3
"""Developer self-test: every mutant in mutants/*.diff must (a) still compile and (b) make the
named property's check exit 1 with a violation whose key contains the expected text; the
unchanged tree must stay silent.  Works on a scratch copy outside /repo and /verif.

mutants/<name>.diff     unified diff against /repo (git apply)
mutants/<name>.json     {"property": "C06", "expect": "W4:agree", "note": "..."}
Usage: tools/selftest.py [name-substring ...]
"""
import json, os, shutil, subprocess, sys, tempfile, glob
from concurrent.futures import ThreadPoolExecutor
HERE = os.path.dirname(os.path.dirname(os.path.abspath(__file__)))

def run_one(meta_path):
    name = os.path.basename(meta_path)[:-5]
    meta = json.load(open(meta_path))
    diff = meta_path[:-5] + ".diff"
    tmp = tempfile.mkdtemp(prefix="mmdmut-")
    try:
        shutil.copytree("/repo/src", os.path.join(tmp, "src"))
        shutil.copy("/repo/CMakeLists.txt", tmp)
        os.makedirs(os.path.join(tmp, "_build"))
        shutil.copy("/repo/_build/version.h", os.path.join(tmp, "_build"))
        r = subprocess.run(["git", "apply", "--unsafe-paths", "--directory=" + tmp, diff], capture_output=True, text=True, cwd="/")
        if r.returncode != 0:
            r = subprocess.run(["patch", "-p1", "-d", tmp, "-i", diff], capture_output=True, text=True)
            if r.returncode != 0:
                return name, "PATCH-FAILED", r.stdout + r.stderr
        changed = [l[6:].strip() for l in open(diff) if l.startswith("+++ b/")]
        for c in changed:
            if c.endswith(".c"):
                cflags = ["-DDISABLE_OBJECT_POOL"] if meta.get("config") == "nopool" else []
                r = subprocess.run(["cc", "-fsyntax-only", "-w", "-DNDEBUG", "-I" + tmp + "/src", "-I" + tmp + "/_build"] + cflags + [os.path.join(tmp, c)],
                                   capture_output=True, text=True)
                if r.returncode != 0:
                    return name, "DOES-NOT-COMPILE", r.stderr[-500:]
        env = dict(os.environ, MMD_REPO=tmp, MMD_EVIDENCE=os.path.join(tmp, "ev"), MMD_CACHE=os.path.join(tmp, "cache"))
        out = []
        ok = True
        for pid in ([meta["property"]] if isinstance(meta["property"], str) else meta["property"]):
            r = subprocess.run([os.path.join(HERE, "check"), pid, "--tier", meta.get("tier", "quick")], capture_output=True, text=True, env=env)
            if meta.get("benign"):
                hit = r.returncode == 0
            else:
                hit = r.returncode == 1 and meta["expect"] in r.stdout
            ok = ok and hit
            out.append("%s exit=%d %s" % (pid, r.returncode, "" if hit else r.stdout[-600:]))
        if meta.get("benign"):
            return name, "CAUGHT" if ok else "FALSE-ALARM", " | ".join(out)
        return name, "CAUGHT" if ok else "MISSED", " | ".join(out)
    finally:
        shutil.rmtree(tmp, ignore_errors=True)

def main():
    metas = sorted(glob.glob(os.path.join(HERE, "mutants", "*.json")))
    if len(sys.argv) > 1:
        metas = [m for m in metas if any(a in m for a in sys.argv[1:])]
    with ThreadPoolExecutor(max_workers=int(os.environ.get("MMD_JOBS", "8"))) as ex:
        res = list(ex.map(run_one, metas))
    bad = 0
    for name, status, detail in res:
        print("%-40s %s %s" % (name, status, detail if status != "CAUGHT" else ""))
        bad += status != "CAUGHT"
    print("%d mutants, %d not caught" % (len(res), bad))
    if len(sys.argv) == 1:
        with open(os.path.join(HERE, "mutants", "README.md"), "w") as f:
            f.write("# Self-written mutants (tools/selftest.py)\n\nEach is applied to a scratch copy of /repo/src, must compile, and the named "
                    "property's check must exit 1 with a violation key containing the expected text (`benign` ones must stay exit 0). "
                    "`g*` = the pre-fix state of a genuine defect (reverse of the fix commit).\n\n| mutant | property | expected key | what it does | last result |\n|---|---|---|---|---|\n")
            for (name, status, detail), mp in zip(res, metas):
                m = json.load(open(mp))
                f.write("| %s | %s | `%s` | %s | %s |\n" % (name, m["property"] if isinstance(m["property"], str) else ", ".join(m["property"]),
                                                         m["expect"], m.get("note", ""), status))
    return 1 if bad else 0

sys.exit(main())
